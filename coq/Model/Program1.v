(** C05, the labelling discipline of REAL scale-info registries ([RegistryOf1]).

    scale-info's registry interns a type [T] under [TypeId::of::<T::Identity>()]
    (scale-info 2.11 src/meta_type.rs [MetaType::new]) - ONE step of [Identity] at the top of the
    type and nothing below it.  [Identity] (src/impls.rs) is [T] for [Box<T>], [[T]] for [Vec<T>]
    and [VecDeque<T>], [str] for [String], [Self] for everything else of the source language
    (derived types included).  The content of the entry is [T::type_info()], and [Box<T>::type_info]
    delegates to [T::type_info]: it looks through EVERY outer Box.  Mirrored by the harness interner
    (harness/src/reggen.rs [tid_key] / [peel]) and validated against the real derive by the derive
    tier (harness/src/dtier.rs).

    Consequences the old discipline ([RegistryOf], Model/Program.v: labels in [canon] normal form,
    injective) does not cover: [Vec<Box<T>>] / [Vec<T>], [Option<Box<T>>] / [Option<T>],
    [Box<Vec<T>>] / [Vec<T>], [Box<String>] / [String], [Box<Box<T>>] / [T], [Foo<Box<T>>] /
    [Foo<T>] are pairs of DISTINCT entries with equal content.

    Definitions only; proofs in Proofs/Ident1.v, Proofs/RegistryOf1Sound.v,
    Proofs/SourceRoundTrip1.v, Proofs/SourceSkeleton1.v. *)
From Coq Require Import List NArith String Bool.
From V Require Import Base.Util Base.Strings Base.Result Model.Registry Model.Program.
Import ListNotations.
Open Scope string_scope. Open Scope list_scope.

(** ** what the registry interns by, literally ([tid_key]): the TypeId of a Rust type.  [KTy t] is
    the TypeId of the source type [t] itself, [KSlice t] of [[t]], [KStr] of [str]
    ([SPrimT PStr] is the source type [String]) *)
Inductive tkey := KTy (t : src) | KSlice (t : src) | KStr.

Definition tid_key (t : src) : tkey :=
  match t with
  | SBox a => KTy a
  | SVec a | SVecDeque a => KSlice a
  | SPrimT PStr => KStr
  | other => KTy other
  end.

(** the source types whose [Identity] is not [Self] *)
Definition identity_moves (t : src) : bool :=
  match t with
  | SBox _ | SVec _ | SVecDeque _ | SPrimT PStr => true
  | _ => false
  end.

(** ** the one-step identity normal form: a canonical representative, as a source type, of the
    class of source types with one [tid_key] ([ident1_key], Proofs/Ident1.v).
    - [VecDeque<T>] -> [Vec<T>] (both are interned as [[T]]), nothing below the top is touched;
    - [Box<T>] -> [T] when [T]'s identity is [T] itself (then TypeId([T]) is also the key of [T]);
    - [Box<T>] stays [Box<T>] when [T] is [Box<_>], [Vec<_>], [VecDeque<_>] or [String]: the key is
      the TypeId of [T] ITSELF, which no other source type is interned under ([Vec<u8>] is interned
      under [[u8]], [Box<Vec<u8>>] under [Vec<u8>]: two entries).  In particular
      [Box<Box<T>>] -> [Box<Box<T>>]: ONE step only. *)
Definition ident1 (t : src) : src :=
  match t with
  | SBox a => if identity_moves a then SBox a else a
  | SVecDeque a => SVec a
  | other => other
  end.

(** ** the type whose [type_info()] is the content of the entry: all outer boxes removed
    (reggen.rs [peel]); [VecDeque<T>::type_info] is the sequence of [T] like [Vec<T>]'s *)
Definition peel1 (t : src) : src :=
  match unbox t with
  | SVecDeque x => SVec x
  | other => other
  end.

(** ** [RegistryOf1 defs L r]: [r] is the registry scale-info derives from a program over [defs].
    [L] labels ids with closed source types in [ident1] normal form (children are NOT normalised:
    the label of [Vec<Box<u16>>] is [SVec (SBox (SPrimT PU16))]); it is injective (one entry per
    TypeId); every entry is the derive's entry for [peel1] of its label, where the id of a child
    type [x] is the id labelled [ident1 x]; the bit-order markers are the only unlabelled
    entries.  Closure under children is part of [entry_of1] (every child has a label). *)
Section RegistryOf1.
  Variable defs : list sdef.
  Variable L : N -> option src.
  Variable r : registry.

  Definition lab1 (id : N) (c : src) : Prop := L id = Some (ident1 c).

  Definition field_of1 (pnames : list string) (args : list src) (sf : sfield) (f : field) : Prop :=
    f_name f = sf_name sf /\
    lab1 (f_ty f) (let c := subst_src args (sf_ty sf) in if sf_compact_attr sf then SCompactT c else c) /\
    f_type_name f = (if sf_type_name sf then Some (render defs pnames (sf_ty sf)) else None).

  Definition param_of1 (pa : (string * bool) * src) (tp : tparam) : Prop :=
    tp_name tp = fst (fst pa) /\
    if snd (fst pa) then tp_ty tp = None else exists id, tp_ty tp = Some id /\ lab1 id (snd pa).

  (** the derive's entry for a peeled type *)
  Definition content_of1 (c : src) (t : ty) : Prop :=
    match c with
    | SParam _ | SBox _ | SVecDeque _ => False
    | SApp d args =>
        exists sd, nth_error defs d = Some sd /\
        t_path t = sd_path sd /\
        List.length args = List.length (sd_params sd) /\
        Forall2 param_of1 (combine (sd_params sd) args) (t_params t) /\
        let pnames := map fst (sd_params sd) in
        match sd_body sd with
        | SBStruct fs => exists fl, t_def t = TDComposite fl /\ Forall2 (field_of1 pnames args) fs fl
        | SBEnum vs =>
            exists vl, t_def t = TDVariant vl /\
            Forall2 (fun (v : string * N * list sfield) (vr : variant) =>
                       v_name vr = fst (fst v) /\ v_index vr = snd (fst v) /\
                       Forall2 (field_of1 pnames args) (snd v) (v_fields vr)) vs vl
        end
    | SVec x => exists e, builtin t (TDSequence e) /\ lab1 e x
    | SArray n x => exists e, builtin t (TDArray n e) /\ lab1 e x
    | STup xs => exists es, builtin t (TDTuple es) /\ Forall2 lab1 es xs
    | SPrimT p => builtin t (TDPrimitive p)
    | SCompactT x => exists e, builtin t (TDCompact e) /\ lab1 e x
    | SOpt x =>
        exists e, lab1 e x /\ t_path t = ["Option"] /\ t_params t = [mk_tparam "T" (Some e)] /\
        t_def t = TDVariant [mk_variant "None" [] 0 []; mk_variant "Some" [plain_field e] 1 []]
    | SRes a b =>
        exists x y, lab1 x a /\ lab1 y b /\ t_path t = ["Result"] /\
        t_params t = [mk_tparam "T" (Some x); mk_tparam "E" (Some y)] /\
        t_def t = TDVariant [mk_variant "Ok" [plain_field x] 0 []; mk_variant "Err" [plain_field y] 1 []]
    | SBTreeMap k v =>
        (* the field is the slice [[(K, V)]]: K and V as written *)
        exists ik iv iseq, lab1 ik k /\ lab1 iv v /\ lab1 iseq (SVec (STup [k; v])) /\
        t_path t = ["BTreeMap"] /\ t_params t = [mk_tparam "K" (Some ik); mk_tparam "V" (Some iv)] /\
        t_def t = TDComposite [plain_field iseq]
    | SBTreeSet x =>
        exists e iseq, lab1 e x /\ lab1 iseq (SVec x) /\ t_path t = ["BTreeSet"] /\
        t_params t = [mk_tparam "T" (Some e)] /\ t_def t = TDComposite [plain_field iseq]
    | SCow x =>
        exists e, lab1 e x /\ t_path t = ["Cow"] /\ t_params t = [mk_tparam "T" (Some e)] /\
        t_def t = TDComposite [plain_field e]
    | SRange x =>
        exists e, lab1 e x /\ t_path t = ["Range"] /\ t_params t = [mk_tparam "Idx" (Some e)] /\
        t_def t = TDComposite [mk_field (Some "start") e (Some "Idx") [];
                               mk_field (Some "end") e (Some "Idx") []]
    | SBitVec st lsb =>
        exists ist io ot, builtin t (TDBitSeq ist io) /\ lab1 ist (SPrimT st) /\
        L io = None /\ resolve r io = Some ot /\ order_marker lsb ot
    end.

  Definition entry_of1 (c : src) (t : ty) : Prop := content_of1 (peel1 c) t.

  Definition RegistryOf1 : Prop :=
    (* every labelled id carries a normal label, has an entry, and it is the derive's entry *)
    (forall id c, L id = Some c -> ident1 c = c /\ exists t, resolve r id = Some t /\ entry_of1 c t) /\
    (* unlabelled entries are the bit-order markers *)
    (forall id t, resolve r id = Some t -> L id = None -> exists lsb, order_marker lsb t) /\
    (* one id per TypeId *)
    (forall i j c, L i = Some c -> L j = Some c -> i = j).
End RegistryOf1.

(** *** the same as a boolean, with the labelling given as a list (position = id) *)
Section RegistryOf1B.
  Variable defs : list sdef.
  Variable labels : list (option src).
  Variable r : registry.

  Definition labb1 (id : N) (c : src) : bool :=
    match label_at labels id with Some y => src_eqb y (ident1 c) | None => false end.

  Definition field_ofb1 (pnames : list string) (args : list src) (sf : sfield) (f : field) : bool :=
    ostr_eqb (f_name f) (sf_name sf) &&
    labb1 (f_ty f) (let c := subst_src args (sf_ty sf) in if sf_compact_attr sf then SCompactT c else c) &&
    ostr_eqb (f_type_name f) (if sf_type_name sf then Some (render defs pnames (sf_ty sf)) else None).

  Definition param_ofb1 (pa : (string * bool) * src) (tp : tparam) : bool :=
    String.eqb (tp_name tp) (fst (fst pa)) &&
    match tp_ty tp with
    | None => snd (fst pa)
    | Some id => negb (snd (fst pa)) && labb1 id (snd pa)
    end.

  Definition content_ofb1 (c : src) (t : ty) : bool :=
    match c with
    | SParam _ | SBox _ | SVecDeque _ => false
    | SApp d args =>
        match nth_error defs d with
        | None => false
        | Some sd =>
            path_is_b (t_path t) (sd_path sd) &&
            Nat.eqb (List.length args) (List.length (sd_params sd)) &&
            forall2b param_ofb1 (combine (sd_params sd) args) (t_params t) &&
            let pnames := map fst (sd_params sd) in
            match sd_body sd, t_def t with
            | SBStruct fs, TDComposite fl => forall2b (field_ofb1 pnames args) fs fl
            | SBEnum vs, TDVariant vl =>
                forall2b (fun (v : string * N * list sfield) (vr : variant) =>
                            String.eqb (v_name vr) (fst (fst v)) && N.eqb (v_index vr) (snd (fst v)) &&
                            forall2b (field_ofb1 pnames args) (snd v) (v_fields vr)) vs vl
            | _, _ => false
            end
        end
    | SVec x => shape_b t [] [] && match t_def t with TDSequence e => labb1 e x | _ => false end
    | SArray n x => shape_b t [] [] && match t_def t with TDArray m e => N.eqb m n && labb1 e x | _ => false end
    | STup xs => shape_b t [] [] && match t_def t with TDTuple es => forall2b labb1 es xs | _ => false end
    | SPrimT p => shape_b t [] [] && match t_def t with TDPrimitive q => prim_eqb q p | _ => false end
    | SCompactT x => shape_b t [] [] && match t_def t with TDCompact e => labb1 e x | _ => false end
    | SOpt x =>
        match t_params t with
        | [tp] => match tp_ty tp with
                  | Some e => labb1 e x && shape_b t ["Option"] [mk_tparam "T" (Some e)] &&
                              variant_b t [mk_variant "None" [] 0 []; mk_variant "Some" [plain_field e] 1 []]
                  | None => false end
        | _ => false
        end
    | SRes a b =>
        match map tp_ty (t_params t) with
        | [Some x; Some y] =>
            labb1 x a && labb1 y b && shape_b t ["Result"] [mk_tparam "T" (Some x); mk_tparam "E" (Some y)] &&
            variant_b t [mk_variant "Ok" [plain_field x] 0 []; mk_variant "Err" [plain_field y] 1 []]
        | _ => false
        end
    | SBTreeMap k v =>
        match map tp_ty (t_params t), t_def t with
        | [Some ik; Some iv], TDComposite [f] =>
            labb1 ik k && labb1 iv v && labb1 (f_ty f) (SVec (STup [k; v])) &&
            shape_b t ["BTreeMap"] [mk_tparam "K" (Some ik); mk_tparam "V" (Some iv)] &&
            composite_b t [plain_field (f_ty f)]
        | _, _ => false
        end
    | SBTreeSet x =>
        match map tp_ty (t_params t), t_def t with
        | [Some e], TDComposite [f] =>
            labb1 e x && labb1 (f_ty f) (SVec x) && shape_b t ["BTreeSet"] [mk_tparam "T" (Some e)] &&
            composite_b t [plain_field (f_ty f)]
        | _, _ => false
        end
    | SCow x =>
        match map tp_ty (t_params t) with
        | [Some e] => labb1 e x && shape_b t ["Cow"] [mk_tparam "T" (Some e)] && composite_b t [plain_field e]
        | _ => false
        end
    | SRange x =>
        match map tp_ty (t_params t) with
        | [Some e] => labb1 e x && shape_b t ["Range"] [mk_tparam "Idx" (Some e)] &&
                      composite_b t [mk_field (Some "start") e (Some "Idx") []; mk_field (Some "end") e (Some "Idx") []]
        | _ => false
        end
    | SBitVec st lsb =>
        shape_b t [] [] &&
        match t_def t with
        | TDBitSeq ist io =>
            labb1 ist (SPrimT st) &&
            match label_at labels io, resolve r io with
            | None, Some ot => order_markerb lsb ot
            | _, _ => false
            end
        | _ => false
        end
    end.

  Definition entry_ofb1 (c : src) (t : ty) : bool := content_ofb1 (peel1 c) t.

  (** every label is normal and every entry is the derive's entry for its label *)
  Definition registry_entries_of1b : bool :=
    Nat.eqb (List.length labels) (List.length r) &&
    forall2b (fun (o : option src) (e : N * ty) =>
                match o with
                | Some c => src_eqb (ident1 c) c && entry_ofb1 c (snd e)
                | None => order_markerb true (snd e) || order_markerb false (snd e)
                end) labels r.

  (** ... and one id per label: this clause HOLDS of real registries ([ident1] labels) *)
  Definition registry_of1b : bool := registry_entries_of1b && labels_injectiveb labels.
End RegistryOf1B.

(** the labels the harness interner records (the closed source type an entry was FIRST registered
    for, as written) in normal form *)
Definition ident1_labels (raw : list (option src)) : list (option src) :=
  map (fun o => match o with Some c => Some (ident1 c) | None => None end) raw.

(** ** coincidence-freeness of an instantiation, restated on the identity real registries have: no
    argument is interned under the id of a non-parameter component nested in the definition (after
    substitution), the arguments of non-skipped parameters are interned under pairwise distinct
    ids, no parameter directly under a transparent wrapper.  Implied by [instantiation_cf]
    ([cf_cf1], Proofs/Ident1.v): two types with one id have one [canon] form. *)
Definition instantiation_cf1 (defs : list sdef) (d : sdef) (args : list src) : bool :=
  skipped_unused defs d &&
  let live := flat_map (fun ap : src * (string * bool) => if snd (snd ap) then [] else [fst ap])
                       (combine (map ident1 args) (sd_params d)) in
  (fix nodup (l : list src) := match l with
                               | [] => true
                               | x :: l' => negb (existsb (src_eqb x) l') && nodup l'
                               end) live &&
  forallb (fun ft =>
             negb (wrapper_on_param defs ft) &&
             forallb (fun c => is_param c ||
                               negb (existsb (src_eqb (ident1 (subst_src args c))) live))
                     (components defs ft)) (def_field_types d).

(** a [#[codec(compact)]] field whose [Compact<..>] type is interned under the id of an argument is
    told apart from the parameter only by its recorded type name *)
Definition compact_fields_okb1 (defs : list sdef) (d : sdef) (args : list src) : bool :=
  forallb (fun f : sfield =>
             negb (sf_compact_attr f) ||
             forallb (fun ap : src * (string * bool) =>
                        snd (snd ap) ||
                        negb (src_eqb (SCompactT (subst_src args (sf_ty f))) (ident1 (fst ap))) ||
                        (sf_type_name f &&
                         negb (String.eqb (fst (snd ap)) (render defs (map fst (sd_params d)) (sf_ty f)))))
                     (combine args (sd_params d)))
          (def_sfields d).

(** ** a registry with identity duplicates (shape: harness/src/corpus.rs [identity_programs]):
    [i::Ids<T> { a: Vec<Box<Vec<T>>>, b: Vec<Vec<T>>, d: VecDeque<Box<u8>>, e: Vec<u8>, r: T }] at
    [u16].  scale-info registers [Vec<Box<Vec<u16>>>] (id 2) and [Vec<Vec<u16>>] (id 4),
    [Box<Vec<u16>>] (id 3, TypeId of [Vec<u16>]) and [Vec<u16>] (id 5, TypeId of [[u16]]),
    [VecDeque<Box<u8>>] (id 6, TypeId of [[Box<u8>]]) and [Vec<u8>] (id 8) separately. *)
Definition id1_defs : list sdef :=
  [mk_sdef ["i"; "Ids"] [("T", false)]
           (SBStruct [mk_sfield (Some "a") (SVec (SBox (SVec (SParam 0)))) false true;
                      mk_sfield (Some "b") (SVec (SVec (SParam 0))) false true;
                      mk_sfield (Some "d") (SVecDeque (SBox (SPrimT PU8))) false true;
                      mk_sfield (Some "e") (SVec (SPrimT PU8)) false true;
                      mk_sfield (Some "r") (SParam 0) false true])].
Definition id1_fld (n : string) (ty : N) (tn : string) : field := mk_field (Some n) ty (Some tn) [].
Definition id1_ids (t a b d e : N) : ty :=
  mk_ty ["i"; "Ids"] [mk_tparam "T" (Some t)]
        (TDComposite [id1_fld "a" a "Vec<Box<Vec<T>>>"; id1_fld "b" b "Vec<Vec<T>>";
                      id1_fld "d" d "VecDeque<Box<u8>>"; id1_fld "e" e "Vec<u8>"; id1_fld "r" t "T"]) [].
Definition id1_seq (e : N) : ty := mk_ty [] [] (TDSequence e) [].
Definition id1_reg : registry :=
  [(0, id1_ids 1 2 4 6 8); (1, mk_ty [] [] (TDPrimitive PU16) []);
   (2, id1_seq 3); (3, id1_seq 1); (4, id1_seq 5); (5, id1_seq 1);
   (6, id1_seq 7); (7, mk_ty [] [] (TDPrimitive PU8) []); (8, id1_seq 7)]%N.
(** the labels as the interner records them (first registration, as written) *)
Definition id1_raw_labels : list (option src) :=
  [Some (SApp 0 [SPrimT PU16]); Some (SPrimT PU16);
   Some (SVec (SBox (SVec (SPrimT PU16)))); Some (SBox (SVec (SPrimT PU16)));
   Some (SVec (SVec (SPrimT PU16))); Some (SVec (SPrimT PU16));
   Some (SVecDeque (SBox (SPrimT PU8))); Some (SBox (SPrimT PU8)); Some (SVec (SPrimT PU8))].
Definition id1_labels : list (option src) := ident1_labels id1_raw_labels.
Definition id1_canon_labels : list (option src) :=
  map (fun o => match o with Some c => Some (canon c) | None => None end) id1_raw_labels.
