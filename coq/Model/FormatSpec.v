(** Independent reading of a formatted text (C15, second sentence): properly
    nested input, and the indentation discipline checked on the *output*. *)
From Coq Require Import List NArith ZArith Bool.
From V Require Import Model.Format.
Import ListNotations.
Open Scope N_scope.

Inductive bkind := KBrace | KParen | KAngle.

Definition bkind_eqb (a b : bkind) : bool :=
  match a, b with
  | KBrace, KBrace | KParen, KParen | KAngle, KAngle => true
  | _, _ => false
  end.

Definition opener (c : N) : option bkind :=
  if c =? c_lbrace then Some KBrace
  else if c =? c_lparen then Some KParen
  else if c =? c_langle then Some KAngle else None.

Definition closer (c : N) : option bkind :=
  if c =? c_rbrace then Some KBrace
  else if c =? c_rparen then Some KParen
  else if c =? c_rangle then Some KAngle else None.

(** properly nested over the three bracket kinds, every scope closed *)
Fixpoint nested_from (stack : list bkind) (s : list N) : bool :=
  match s with
  | [] => match stack with [] => true | _ => false end
  | c :: s' =>
      match opener c with
      | Some k => nested_from (k :: stack) s'
      | None =>
          match closer c with
          | Some k =>
              match stack with
              | k' :: st => bkind_eqb k k' && nested_from st s'
              | [] => false
              end
          | None => nested_from stack s'
          end
      end
  end.

Definition nestedb (s : list N) : bool := nested_from [] s.

Definition ws_free (s : list N) : bool :=
  forallb (fun c => negb ((c =? c_space) || (c =? c_nl))) s.

(** ** the discipline, read off the output alone.
    The reader keeps a stack of open scopes with a flag "broken over several
    lines"; a brace scope is always broken, a paren / angle scope is broken
    iff its opener is directly followed by a line break. *)
Fixpoint count_spaces (l : list N) : nat * list N :=
  match l with
  | c :: l' => if c =? c_space then let '(n, r) := count_spaces l' in (S n, r) else (O, l)
  | [] => (O, [])
  end.

Definition depth (stack : list (bkind * bool)) : nat :=
  List.length (filter (fun x => snd x) stack).

(** expected number of spaces after a line break, given what follows them *)
Definition expected_spaces (stack : list (bkind * bool)) (next : option N) : nat :=
  let d := depth stack in
  match next with
  | Some x =>
      if x =? c_lbrace then 4 * d + 1
      else match closer x, stack with
           | Some _, (_, true) :: _ => 4 * (d - 1)
           | _, _ => 4 * d
           end
  | None => 4 * d
  end.

Fixpoint discipline_from (fuel : nat) (stack : list (bkind * bool)) (out : list N) : bool :=
  match fuel with
  | O => false
  | S fuel' =>
    match out with
    | [] => match stack with [] => true | _ => false end
    | c :: out' =>
        if c =? c_nl then
          let '(k, r) := count_spaces out' in
          Nat.eqb k (expected_spaces stack (hd_error r)) && discipline_from fuel' stack r
        else
          match opener c with
          | Some KBrace => discipline_from fuel' ((KBrace, true) :: stack) out'
          | Some k =>
              let broken := match out' with x :: _ => x =? c_nl | [] => false end in
              discipline_from fuel' ((k, broken) :: stack) out'
          | None =>
              match closer c with
              | Some k =>
                  match stack with
                  | (k', _) :: st => bkind_eqb k k' && discipline_from fuel' st out'
                  | [] => false
                  end
              | None => discipline_from fuel' stack out'
              end
          end
    end
  end.

Definition disciplineb (out : list N) : bool :=
  discipline_from (S (List.length out)) [] out.

(** ** vocabulary of the indent invariant (C15_indent_invariant).
    [stack_after stack s]: the bracket stack [nested_from] has reached after
    reading [s] ([None] = mismatch); [nested_from stack s = true] iff
    [stack_after stack s = Some []]. *)
Fixpoint stack_after (stack : list bkind) (s : list N) : option (list bkind) :=
  match s with
  | [] => Some stack
  | c :: s' =>
      match opener c with
      | Some k => stack_after (k :: stack) s'
      | None =>
          match closer c with
          | Some k =>
              match stack with
              | k' :: st => if bkind_eqb k k' then stack_after st s' else None
              | [] => None
              end
          | None => stack_after stack s'
          end
      end
  end.

(** number of open scopes of kind [k] in a bracket stack *)
Definition count_kind (k : bkind) (bs : list bkind) : nat :=
  List.length (filter (bkind_eqb k) bs).

(** number of [Big] entries of one of the formatter's two scope stacks *)
Definition is_big (x : scope) : bool := match x with Big => true | Small => false end.
Definition count_big (l : list scope) : nat := List.length (filter is_big l).

(** ** vocabulary of the [decide_impl] characterisation: the open/close
    balance that [scope_is_small] keeps, after one character / after a text. *)
Definition bal_step (open close : N) (b : Z) (c : N) : Z :=
  let b1 := if c =? open then (b + 1)%Z else b in
  if c =? close then (b1 - 1)%Z else b1.

Definition bal (open close : N) (b : Z) (l : list N) : Z :=
  fold_left (bal_step open close) l b.

(** [l = pre ++ close :: post] where [close] is the closer matching an opener
    read at balance [b] (the balance stays positive on every prefix of [pre]
    and is 1 after it) and no opening brace occurs before it. *)
Definition small_split (open close : N) (b : Z) (l pre post : list N) : Prop :=
  l = pre ++ close :: post /\
  ~ In c_lbrace pre /\
  (forall k, (k <= List.length pre)%nat -> (1 <= bal open close b (firstn k pre))%Z) /\
  bal open close b pre = 1%Z.

(** ** the reader's "broken" flag against the formatter's own decisions
    (C15_broken_iff_big).  [read_broken out]: for every '(' / '<' of a text, in
    order, is it directly followed by a line break (what [discipline_from]
    takes for "this scope is broken over several lines"). *)
Definition starts_nl (l : list N) : bool :=
  match l with x :: _ => x =? c_nl | [] => false end.

Fixpoint read_broken (out : list N) : list bool :=
  match out with
  | [] => []
  | c :: out' =>
      if (c =? c_lparen) || (c =? c_langle) then starts_nl out' :: read_broken out'
      else read_broken out'
  end.

(** [big_decisions decide o input]: for every '(' / '<' of the input, in
    order, did the oracle answer "big" (the oracle state is threaded exactly as
    [step] threads it). *)
Section Decisions.
  Variable O : Type.
  Variable decide : O -> N -> N -> list N -> bool * O.

  Fixpoint big_decisions (o : O) (input : list N) : list bool :=
    match input with
    | [] => []
    | ch :: rest =>
        if ch =? c_lparen then
          let '(small, o') := decide o c_lparen c_rparen rest in
          negb small :: big_decisions o' rest
        else if ch =? c_langle then
          let '(small, o') := decide o c_langle c_rangle rest in
          negb small :: big_decisions o' rest
        else big_decisions o rest
    end.
End Decisions.
