(** An independent reading of emitted tokens: a recursive-descent parser for
    the item grammar the generator emits (modules, structs, enums, attributes,
    type expressions).  It does not share code with [Model/Emit.v]. *)
From Coq Require Import List NArith String Bool.
From V Require Import Base.Util Base.Strings Model.Settings.
Import ListNotations.
Open Scope string_scope. Open Scope list_scope.

Inductive pty :=
| PPath (leading : bool) (segs : list (string * list pty))
| PTuple (els : list pty)
| PArray (el : pty) (len : string)
| PBad.

Record pfield := mk_pfield {
  pf_attrs : list tokens; pf_pub : bool; pf_name : option string; pf_ty : pty }.

Inductive pbody := BUnit | BTuple (fs : list pfield) | BNamed (fs : list pfield).

Record pvariant := mk_pvariant { pv_attrs : list tokens; pv_name : string; pv_body : pbody }.

Record pitem := mk_pitem {
  pi_attrs : list tokens;       (* inner tokens of each #[...] *)
  pi_is_enum : bool;
  pi_name : string;
  pi_generics : list string;
  pi_body : pbody;              (* structs *)
  pi_variants : list pvariant;  (* enums *)
  pi_semi : bool }.             (* trailing semicolon present *)

Inductive pmod := PMod (name : string) (use_root : string) (mods : list pmod) (items : list pitem).

Definition teq (a b : string) : bool := String.eqb a b.

Definition is_open (t : string) : bool := teq t "(" || teq t "[" || teq t "{".
Definition is_close (t : string) : bool := teq t ")" || teq t "]" || teq t "}".

(** tokens up to the delimiter closing the current group (depth 0), and the rest after it *)
Fixpoint until_close (depth : nat) (toks : tokens) : option (tokens * tokens) :=
  match toks with
  | [] => None
  | t :: r =>
      if is_close t then
        match depth with
        | O => Some ([], r)
        | S d => match until_close d r with Some (a, b) => Some (t :: a, b) | None => None end
        end
      else if is_open t then
        match until_close (S depth) r with Some (a, b) => Some (t :: a, b) | None => None end
      else match until_close depth r with Some (a, b) => Some (t :: a, b) | None => None end
  end.

(** [# [ ... ]]* *)
Fixpoint parse_attrs (fuel : nat) (toks : tokens) : list tokens * tokens :=
  match fuel with
  | O => ([], toks)
  | S fuel' =>
      match toks with
      | "#" :: "[" :: r =>
          match until_close 0 r with
          | Some (inner, rest) => let '(l, rest') := parse_attrs fuel' rest in (inner :: l, rest')
          | None => ([], toks)
          end
      | _ => ([], toks)
      end
  end.

Definition is_punct (t : string) : bool :=
  existsb (teq t) ["("; ")"; "["; "]"; "{"; "}"; "<"; ">"; ","; ";"; ":"; "#"; "="; "&"; "'"; "!"; "-"; "*"; "+"].

(** type expressions *)
Fixpoint parse_ty (fuel : nat) (toks : tokens) : option (pty * tokens) :=
  match fuel with
  | O => None
  | S fuel' =>
      match toks with
      | "[" :: r =>
          match parse_ty fuel' r with
          | Some (el, ";" :: len :: "]" :: rest) => Some (PArray el len, rest)
          | _ => None
          end
      | "(" :: r =>
          (fix elems (f : nat) (toks : tokens) (acc : list pty) : option (pty * tokens) :=
             match f with
             | O => None
             | S f' =>
                 match toks with
                 | ")" :: rest => Some (PTuple (rev acc), rest)
                 | _ =>
                     match parse_ty fuel' toks with
                     | Some (t, "," :: rest) => elems f' rest (t :: acc)
                     | Some (t, ")" :: rest) => Some (PTuple (rev (t :: acc)), rest)
                     | _ => None
                     end
                 end
             end) fuel' r []
      | ":" :: ":" :: r => parse_segs fuel' true r []
      | _ => parse_segs fuel' false toks []
      end
  end
with parse_segs (fuel : nat) (leading : bool) (toks : tokens) (acc : list (string * list pty))
  : option (pty * tokens) :=
  match fuel with
  | O => None
  | S fuel' =>
      match toks with
      | id :: r =>
          if is_punct id then None
          else
            let after_args (args : list pty) (rest : tokens) :=
              match rest with
              | ":" :: ":" :: rest' => parse_segs fuel' leading rest' ((id, args) :: acc)
              | _ => Some (PPath leading (rev ((id, args) :: acc)), rest)
              end in
            match r with
            | "<" :: r' =>
                (fix args (f : nat) (toks : tokens) (a : list pty) : option (pty * tokens) :=
                   match f with
                   | O => None
                   | S f' =>
                       match toks with
                       | ">" :: rest => after_args (rev a) rest
                       | _ =>
                           match parse_ty fuel' toks with
                           | Some (t, "," :: rest) => args f' rest (t :: a)
                           | Some (t, ">" :: rest) => after_args (rev (t :: a)) rest
                           | _ => None
                           end
                       end
                   end) fuel' r' []
            | _ => after_args [] r
            end
      | [] => None
      end
  end.

Definition strip_pub (toks : tokens) : bool * tokens :=
  match toks with "pub" :: r => (true, r) | _ => (false, toks) end.

(** fields inside a group whose tokens are [inner] (delimiters removed) *)
Fixpoint parse_fields (fuel : nat) (named : bool) (inner : tokens) : option (list pfield) :=
  match fuel with
  | O => None
  | S fuel' =>
      match inner with
      | [] => Some []
      | _ =>
          let '(attrs, r) := parse_attrs fuel inner in
          let '(pb, r) := strip_pub r in
          let field_rest (name : option string) (r : tokens) :=
            match parse_ty fuel r with
            | Some (t, rest) =>
                let rest := match rest with "," :: rest' => rest' | _ => rest end in
                match rest, parse_fields fuel' named rest with
                | _, Some fs => Some (mk_pfield attrs pb name t :: fs)
                | _, None => None
                end
            | None => None
            end in
          if named then
            match r with
            | name :: ":" :: r' => field_rest (Some name) r'
            | _ => None
            end
          else field_rest None r
      end
  end.

Definition parse_body (fuel : nat) (toks : tokens) : option (pbody * tokens) :=
  match toks with
  | "(" :: r =>
      match until_close 0 r with
      | Some (inner, rest) =>
          match parse_fields fuel false inner with Some fs => Some (BTuple fs, rest) | None => None end
      | None => None
      end
  | "{" :: r =>
      match until_close 0 r with
      | Some (inner, rest) =>
          match parse_fields fuel true inner with Some fs => Some (BNamed fs, rest) | None => None end
      | None => None
      end
  | _ => Some (BUnit, toks)
  end.

Fixpoint parse_generics (fuel : nat) (toks : tokens) (acc : list string) : option (list string * tokens) :=
  match fuel with
  | O => None
  | S fuel' =>
      match toks with
      | ">" :: rest => Some (rev acc, rest)
      | id :: "," :: rest => parse_generics fuel' rest (id :: acc)
      | id :: ">" :: rest => Some (rev (id :: acc), rest)
      | _ => None
      end
  end.

Fixpoint parse_variants (fuel : nat) (inner : tokens) : option (list pvariant) :=
  match fuel with
  | O => None
  | S fuel' =>
      match inner with
      | [] => Some []
      | _ =>
          let '(attrs, r) := parse_attrs fuel inner in
          match r with
          | name :: r' =>
              match parse_body fuel r' with
              | Some (b, "," :: rest) =>
                  match parse_variants fuel' rest with
                  | Some vs => Some (mk_pvariant attrs name b :: vs)
                  | None => None
                  end
              | Some (b, []) => Some [mk_pvariant attrs name b]
              | _ => None
              end
          | [] => None
          end
      end
  end.

(** one item starting at its attributes *)
Definition parse_item (fuel : nat) (toks : tokens) : option (pitem * tokens) :=
  let '(attrs, r) := parse_attrs fuel toks in
  match r with
  | "pub" :: kw :: name :: r' =>
      if teq kw "struct" || teq kw "enum" then
        let gen := match r' with
                   | "<" :: g => parse_generics fuel g []
                   | _ => Some ([], r')
                   end in
        match gen with
        | None => None
        | Some (gs, r2) =>
            if teq kw "struct" then
              match parse_body fuel r2 with
              | Some (b, ";" :: rest) => Some (mk_pitem attrs false name gs b [] true, rest)
              | Some (b, rest) => Some (mk_pitem attrs false name gs b [] false, rest)
              | None => None
              end
            else
              match r2 with
              | "{" :: r3 =>
                  match until_close 0 r3 with
                  | Some (inner, rest) =>
                      match parse_variants fuel inner with
                      | Some vs => Some (mk_pitem attrs true name gs BUnit vs false, rest)
                      | None => None
                      end
                  | None => None
                  end
              | _ => None
              end
        end
      else None
  | _ => None
  end.

Fixpoint parse_mod (fuel : nat) (toks : tokens) : option (pmod * tokens) :=
  match fuel with
  | O => None
  | S fuel' =>
      match toks with
      | "pub" :: "mod" :: name :: "{" :: "use" :: "super" :: ":" :: ":" :: root :: ";" :: r =>
          (fix body (f : nat) (toks : tokens) (mods : list pmod) (items : list pitem)
             : option (pmod * tokens) :=
             match f with
             | O => None
             | S f' =>
                 match toks with
                 | "}" :: rest => Some (PMod name root (rev mods) (rev items), rest)
                 | "pub" :: "mod" :: _ =>
                     match parse_mod fuel' toks with
                     | Some (m, rest) => body f' rest (m :: mods) items
                     | None => None
                     end
                 | _ =>
                     match parse_item fuel toks with
                     | Some (it, rest) => body f' rest mods (it :: items)
                     | None => None
                     end
                 end
             end) fuel' r [] []
      | _ => None
      end
  end.

Definition parse_module (toks : tokens) : option pmod :=
  match parse_mod (S (List.length toks)) toks with
  | Some (m, []) => Some m
  | _ => None
  end.

Definition parse_type (toks : tokens) : option pty :=
  match parse_ty (S (List.length toks)) toks with
  | Some (t, []) => Some t
  | _ => None
  end.

Definition parse_one_item (toks : tokens) : option pitem :=
  match parse_item (S (List.length toks)) toks with
  | Some (it, []) => Some it
  | _ => None
  end.

(** ** lookups in the parsed tree *)
Fixpoint find_mod (ms : list pmod) (n : string) : option pmod :=
  match ms with
  | [] => None
  | (PMod n' _ _ _ as m) :: ms' => if teq n n' then Some m else find_mod ms' n
  end.

Fixpoint find_item (is : list pitem) (n : string) : option pitem :=
  match is with
  | [] => None
  | i :: is' => if teq n (pi_name i) then Some i else find_item is' n
  end.

(** item at [path] (relative to the module [m], not including its own name) *)
Fixpoint lookup_item (m : pmod) (path : list string) : option pitem :=
  match m, path with
  | PMod _ _ _ items, [n] => find_item items n
  | PMod _ _ mods _, n :: rest =>
      (fix go (ms : list pmod) : option pitem :=
         match ms with
         | [] => None
         | (PMod n' _ _ _ as c) :: ms' => if teq n n' then lookup_item c rest else go ms'
         end) mods
  | _, [] => None
  end.

(** all items with their full paths *)
Fixpoint all_items (m : pmod) (prefix : list string) : list (list string * pitem) :=
  match m with
  | PMod _ _ mods items =>
      map (fun i => (prefix ++ [pi_name i], i)) items ++
      (fix go (ms : list pmod) : list (list string * pitem) :=
         match ms with
         | [] => []
         | (PMod n _ _ _ as c) :: ms' => all_items c (prefix ++ [n]) ++ go ms'
         end) mods
  end.

Fixpoint pty_eqb (a b : pty) : bool :=
  match a, b with
  | PPath la sa, PPath lb sb =>
      Bool.eqb la lb &&
      (fix go (x y : list (string * list pty)) : bool :=
         match x, y with
         | [], [] => true
         | (n, aa) :: x', (m, bb) :: y' =>
             teq n m &&
             (fix go2 (p q : list pty) : bool :=
                match p, q with
                | [], [] => true
                | t :: p', u :: q' => pty_eqb t u && go2 p' q'
                | _, _ => false
                end) aa bb && go x' y'
         | _, _ => false
         end) sa sb
  | PTuple xs, PTuple ys =>
      (fix go2 (p q : list pty) : bool :=
         match p, q with
         | [], [] => true
         | t :: p', u :: q' => pty_eqb t u && go2 p' q'
         | _, _ => false
         end) xs ys
  | PArray x lx, PArray y ly => pty_eqb x y && teq lx ly
  | PBad, PBad => true
  | _, _ => false
  end.

(** substitute generic names by closed types *)
Fixpoint pty_subst (env : list (string * pty)) (t : pty) : pty :=
  match t with
  | PPath false [(n, [])] =>
      match (fix look (e : list (string * pty)) : option pty :=
               match e with
               | [] => None
               | (k, v) :: e' => if teq k n then Some v else look e'
               end) env with
      | Some v => v
      | None => t
      end
  | PPath l segs =>
      PPath l ((fix go (x : list (string * list pty)) : list (string * list pty) :=
                  match x with
                  | [] => []
                  | (n, aa) :: x' =>
                      (n, (fix go2 (p : list pty) : list pty :=
                             match p with [] => [] | u :: p' => pty_subst env u :: go2 p' end) aa) :: go x'
                  end) segs)
  | PTuple xs => PTuple ((fix go2 (p : list pty) : list pty :=
                            match p with [] => [] | u :: p' => pty_subst env u :: go2 p' end) xs)
  | PArray x l => PArray (pty_subst env x) l
  | PBad => PBad
  end.
