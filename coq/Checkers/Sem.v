(** Interpretation of a parsed generated module against the registry:
    closedness (C02), wire-faithfulness by pair exploration (C01/C03/C18),
    derive sets (C08), substitution (C07).  Written against the *parsed
    observed tokens*, independently of the generator model. *)
From Coq Require Import List NArith String Bool.
From V Require Import Base.Util Base.Strings Model.Registry Model.Settings Model.Subst Checkers.Parse.
Import ListNotations.
Open Scope string_scope. Open Scope list_scope.

(** ** traversals over parsed types *)
Fixpoint pty_paths (t : pty) : list (bool * list (string * list pty)) :=
  match t with
  | PPath l segs =>
      (l, segs) ::
      (fix go (x : list (string * list pty)) :=
         match x with
         | [] => []
         | (_, aa) :: x' =>
             (fix go2 (p : list pty) := match p with [] => [] | u :: p' => pty_paths u ++ go2 p' end) aa ++ go x'
         end) segs
  | PTuple xs => (fix go2 (p : list pty) := match p with [] => [] | u :: p' => pty_paths u ++ go2 p' end) xs
  | PArray x _ => pty_paths x
  | PBad => []
  end.

Fixpoint pty_ok (t : pty) : bool :=
  match t with
  | PPath _ segs =>
      (fix go (x : list (string * list pty)) :=
         match x with
         | [] => true
         | (_, aa) :: x' =>
             (fix go2 (p : list pty) := match p with [] => true | u :: p' => pty_ok u && go2 p' end) aa && go x'
         end) segs
  | PTuple xs => (fix go2 (p : list pty) := match p with [] => true | u :: p' => pty_ok u && go2 p' end) xs
  | PArray x _ => pty_ok x
  | PBad => false
  end.

Definition body_fields (b : pbody) : list pfield :=
  match b with BUnit => [] | BTuple fs | BNamed fs => fs end.

Definition item_field_types (i : pitem) : list pty :=
  map pf_ty (body_fields (pi_body i)) ++
  flat_map (fun v => map pf_ty (body_fields (pv_body v))) (pi_variants i).

Definition mentions_name (n : string) (t : pty) : bool :=
  existsb (fun ls : bool * list (string * list pty) => match fst ls, snd ls with false, [(m, [])] => String.eqb n m | _, _ => false end)
          (pty_paths t).

Fixpoint nodup_str (l : list string) : bool :=
  match l with
  | [] => true
  | x :: l' => negb (existsb (String.eqb x) l') && nodup_str l'
  end.

(** ** C02: closedness of the parsed module *)
Definition path_resolves (root : string) (m : pmod) (segs : list (string * list pty)) : bool :=
  match segs with
  | (r0, []) :: rest =>
      if String.eqb r0 root then
        match rest with
        | [] => false
        | _ =>
            let names := map fst rest in
            let inner_args_empty := forallb (fun x => match snd x with [] => true | _ => false end) (removelast rest) in
            let nargs := List.length (snd (last rest ("", []))) in
            match lookup_item m names with
            | Some it => inner_args_empty && Nat.eqb nargs (List.length (pi_generics it))
            | None => false
            end
        end
      else true
  | _ => true
  end.

Fixpoint mods_unique (fuel : nat) (m : pmod) : bool :=
  match fuel with
  | O => false
  | S fuel' =>
      match m with
      | PMod _ _ mods items =>
          let mnames := map (fun c => match c with PMod n _ _ _ => n end) mods in
          let inames := map pi_name items in
          nodup_str mnames && nodup_str inames &&
          forallb (fun n => negb (existsb (String.eqb n) mnames)) inames &&
          forallb (mods_unique fuel') mods
      end
  end.

Fixpoint mod_depth (m : pmod) : nat :=
  match m with
  | PMod _ _ mods _ => S (fold_right (fun c acc => Nat.max (mod_depth c) acc) O mods)
  end.

Definition closedb (root : string) (m : pmod) : bool :=
  let items := all_items m [] in
  forallb (fun pit : list string * pitem => let it := snd pit in
             forallb pty_ok (item_field_types it) &&
             forallb (fun t => forallb (fun ls : bool * list (string * list pty) => if fst ls then true else path_resolves root m (snd ls))
                                       (pty_paths t)) (item_field_types it) &&
             forallb (fun g => existsb (mentions_name g) (item_field_types it)) (pi_generics it) &&
             nodup_str (pi_generics it)) items &&
  mods_unique (S (mod_depth m)) m &&
  match m with PMod n u _ _ => String.eqb n root && String.eqb u root end.

(** every resolved path refers to existing items with the right arity *)
Definition path_closedb (root : string) (m : pmod) (t : pty) : bool :=
  pty_ok t && forallb (fun ls : bool * list (string * list pty) => if fst ls then true else path_resolves root m (snd ls)) (pty_paths t).

(** ** C02: sizedness.  "Every cycle between generated types passes through heap indirection":
    the by-value graph of the parsed module has no cycle.  Item A has an edge to item B when a
    field (struct field or variant field) of A mentions B by value, i.e. not underneath one of the
    alloc-rooted heap types [Vec], [Box], [String], [collections::{BTreeMap, BTreeSet, BinaryHeap,
    VecDeque, LinkedList}].  Tuples, arrays, [Option], [Result], [Range], [RangeInclusive], [Cow]
    (holds [T::Owned] by value) and the configured [Compact<..>] wrapper are transparent;
    [PhantomData] is zero sized (no edge); every other absolute or foreign path (substitutes, the
    bits wrapper, unknown crates) is opaque (no edge).  For a generated generic item [Foo<A, B>] by
    value there is an edge to [Foo], and to what [A] mentions by value iff the first declared
    generic of [Foo] is itself stored by value somewhere in [Foo] ("exposed"; least fixpoint over
    all items, so [Wrapper<T>(Vec<T>)] does not expose [T] and  struct N { kids: Wrapper<N> }  is
    sized, while  struct A<T> { x: T }  struct B { a: A<B> }  is not). *)
Inductive bv_atom := BVParam (n : string) | BVItem (p : list string).

Definition heap_heads : list (list string) :=
  [["vec"; "Vec"]; ["boxed"; "Box"]; ["string"; "String"];
   ["collections"; "BTreeMap"]; ["collections"; "BTreeSet"]; ["collections"; "BinaryHeap"];
   ["collections"; "VecDeque"]; ["collections"; "LinkedList"]].

Fixpoint map_pitems (f : pitem -> pitem) (m : pmod) : pmod :=
  match m with
  | PMod n u mods items =>
      PMod n u ((fix go (ms : list pmod) : list pmod :=
                   match ms with [] => [] | c :: ms' => map_pitems f c :: go ms' end) mods)
           (map f items)
  end.

Section Sized.
  Variable root : string.
  Variable alloc : list string.            (* names of the alloc crate path *)
  Variable compact : option (list string). (* names of the Compact wrapper path *)
  Variable cut_heap : bool.                (* true: heap types cut the graph (the checker); false:
                                              they are transparent as well (hit counter: is there
                                              any recursion at all?) *)
  Variable m : pmod.

  Definition names_eqb : list string -> list string -> bool := list_eqb String.eqb.
  Definition is_heap_head (names : list string) : bool :=
    existsb (fun h => names_eqb names (alloc ++ h)) heap_heads.
  Definition is_transparent_head (names : list string) : bool :=
    existsb (names_eqb names)
            [["core"; "option"; "Option"]; ["core"; "result"; "Result"]; ["core"; "ops"; "Range"];
             ["core"; "ops"; "RangeInclusive"]; alloc ++ ["borrow"; "Cow"]].
  Definition is_compact_head (names : list string) : bool :=
    match compact with Some c => names_eqb names c | None => false end.

  (** [mx]: the module with the names of the NON-exposed generics of every item blanked out
      (positions kept): the exposure table, looked up through the module tree *)
  Fixpoint byval (mx : pmod) (t : pty) : list bv_atom :=
    match t with
    | PPath leading segs =>
        let names := map fst segs in
        let per_seg :=
          (fix go (x : list (string * list pty)) : list (list (list bv_atom)) :=
             match x with
             | [] => []
             | (_, aa) :: x' =>
                 (fix go2 (p : list pty) : list (list bv_atom) :=
                    match p with [] => [] | u :: p' => byval mx u :: go2 p' end) aa :: go x'
             end) segs in
        let last_args := last per_seg [] in
        let all_args := List.concat (List.concat per_seg) in
        if leading then
          if is_heap_head names then (if cut_heap then [] else all_args)
          else if is_transparent_head names then all_args
          else if is_compact_head names then all_args
          else []
        else
          match segs with
          | [(n, [])] => [BVParam n]
          | _ =>
              match names with
              | r0 :: p =>
                  if String.eqb r0 root then
                    match p with
                    | [] => []
                    | _ =>
                        BVItem p ::
                        match lookup_item mx p with
                        | Some it =>
                            List.concat (map (fun ga : string * list bv_atom =>
                                           if String.eqb (fst ga) "" then [] else snd ga)
                                        (combine (pi_generics it) last_args))
                        | None => all_args
                        end
                    end
                  else if is_compact_head names then all_args
                  else []
              | [] => []
              end
          end
    | PTuple xs =>
        (fix go2 (p : list pty) : list bv_atom :=
           match p with [] => [] | u :: p' => byval mx u ++ go2 p' end) xs
    | PArray x _ => byval mx x
    | PBad => []
    end.

  Definition item_atoms (mx : pmod) (it : pitem) : list bv_atom :=
    List.concat (map (byval mx) (item_field_types it)).

  Definition mask_item (mx : pmod) (it : pitem) : pitem :=
    let atoms := item_atoms mx it in
    mk_pitem (pi_attrs it) (pi_is_enum it) (pi_name it)
             (map (fun g => if existsb (fun a => match a with BVParam n => String.eqb n g | BVItem _ => false end) atoms
                            then g else "") (pi_generics it))
             (pi_body it) (pi_variants it) (pi_semi it).

  Definition exposed_count (mx : pmod) : nat :=
    fold_right (fun pit acc => (List.length (filter (fun g => negb (String.eqb g "")) (pi_generics (snd pit))) + acc)%nat)
               O (all_items mx []).

  (** least fixpoint, from "nothing exposed" upwards; every round is computed from the ORIGINAL items *)
  Fixpoint expose (fuel : nat) (mx : pmod) : pmod :=
    match fuel with
    | O => mx
    | S fuel' =>
        let mx' := map_pitems (mask_item mx) m in
        if Nat.eqb (exposed_count mx') (exposed_count mx) then mx else expose fuel' mx'
    end.

  Definition exposure : pmod :=
    let none := map_pitems (fun it => mk_pitem (pi_attrs it) (pi_is_enum it) (pi_name it)
                                               (map (fun _ => "") (pi_generics it))
                                               (pi_body it) (pi_variants it) (pi_semi it)) m in
    expose (S (exposed_count m)) none.

  Definition mem_path (p : list string) (l : list (list string)) : bool := existsb (names_eqb p) l.

  Definition byval_succ (mx : pmod) (p : list string) : list (list string) :=
    match lookup_item m p with
    | Some it => flat_map (fun a => match a with BVItem q => [q] | BVParam _ => [] end) (item_atoms mx it)
    | None => []
    end.

  (** depth-first search with a grey stack and a black list; [None] = a cycle was found (or the fuel
      ran out: the depth never exceeds the number of items) *)
  Fixpoint sized_dfs (fuel : nat) (mx : pmod) (stack done : list (list string)) (v : list string)
    : option (list (list string)) :=
    match fuel with
    | O => None
    | S fuel' =>
        if mem_path v done then Some done
        else if mem_path v stack then None
        else
          match (fix go (ws : list (list string)) (done : list (list string)) : option (list (list string)) :=
                   match ws with
                   | [] => Some done
                   | w :: ws' =>
                       match sized_dfs fuel' mx (v :: stack) done w with
                       | None => None
                       | Some d => go ws' d
                       end
                   end) (byval_succ mx v) done with
          | None => None
          | Some d => Some (v :: d)
          end
    end.

  Definition sizedb : bool :=
    let items := all_items m [] in
    let mx := exposure in
    let fuel := S (S (List.length items)) in
    match fold_left (fun acc pit =>
                       match acc with
                       | None => None
                       | Some done => sized_dfs fuel mx [] done (fst pit)
                       end) items (Some []) with
    | Some _ => true
    | None => false
    end.
End Sized.

(** ** attributes *)
Definition attr_is (name : string) (a : tokens) : bool :=
  match a with n :: _ => String.eqb n name | [] => false end.

Definition has_attr (a : tokens) (attrs : list tokens) : bool :=
  existsb (list_eqb String.eqb a) attrs.

Definition compact_attr_toks : tokens := ["codec"; "("; "compact"; ")"].
Definition skip_attr_toks : tokens := ["codec"; "("; "skip"; ")"].

(** split the inside of [derive( ... )] at top-level commas *)
Fixpoint split_commas (depth : nat) (toks : tokens) (cur : tokens) : list tokens :=
  match toks with
  | [] => match cur with [] => [] | _ => [rev cur] end
  | t :: r =>
      if String.eqb t "," then
        match depth with
        | O => rev cur :: split_commas depth r []
        | _ => split_commas depth r (t :: cur)
        end
      else if String.eqb t "<" || is_open t then split_commas (S depth) r (t :: cur)
      else if String.eqb t ">" || is_close t then split_commas (pred depth) r (t :: cur)
      else split_commas depth r (t :: cur)
  end.

Definition derive_list (attrs : list tokens) : list tokens :=
  flat_map (fun a => match a with
                     | "derive" :: "(" :: r => split_commas 0 (removelast r) []
                     | _ => []
                     end) attrs.

Definition user_attrs (attrs : list tokens) : list tokens :=
  filter (fun a => negb (attr_is "derive" a || attr_is "doc" a)) attrs.

Definition doc_lits (attrs : list tokens) : list string :=
  flat_map (fun a => match a with ["doc"; "="; l] => [l] | _ => [] end) attrs.

(** [quote!(#path).to_string()] recomputed from flattened tokens of a path *)
Fixpoint key_of_tokens (t : tokens) : string :=
  match t with
  | [] => ""
  | ":" :: ":" :: r => match r with
                       | [] => "::"
                       | _ => String.append ":: " (key_of_tokens r)
                       end
  | x :: [] => x
  | x :: r => String.append x (String.append " " (key_of_tokens r))
  end.

(** [quote!(#attr).to_string()] (proc-macro2's fallback printer) recomputed from the flattened tokens
    of a WHOLE attribute [# [ ... ]]: tokens are separated by one space, except after an opening
    [(] / [\[], before a closing [)] / [\]] and inside the joint pair [::].  (Other joint
    punctuation - [->], [=>], lifetimes - is not distinguished by the flattening and would be
    rendered with a space; the attribute pools of the generators contain none.)  This is the sort
    key of derives.rs:236-241. *)
Definition is_close_pb (t : string) : bool := String.eqb t ")" || String.eqb t "]".
Definition is_open_pb (t : string) : bool := String.eqb t "(" || String.eqb t "[".
Fixpoint render_tokens (t : tokens) : string :=
  match t with
  | [] => ""
  | x :: r =>
      match r with
      | [] => x
      | y :: r' =>
          if is_close_pb y then String.append x (render_tokens r)
          else if is_open_pb x then String.append x (render_tokens r)
          else if String.eqb x ":" && String.eqb y ":" then
            match r' with
            | [] => "::"
            | z :: _ => if is_close_pb z then String.append "::" (render_tokens r')
                        else String.append ":: " (render_tokens r')
            end
          else String.append x (String.append " " (render_tokens r))
      end
  end.

Definition attr_sort_key (inner : tokens) : string := render_tokens ("#" :: "[" :: inner ++ ["]"]).

Fixpoint strictly_sorted (l : list string) : bool :=
  match l with
  | a :: ((b :: _) as l') => if str_ltb a b then strictly_sorted l' else false
  | _ => true
  end.

(** ** C01: wire-faithfulness, pair exploration with a visited list *)
Definition prim_name (p : prim) : string :=
  match p with
  | PBool => "bool" | PChar => "char" | PStr => "String" | PU8 => "u8" | PU16 => "u16"
  | PU32 => "u32" | PU64 => "u64" | PU128 => "u128" | PU256 => "u256" | PI8 => "i8"
  | PI16 => "i16" | PI32 => "i32" | PI64 => "i64" | PI128 => "i128" | PI256 => "i256"
  end.

Fixpoint toks_to_segs (t : tokens) : list string :=
  match t with
  | ":" :: ":" :: r => toks_to_segs r
  | x :: r => x :: toks_to_segs r
  | [] => []
  end.

(** does [segs] (names only, with args on the last segment only) spell [prefix ++ names]? *)
Definition path_is (segs : list (string * list pty)) (names : list string) : option (list pty) :=
  if list_eqb String.eqb (map fst segs) names &&
     forallb (fun x => match snd x with [] => true | _ => false end) (removelast segs)
  then Some (snd (last segs ("", [])))
  else None.

Definition heap_prelude : list string :=
  ["BTreeMap"; "BTreeSet"; "BinaryHeap"; "VecDeque"; "LinkedList"].

Record fenv := mk_fenv {
  fe_root : string;
  fe_alloc : list string;          (* alloc crate path, names only, with leading :: *)
  fe_compact : option (list string);
  fe_bits : option (list string);
  fe_subs : substitutes;
  fe_codec : bool }.

Definition is_marker_field (f : pfield) : bool :=
  match pf_ty f with
  | PPath true segs => list_eqb String.eqb (map fst segs) ["core"; "marker"; "PhantomData"]
  | _ => false
  end.

Definition codec_index_of (attrs : list tokens) : option string :=
  (fix go (l : list tokens) :=
     match l with
     | [] => None
     | ["codec"; "("; "index"; "="; k; ")"] :: _ => Some k
     | _ :: l' => go l'
     end) attrs.

(** [Cow] is transparent (one level, as scale-info registers it) *)
Definition uncow (r : registry) (id : N) : N :=
  match resolve r id with
  | Some t =>
      match path_ident (t_path t), t_params t with
      | Some "Cow", p0 :: _ => match tp_ty p0 with Some i => i | None => id end
      | _, _ => id
      end
  | None => id
  end.

Section Faithful.
  Variable r : registry.
  Variable e : fenv.
  Variable m : pmod.
  (** the observed [resolve_type_path] of every id, parsed (closed type expressions) *)
  Variable resolved : N -> option pty.

  Definition visited := list (N * pty).
  Definition seen (v : visited) (id : N) (t : pty) : bool :=
    existsb (fun iu : N * pty => N.eqb (fst iu) id && pty_eqb (snd iu) t) v.

  Definition alloc_path (names : list string) : list string := fe_alloc e ++ names.

  (** compare registry id with a closed parsed type.  Returns the visited list
      or None on a mismatch. *)
  Fixpoint faith (fuel : nat) (id : N) (t : pty) (v : visited) : option visited :=
    match fuel with
    | O => None
    | S fuel' =>
      if seen v id t then Some v
      else
      (* Box / Cow are transparent on the wire: a generated  <alloc>::borrow::Cow<X>  (emitted for a
         Cow nested directly in a Cow) is read as X *)
      match (match t with
             | PPath true segs => match path_is segs (alloc_path ["borrow"; "Cow"]) with
                                  | Some [x] => Some x
                                  | _ => None
                                  end
             | _ => None
             end) with
      | Some x => faith fuel' id x v
      | None =>
      let v := (id, t) :: v in
      match resolve r id with
      | None => None
      | Some ty0 =>
        (* Cow is transparent *)
        let ty1 :=
          match path_ident (t_path ty0) with
          | Some "Cow" =>
              match t_params ty0 with
              | p0 :: _ => match tp_ty p0 with Some i => resolve r i | None => None end
              | [] => None
              end
          | _ => Some ty0
          end in
        match ty1 with
        | None => None
        | Some ty =>
          if (match path_ident (t_path ty0), path_ident (t_path ty) with
              | Some "Cow", Some "Cow" => true
              | _, _ => false
              end)
          then faith fuel' (uncow r id) t v
          else
          let all2 (ids : list N) (ts : list pty) (v : visited) : option visited :=
            (fix go (ids : list N) (ts : list pty) (v : visited) : option visited :=
               match ids, ts with
               | [], [] => Some v
               | i :: ids', u :: ts' =>
                   match faith fuel' i u v with Some v' => go ids' ts' v' | None => None end
               | _, _ => None
               end) ids ts v in
          (* one field list against parsed fields; markers are not on the wire *)
          let fields_ok (fs : list field) (pfs : list pfield) (env : list (string * pty)) (v : visited)
            : option visited :=
            let pfs := filter (fun f => negb (is_marker_field f)) pfs in
            (fix go (fs : list field) (pfs : list pfield) (v : visited) : option visited :=
               match fs, pfs with
               | [], [] => Some v
               | f :: fs', pf :: pfs' =>
                   if negb (option_eqb String.eqb (f_name f) (pf_name pf)) then None
                   else
                     let t := pty_subst env (pf_ty pf) in
                     (* Box at field level; since the F21 repair a COMPACT field is printed without
                        the Box (the marker needs the bare type), so for a field whose registry type
                        is a Compact entry the wrapper may be absent *)
                     let cmp := match resolve r (uncow r (f_ty f)) with
                                | Some fty => match t_def fty with TDCompact _ => true | _ => false end
                                | None => false
                                end in
                     let must_box := if is_boxed_gen f then negb cmp else false in
                     let t_unboxed :=
                       match t with
                       | PPath true segs =>
                           match path_is segs (alloc_path ["boxed"; "Box"]) with
                           | Some [inner] => if is_boxed_gen f then Some inner else None
                           | _ => if must_box then None else Some t
                           end
                       | _ => if must_box then None else Some t
                       end in
                     match t_unboxed with
                     | None => None
                     | Some t' =>
                         let compact_marked := has_attr compact_attr_toks (pf_attrs pf) in
                         let fid := uncow r (f_ty f) in
                         let step :=
                           match resolve r fid with
                           | Some fty =>
                               match t_def fty with
                               | TDCompact inner =>
                                   (* [#[codec(compact)] x: Inner], or (codec attributes off /
                                      parameter-typed) the plain type *)
                                   if compact_marked then faith fuel' inner t' v
                                   else if fe_codec e then faith fuel' fid t' v
                                   else match faith fuel' inner t' v with
                                        | Some v' => Some v'
                                        | None => faith fuel' fid t' v
                                        end
                               | _ => if compact_marked then None else faith fuel' fid t' v
                               end
                           | None => None
                           end in
                         match step with Some v' => go fs' pfs' v' | None => None end
                     end
               | _, _ => None
               end) fs pfs v in
          match t_def ty with
          | TDPrimitive p =>
              match t with
              | PPath true segs =>
                  match p with
                  | PStr => match path_is segs (alloc_path ["string"; "String"]) with Some [] => Some v | _ => None end
                  | _ => match path_is segs ["core"; "primitive"; prim_name p] with Some [] => Some v | _ => None end
                  end
              | _ => None
              end
          | TDSequence el =>
              match t with
              | PPath true segs =>
                  match path_is segs (alloc_path ["vec"; "Vec"]) with
                  | Some [x] => faith fuel' el x v
                  | _ => None
                  end
              | _ => None
              end
          | TDArray len el =>
              match t with
              | PArray x l => if String.eqb l (String.append (N_to_string len) "usize") then faith fuel' el x v else None
              | _ => None
              end
          | TDTuple els => match t with PTuple xs => all2 els xs v | _ => None end
          | TDCompact inner =>
              match t, fe_compact e with
              | PPath _ segs, Some cp =>
                  match path_is segs cp with Some [x] => faith fuel' inner x v | _ => None end
              | _, _ => None
              end
          | TDBitSeq store order =>
              match t, fe_bits e with
              | PPath _ segs, Some bp =>
                  match path_is segs bp with
                  | Some [s; o] => match faith fuel' store s v with
                                   | Some v' => faith fuel' order o v'
                                   | None => None
                                   end
                  | _ => None
                  end
              | _, _ => None
              end
          | TDComposite _ | TDVariant _ =>
              let path := t_path ty in
              match subs_get (fe_subs e) path with
              | Some _ =>
                  (* substituted: an opaque external type.  Wherever it is mentioned, the (closed)
                     type expression must be the path the generator resolves this very id to *)
                  match resolved id with
                  | Some t' => if pty_eqb t t' then Some v else None
                  | None => Some v
                  end
              | None =>
                match path with
                | [] => None
                | [ident] =>
                    (* prelude: path table and generic arguments = non-skipped params *)
                    match t with
                    | PPath true segs =>
                        let expect :=
                          if existsb (String.eqb ident) heap_prelude then Some (alloc_path ["collections"; ident])
                          else if String.eqb ident "Option" then Some ["core"; "option"; "Option"]
                          else if String.eqb ident "Result" then Some ["core"; "result"; "Result"]
                          else if String.eqb ident "Range" then Some ["core"; "ops"; "Range"]
                          else if String.eqb ident "RangeInclusive" then Some ["core"; "ops"; "RangeInclusive"]
                          else if starts_with "NonZero" ident then Some ["core"; "num"; ident]
                          else None in
                        match expect with
                        | Some names =>
                            match path_is segs names with
                            | Some args => all2 (param_ids ty) args v
                            | None => None
                            end
                        | None => None
                        end
                    | _ => None
                    end
                | _ =>
                    match t with
                    | PPath false segs =>
                        match path_is segs (fe_root e :: path) with
                        | Some args =>
                            match lookup_item m path with
                            | None => None
                            | Some it =>
                                if negb (Nat.eqb (List.length args) (List.length (pi_generics it))) then None
                                else
                                  let env := combine (pi_generics it) args in
                                  match t_def ty with
                                  | TDComposite fs =>
                                      if pi_is_enum it then None
                                      else fields_ok fs (body_fields (pi_body it)) env v
                                  | TDVariant vs =>
                                      if negb (pi_is_enum it) then None
                                      else
                                        let pvs := filter (fun pv => negb (String.eqb (pv_name pv) "__Ignore"))
                                                          (pi_variants it) in
                                        (fix go (vs : list variant) (pvs : list pvariant) (v : visited) :=
                                           match vs, pvs with
                                           | [], [] => Some v
                                           | x :: vs', pv :: pvs' =>
                                               if negb (String.eqb (v_name x) (pv_name pv)) then None
                                               else if fe_codec e &&
                                                       negb (option_eqb String.eqb (codec_index_of (pv_attrs pv))
                                                                        (Some (N_to_string (v_index x))))
                                               then None
                                               else match fields_ok (v_fields x) (body_fields (pv_body pv)) env v with
                                                    | Some v' => go vs' pvs' v'
                                                    | None => None
                                                    end
                                           | _, _ => None
                                           end) vs pvs v
                                  | _ => None
                                  end
                            end
                        | None => None
                        end
                    | _ => None
                    end
                end
              end
          end
        end
      end
      end
    end.

  Definition faithful_id (id : N) (t : pty) : bool :=
    match faith (64 + 4 * List.length r) id t [] with Some _ => true | None => false end.
End Faithful.
