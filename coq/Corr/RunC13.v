(** Correspondence and property checkers for C13 (type descriptions).

    [corr_*]  : the model ([Model/Describe.v]) reproduces the observed text.
    [prop_*]  : properties of the OBSERVED texts, decided by code that does not
                use the model: a tokenizer of the text, an independently
                written description *tree* of the registry (the lockstep
                relation as a function, over tokens instead of strings), and a
                reachability closure. *)
From Coq Require Import List NArith String Bool Ascii.
From V Require Import Base.Util Base.Result Base.Strings Model.Registry Model.Format
  Model.Describe Model.DescribeSpec Proofs.FormatProofs.
Import ListNotations.
Open Scope string_scope.

Inductive obs :=
| OOk (s : string)
| ODigest (chars h : N)      (* long texts: number of code points and digest *)
| OErr (msg : string)
| OPanic.

(** a case: a registry and, for some ids, the observed unformatted and
    formatted description *)
Definition case := (registry * list (N * obs * obs))%type.

(** ** correspondence *)
Definition err_msg (e : err) : string :=
  match e with
  | ETypeNotFound id => "Type with id " ++ N_to_string id ++ " not found in registry"
  | EInvalidFields => "combination of named and unnamed fields in compound type"
  | EOutOfFuel => "<out of fuel: unbounded recursion>"
  | _ => "<not an outcome of type_description>"
  end.

Definition digest (l : list N) : N * N :=
  (N.of_nat (List.length l),
   fold_left (fun h c => N.land (h * 33 + c) 4294967295) l 5381)%N.

Definition obs_matches (m : result (list N)) (o : obs) : bool :=
  match m, o with
  | Ok l, OOk s => list_eqb N.eqb l (utf8_decode s)
  | Ok l, ODigest n h => let '(n', h') := digest l in N.eqb n n' && N.eqb h h'
  | Err e, OErr msg => String.eqb (err_msg e) msg
  | Panic _, OPanic => true
  | _, _ => false
  end.

Definition model_unf (r : registry) (nf f : nat) (id : N) : result (list N) :=
  let* d := describe_with r nf f id in Ok (utf8_decode d).
Definition model_fmt (r : registry) (nf f : nat) (id : N) : result (list N) :=
  let* d := describe_with r nf f id in Ok (format_text d).

Definition corr_desc (c : case) : bool :=
  let r := fst c in
  let nf := name_fuel r in let f := desc_fuel r in
  forallb (fun '(id, u, _) => obs_matches (model_unf r nf f id) u) (snd c).

Definition corr_fmt (c : case) : bool :=
  let r := fst c in
  let nf := name_fuel r in let f := desc_fuel r in
  forallb (fun '(id, _, o) => obs_matches (model_fmt r nf f id) o) (snd c).

Definition hyp_wf (c : case) : bool := wf_descb (fst c) && words_okb (fst c).

Definition lockstep_applicable (r : registry) : bool :=
  wf_descb r && words_okb r && paths_only_on_items r.

(** the hypotheses of C13_total + C13_lockstep hold for the registry of the case *)
Definition hyp_lockstep (c : case) : bool := lockstep_applicable (fst c).

Definition expected_atoms (r : registry) (nf f : nat) (id : N) : option (list tok) :=
  option_map (fun x => atoms (fst x)) (spec_tree r nf f ([], []) id).

Definition text_lockstep (expected : option (list tok)) (o : obs) : bool :=
  match o with
  | OOk s =>
      match expected with
      | Some a => list_eqb tok_eqb (tokens s) a
      | None => false
      end
  | ODigest _ _ => true
  | _ => false          (* a well-formed registry and a valid id: must be Ok *)
  end.

Definition prop_lockstep (c : case) : bool :=
  let r := fst c in
  if lockstep_applicable r then
    let nf := S (List.length r) in
    let fu := S (List.length r * S (List.length r)) in
    forallb (fun '(id, u, f) =>
      if (id <? N.of_nat (List.length r))%N then
        match u, f with
        | ODigest _ _, ODigest _ _ => true
        | _, _ => let e := expected_atoms r nf fu id in text_lockstep e u && text_lockstep e f
        end
      else true) (snd c)
  else true.

(** ** whitespace: formatted = unformatted up to spaces and newlines *)
Definition prop_ws (c : case) : bool :=
  forallb (fun '(_, u, f) =>
    match u, f with
    | OOk a, OOk b => list_eqb N.eqb (strip_ws (utf8_decode a)) (strip_ws (utf8_decode b))
    | OOk _, ODigest _ _ | ODigest _ _, OOk _ | ODigest _ _, ODigest _ _ => true
    | OErr a, OErr b => String.eqb a b
    | OPanic, OPanic => true
    | _, _ => false
    end) (snd c).

(** the two observed texts have the same words and punctuation (any registry) *)
Definition prop_fmt_tokens (c : case) : bool :=
  forallb (fun '(_, u, f) =>
    match u, f with
    | OOk a, OOk b => list_eqb ctok_eqb (ctokens (utf8_decode a)) (ctokens (utf8_decode b))
    | _, _ => true
    end) (snd c).

(** ** every reachable struct / enum is written out at least once *)
Fixpoint reach (r : registry) (fuel : nat) (todo : list N) (seen : list N) : list N :=
  match fuel with
  | O => seen
  | S f =>
    match todo with
    | [] => seen
    | i :: todo' =>
        if existsb (N.eqb i) seen then reach r f todo' seen
        else match resolve r i with
             | None => reach r f todo' seen
             | Some t => reach r f (def_ids (t_def t) ++ todo') (i :: seen)
             end
    end
  end.

Definition total_edges (r : registry) : nat :=
  fold_right (fun e acc => List.length (def_ids (t_def (snd e))) + acc)%nat O r.

Definition reachable (r : registry) (id : N) : list N :=
  reach r (S (total_edges r + List.length r)) [id] [].

Fixpoint is_prefix (p l : list tok) : bool :=
  match p, l with
  | [], _ => true
  | x :: p', y :: l' => tok_eqb x y && is_prefix p' l'
  | _, [] => false
  end.
Fixpoint is_infix (p l : list tok) : bool :=
  is_prefix p l || match l with [] => false | _ :: l' => is_infix p l' end.

(** the header of a written-out item and the bracket opening its body *)
Definition item_header (r : registry) (id : N) (t : ty) : option (list (list tok)) :=
  match name_atoms r (S (List.length r)) id with
  | None => None
  | Some nm0 =>
    let nm := if has_path t then nm0 else [] in
    match t_def t with
    | TDComposite [] => Some [W "struct" :: nm ++ [P "("%char; P ")"%char]]
    | TDComposite (f :: _) =>
        Some [W "struct" :: nm ++ [P (match f_name f with Some _ => "{" | None => "(" end)%char]]
    | TDVariant _ => Some [W "enum" :: nm ++ [P "{"%char]]
    | _ => Some []
    end
  end.

Definition text_expanded (r : registry) (id : N) (o : obs) : bool :=
  match o with
  | OOk s =>
      let ts := tokens s in
      forallb (fun i =>
        match resolve r i with
        | None => true
        | Some t =>
            match item_header r i t with
            | None => false
            | Some hs => forallb (fun h => is_infix h ts) hs
            end
        end) (reachable r id)
  | ODigest _ _ => true
  | _ => false
  end.

Definition prop_expanded (c : case) : bool :=
  let r := fst c in
  if lockstep_applicable r then
    forallb (fun '(id, u, f) =>
      if (id <? N.of_nat (List.length r))%N then text_expanded r id u && text_expanded r id f
      else true) (snd c)
  else true.

(** ** hypothesis counters *)
(** some id of the case lies on a cycle of the full type graph *)
Definition hyp_cyclic (c : case) : bool :=
  let r := fst c in
  existsb (fun '(id, _, _) =>
    match resolve r id with
    | None => false
    | Some t => existsb (fun ch => existsb (N.eqb id) (reachable r ch)) (def_ids (t_def t))
    end) (snd c).

Fixpoint count_infix (p l : list tok) : nat :=
  ((if is_prefix p l then 1 else 0) + match l with [] => 0 | _ :: l' => count_infix p l' end)%nat.

(** some item is written out more than once (cache replay of an unnamed id) *)
Definition hyp_replayed (c : case) : bool :=
  let r := fst c in
  lockstep_applicable r &&
  existsb (fun '(id, u, _) =>
    match u with
    | OOk s =>
        let ts := tokens s in
        existsb (fun i =>
          match resolve r i with
          | Some t => match item_header r i t with
                      | Some [h] => Nat.ltb 1 (count_infix h ts) && has_path t
                      | _ => false
                      end
          | None => false
          end) (reachable r id)
    | _ => false
    end) (snd c).

Definition hyp_full_text (c : case) : bool :=
  forallb (fun '(_, u, f) =>
    match u, f with ODigest _ _, _ | _, ODigest _ _ => false | _, _ => true end) (snd c).
