(** C05: the hypotheses of the emission-step theorem [C05_checker_accepts_model]
    (Properties/C05.v) as ONE boolean on a case - a hypothesis hit counter in the sense of
    docs/CONVENTIONS.md ([hyp_*]: counted where TRUE).  Proofs/SourceEmission.v proves
    [hyp_emission_theorem c = true -> corr_gen (c5_tg c) = true -> prop_source_roundtrip c = true]:
    on the cases it holds for, the checker's verdict is a consequence of the model correspondence. *)
From Coq Require Import List NArith String Bool.
From V Require Import Base.Util Base.Strings Base.Result Model.Registry Model.Settings Model.TypePath
  Model.Generate Model.Emit Model.Program Model.ProgramSkel Model.ProgramTeq Model.ProgramEmit Model.Unparse
  Checkers.Parse Checkers.Sem Corr.RunTG Corr.CheckTG Corr.RunC05.
Import ListNotations.
Open Scope string_scope. Open Scope list_scope.

(** the settings substitute the bit-order marker of order [lsb] by [::bits::order::{Lsb0,Msb0}] *)
Definition order_subst_b (s : settings) (lsb : bool) : bool :=
  match order_tp_of s lsb with
  | TPath toks [] => list_eqb String.eqb toks (abs_path ["bits"; "order"; if lsb then "Lsb0" else "Msb0"])
  | _ => false
  end.

Fixpoint paths_nodupb (l : list (list string)) : bool :=
  match l with
  | [] => true
  | p :: l' => negb (existsb (list_eqb String.eqb p) l') && paths_nodupb l'
  end.

(** per definition all of whose recorded instantiations are coincidence-free *)
Definition def_emission_okb (c : c05_case) (k : nat) (sd : sdef) : bool :=
  let defs := pg_defs (c5_prog c) in
  forallb (fun f => no_cow_cow (sf_ty f)) (def_sfields sd) && box_names_okb defs sd &&
  forallb (fun f => apps_okb defs (sf_ty f) && field_conv_okb f) (def_sfields sd) &&
  negb (list_eqb String.eqb (sd_path sd) (order_path_of true)) &&
  negb (list_eqb String.eqb (sd_path sd) (order_path_of false)) &&
  forallb (fun lsb => negb (def_mentions_order sd lsb) || order_subst_b (settings_of (tg_spec (c5_tg c))) lsb)
          [true; false] &&
  existsb (fun o => match o with Some (SApp k' _) => Nat.eqb k' k | _ => false end) (c5_labels c) &&
  forallb (fun o => match o with
                    | Some (SApp k' args) =>
                        if Nat.eqb k' k
                        then existsb (fun args' => src_eqb (SApp k args) (SApp k (map canon args'))) (insts_of c k) &&
                             compact_fields_okb defs sd args
                        else true
                    | _ => true
                    end) (c5_labels c).

(** everything but generation / emission *)
Definition emission_static_okb (c : c05_case) : bool :=
  let defs := pg_defs (c5_prog c) in
  let r := tg_reg (c5_tg c) in
  let s := settings_of (tg_spec (c5_tg c)) in
  registry_ofb defs (c5_labels c) r && prelude_nodocs_b r &&
  forallb (def_okb s) defs && prelude_okb s && order_resolvesb s && render_okb s defs &&
  paths_nodupb (map sd_path defs) &&
  forallb (fun kd : nat * sdef =>
             if cf_def c (fst kd) (snd kd) then def_emission_okb c (fst kd) (snd kd) else true)
          (defs_indexed c).

(** when the model generates and emits: plain items and the static hypotheses; otherwise nothing is
    needed (the checker accepts every case whose observed outcome is not a token stream) *)
Definition hyp_emission_theorem (c : c05_case) : bool :=
  let r := tg_reg (c5_tg c) in
  let s := settings_of (tg_spec (c5_tg c)) in
  match model_items r s with
  | Ok m => match emit_module s m with
            | Ok _ => items_plain s m && emission_static_okb c
            | _ => true
            end
  | _ => true
  end.

(** the same on cases where the model emits a module and at least one definition is
    coincidence-free (the non-trivial instances of the theorem) *)
Definition hyp_emission_theorem_nontrivial (c : c05_case) : bool :=
  hyp_emission_theorem c &&
  is_ok (model_gen (tg_reg (c5_tg c)) (settings_of (tg_spec (c5_tg c)))) &&
  existsb (fun kd : nat * sdef => cf_def c (fst kd) (snd kd)) (defs_indexed c).
