(** C17: the case type of the run and the checkers of the clause
    "descriptions and example validity for retained ids are unchanged".

    A case is a [tg_pair] (Corr/RunTG.v) and, for pairs of kind "retain", the artefacts of the
    description crate for some retained ids: the id in the full registry ([ra_old], registry of
    [tp_a]), the id scale-info's [retain] gave it in the sub-registry ([ra_new], registry of
    [tp_b]), [type_description] on both registries, and per seed [scale_value_from_seed] on both
    registries with the real encode/decode round trips of each value against both registries.

    [corr_*]  : the models (Model/Describe.v, Model/ExampleValue.v on the seed's word stream)
                reproduce the observed artefacts on BOTH registries.
    [prop_*]  : decided on the OBSERVED artefacts only.
    No hypothesis is needed: the description and the example do not look at the settings, and
    they only follow ids reachable from the described id, all of which [retain] keeps.  The only
    id-dependent output is the message of the "type not found" error (compared by kind).

    The pair checkers of Corr/CheckTG.v are lifted unchanged ([c17_*]). *)
From Coq Require Import List NArith String Bool.
From V Require Import Base.Util Base.Result Base.Strings Model.Registry Corr.RunTG Corr.CheckTG.
Require V.Model.Describe V.Model.RngWords V.Model.ExampleValue V.Corr.RunC12 V.Corr.RunC13.
Import ListNotations.
Open Scope string_scope. Open Scope list_scope.

(** observed description (text / digest of a long text / error message / panic) and observed
    example outcome (value / error class / panic): the types of C13 and C12 *)
Definition dobs := V.Corr.RunC13.obs.
Definition DOk (s : string) : dobs := V.Corr.RunC13.OOk s.
Definition DDigest (chars h : N) : dobs := V.Corr.RunC13.ODigest chars h.
Definition DErr (msg : string) : dobs := V.Corr.RunC13.OErr msg.
Definition DPanic : dobs := V.Corr.RunC13.OPanic.

Definition xobs := V.Corr.RunC12.oval.
Definition XvOk (v : V.Model.ExampleValue.value) : xobs := V.Corr.RunC12.OOk v.
Definition XvErr (kind : string) (id : N) : xobs := V.Corr.RunC12.OErr kind id.
Definition XvPanic : xobs := V.Corr.RunC12.OPanic.

Record ex_obs := mk_ex {
  ex_seed : N;                 (* index into [c17_seeds] *)
  ex_a : xobs;                 (* on the full registry at the old id *)
  ex_b : xobs;                 (* on the retained registry at the new id *)
  ex_rt_aa : bool;             (* value of a round-trips (encode_as_type / decode_as_type) against a *)
  ex_rt_bb : bool;
  ex_rt_ab : bool;             (* value of a against b at the new id *)
  ex_rt_ba : bool }.           (* value of b against a at the old id *)

Record retained_art := mk_art {
  ra_old : N;
  ra_new : N;
  ra_desc_a : dobs;
  ra_desc_b : dobs;
  ra_ex : list ex_obs }.

Record c17_case := mk_c17 {
  c17_pair : tg_pair;
  c17_seeds : list (N * list N);        (* seed, first words of its ChaCha8 stream *)
  c17_arts : list retained_art }.       (* [] unless the pair is a "retain" pair *)

Definition reg_a (c : c17_case) : registry := tg_reg (tp_a (c17_pair c)).
Definition reg_b (c : c17_case) : registry := tg_reg (tp_b (c17_pair c)).

(** ** the pair checkers, lifted *)
Definition c17_corr_pair (c : c17_case) : bool := corr_pair (c17_pair c).
Definition c17_prop_same_tokens (c : c17_case) : bool := prop_same_tokens (c17_pair c).
Definition c17_prop_dedup_groups (c : c17_case) : bool := prop_dedup_groups (c17_pair c).
Definition c17_hyp_c17 (c : c17_case) : bool := hyp_c17 (c17_pair c).
Definition c17_hyp_dedup_renames (c : c17_case) : bool := hyp_dedup_renames (c17_pair c).
Definition c17_known_F18 (c : c17_case) : bool := known_F18 (c17_pair c).
Definition c17_known_F18_groups (c : c17_case) : bool := known_F18_groups (c17_pair c).
Definition c17_known_F3_groups (c : c17_case) : bool := known_F3_groups (c17_pair c).
Definition c17_hyp_both_ok (c : c17_case) : bool := hyp_both_ok (c17_pair c).

Definition is_retain (c : c17_case) : bool := String.eqb (tp_kind (c17_pair c)) "retain".

(** a "retain" pair on which [prop_same_tokens] is not skipped by its hypothesis *)
Definition hyp_retain_c17 (c : c17_case) : bool := is_retain c && hyp_c17 (c17_pair c).

(** a "retain" pair whose settings are valid for both registries (the part of [hyp_c17] that is
    specific to restriction; the rest is coincidence-freeness of the two registries) *)
Definition hyp_retain_settings_valid (c : c17_case) : bool :=
  is_retain c && settings_valid (tp_a (c17_pair c)) && settings_valid (tp_b (c17_pair c)).

(** ... and the retained registry generated at least one item that was compared *)
Definition hyp_retain_items (c : c17_case) : bool :=
  hyp_retain_c17 c && hyp_both_ok (c17_pair c) &&
  match items_of (tp_b (c17_pair c)) with Some (_ :: _) => true | _ => false end.

(** ** correspondence: both models against both observations *)
Definition corr_describe_retained (c : c17_case) : bool :=
  let ra := reg_a c in let rb := reg_b c in
  let nfa := V.Model.Describe.name_fuel ra in let fa := V.Model.Describe.desc_fuel ra in
  let nfb := V.Model.Describe.name_fuel rb in let fb := V.Model.Describe.desc_fuel rb in
  forallb (fun a =>
             V.Corr.RunC13.obs_matches (V.Corr.RunC13.model_unf ra nfa fa (ra_old a)) (ra_desc_a a) &&
             V.Corr.RunC13.obs_matches (V.Corr.RunC13.model_unf rb nfb fb (ra_new a)) (ra_desc_b a))
          (c17_arts c).

Definition words_of (c : c17_case) (k : N) : option (list N) :=
  option_map snd (nth_error (c17_seeds c) (N.to_nat k)).

Definition corr_example_retained (c : c17_case) : bool :=
  let ra := reg_a c in let rb := reg_b c in
  forallb (fun a =>
             forallb (fun e =>
                        match words_of c (ex_seed e) with
                        | None => false
                        | Some ws =>
                            V.Corr.RunC12.outcome_matches (V.Model.ExampleValue.example_value ra (ra_old a) ws) (ex_a e) &&
                            V.Corr.RunC12.outcome_matches (V.Model.ExampleValue.example_value rb (ra_new a) ws) (ex_b e)
                        end) (ra_ex a))
          (c17_arts c).

(** ** the property on the observed artefacts *)

(** the only message of [type_description] that contains an id *)
Definition derr_kind (msg : string) : string :=
  if prefix "Type with id " msg then "TypeNotFound" else msg.

Definition desc_same (a b : dobs) : bool :=
  match a, b with
  | V.Corr.RunC13.OOk x, V.Corr.RunC13.OOk y => String.eqb x y
  | V.Corr.RunC13.ODigest n h, V.Corr.RunC13.ODigest n' h' => N.eqb n n' && N.eqb h h'
  | V.Corr.RunC13.OErr x, V.Corr.RunC13.OErr y => String.eqb (derr_kind x) (derr_kind y)
  | V.Corr.RunC13.OPanic, V.Corr.RunC13.OPanic => true
  | _, _ => false
  end.

(** the two descriptions are the same text (or the same error kind / both panic) *)
Definition prop_describe_retained (c : c17_case) : bool :=
  forallb (fun a => desc_same (ra_desc_a a) (ra_desc_b a)) (c17_arts c).

Definition ex_same (a b : xobs) : bool :=
  match a, b with
  | V.Corr.RunC12.OOk v, V.Corr.RunC12.OOk v' => V.Model.ExampleValue.value_eqb v v'
  | V.Corr.RunC12.OErr k _, V.Corr.RunC12.OErr k' _ => String.eqb k k'     (* the id of the message is registry-specific *)
  | V.Corr.RunC12.OPanic, V.Corr.RunC12.OPanic => true
  | _, _ => false
  end.

(** a value has the same typing verdict at the old id of the full registry and at the new id of
    the retained one *)
Definition typed_alike (ra rb : registry) (old new : N) (o : xobs) : bool :=
  match o with
  | V.Corr.RunC12.OOk v =>
      Bool.eqb (V.Model.ExampleValue.has_typeb ra old v) (V.Model.ExampleValue.has_typeb rb new v)
  | _ => true
  end.

(** same seed: equal outcomes; each value is typed by the other registry iff it is typed by its own
    (the typing relation of C12, decided by [has_typeb]), and the real codec accepts it against the
    other registry iff it does against its own *)
Definition prop_example_retained (c : c17_case) : bool :=
  let ra := reg_a c in let rb := reg_b c in
  forallb (fun a =>
             forallb (fun e =>
                        ex_same (ex_a e) (ex_b e) &&
                        typed_alike ra rb (ra_old a) (ra_new a) (ex_a e) &&
                        typed_alike ra rb (ra_old a) (ra_new a) (ex_b e) &&
                        Bool.eqb (ex_rt_aa e) (ex_rt_ab e) &&
                        Bool.eqb (ex_rt_bb e) (ex_rt_ba e)) (ra_ex a))
          (c17_arts c).

(** ** hit counters *)
Definition desc_ok (o : dobs) : bool :=
  match o with V.Corr.RunC13.OOk _ | V.Corr.RunC13.ODigest _ _ => true | _ => false end.

(** at least one retained id whose description is Ok on the full registry *)
Definition hyp_retained_arts (c : c17_case) : bool :=
  existsb (fun a => desc_ok (ra_desc_a a)) (c17_arts c).

(** at least one example value that both registries type (so that "unchanged" is not "both rejected") *)
Definition hyp_retained_examples (c : c17_case) : bool :=
  let ra := reg_a c in let rb := reg_b c in
  existsb (fun a =>
             existsb (fun e =>
                        match ex_a e with
                        | V.Corr.RunC12.OOk v =>
                            V.Model.ExampleValue.has_typeb ra (ra_old a) v && V.Model.ExampleValue.has_typeb rb (ra_new a) v
                        | _ => false
                        end) (ra_ex a))
          (c17_arts c).
