(** Correspondence and property checkers for C14 (example Rust expressions).

    [conformsb] is an INDEPENDENT reader: it walks the OBSERVED expression
    tokens in lockstep with the registry and with the OBSERVED generated module
    (parsed with [Checkers/Parse.v]); it shares no code with
    [Model/ExampleRust.v], [Model/Emit.v] or [Model/TypePath.v].  The one definition it takes
    from the specification file [Model/Conforms.v] is [copy_tyb] ("the generated type is Copy",
    a predicate on the registry alone), used to refuse the array repeat form [[ e ; n ]], n >= 2,
    for an element type that is not [Copy]. *)
From Coq Require Import List NArith ZArith Bool String Ascii.
From V Require Import Base.Util Base.Strings Base.Result Model.Registry Model.Settings Model.Subst
  Model.Builders Model.RngWords Model.Generate Model.ExampleRust Model.Conforms Checkers.Parse Corr.RunTG.
Import ListNotations.
Open Scope string_scope. Open Scope list_scope. Open Scope N_scope.

(** one observation of [example_from_seed(id, ..)] *)
Record eobs := mk_eobs {
  eo_id : N;
  eo_out : obs tokens;   (* Ok flattened tokens | error class | panic *)
  eo_syn : bool;         (* syn::parse2::<syn::Expr> accepted it (true for non-Ok outcomes) *)
  eo_det : bool }.       (* the same call repeated in-process gave an equal outcome *)

(** one seed: the first words of its ChaCha8 stream and the observations made with it *)
Record erun := mk_erun { er_seed : N; er_words : list N; er_obs : list eobs }.

Record case := mk_case {
  c_tag : string;
  c_reg : registry;
  c_spec : sspec;
  c_outs : list (option suberr);   (* outcomes of the settings-builder calls *)
  c_gen : obs tokens;              (* observed generate_types_mod *)
  c_paths : list (obs tokens);     (* observed resolve_type_path, by position *)
  c_runs : list erun }.

(** ** correspondence *)
Definition obs_of_x (x : xres tokens) : obs tokens :=
  match x with
  | XOk t => OOk t
  | XPanic _ => OPanic
  | XErr (XRecursive _) => OErr "Recursive" [] ""
  | XErr XEmptyEnum => OErr "EmptyEnum" [] ""
  | XErr XMixedFields => OErr "MixedFields" [] ""
  | XErr (XNotFound i) => OErr "NotFound" [i] ""
  | XErr (XTypegen e) => obs_of (@Err tokens e)
  | XErr XOutOfWords => OErr "OutOfWords" [] ""
  | XErr XOutOfFuel => OErr "OutOfFuel" [] ""
  end.

Definition for_obs (f : erun -> eobs -> bool) (c : case) : bool :=
  forallb (fun ru => forallb (f ru) (er_obs ru)) (c_runs c).
Definition ex_obs (f : erun -> eobs -> bool) (c : case) : bool :=
  existsb (fun ru => existsb (f ru) (er_obs ru)) (c_runs c).

(** the model on the supplied words = the observed tokens / the same error class *)
Definition corr_example (c : case) : bool :=
  let s := settings_of (c_spec c) in
  for_obs (fun ru o =>
    obs_eqb tokens_eqb (obs_of_x (example_rust (c_reg c) s (eo_id o) (er_words ru))) (eo_out o)) c.

Definition corr_settings (c : case) : bool :=
  list_eqb (option_eqb suberr_eqb) (snd (run_ops (ss_ops (c_spec c)))) (c_outs c).

(** ** the independent reader *)
Definition toks := list string.

Definition expect (x : string) (ts : toks) : option toks :=
  match ts with t :: rest => if String.eqb t x then Some rest else None | [] => None end.

Fixpoint expects (xs : list string) (ts : toks) : option toks :=
  match xs with
  | [] => Some ts
  | x :: xs' => match expect x ts with Some rest => expects xs' rest | None => None end
  end.

Definition obind {A B} (x : option A) (f : A -> option B) : option B :=
  match x with Some a => f a | None => None end.
Notation "'let?' x ':=' c1 'in' c2" := (obind c1 (fun x => c2))
  (at level 61, x pattern, c1 at next level, right associativity).

(** *** literals *)
Fixpoint string_rev_go (s acc : string) : string :=
  match s with EmptyString => acc | String c s' => string_rev_go s' (String c acc) end.
Definition string_rev (s : string) : string := string_rev_go s EmptyString.

(** [strip_suffix suf s]: the part of [s] before [suf] *)
Definition strip_suffix (suf s : string) : option string :=
  (fix go (a b : string) : option string :=
     match a with
     | EmptyString => Some (string_rev b)
     | String x a' => match b with
                      | String y b' => if Ascii.eqb x y then go a' b' else None
                      | EmptyString => None
                      end
     end) (string_rev suf) (string_rev s).

Fixpoint digits_value (s : string) (acc : N) : option N :=
  match s with
  | EmptyString => Some acc
  | String c s' => if is_digit c then digits_value s' (acc * 10 + (N_of_ascii c - 48)) else None
  end.
Definition decimal (s : string) : option N :=
  match s with EmptyString => None | _ => digits_value s 0 end.

(** an unsigned literal of [bits] bits with the suffix of its type, in range *)
Definition lit_unsigned (suffix : string) (bits : N) (t : string) : bool :=
  match strip_suffix suffix t with
  | Some d => match decimal d with Some n => n <? 2 ^ bits | None => false end
  | None => false
  end.
(** the magnitude of a signed literal: digits and the suffix, at most [bound] *)
Definition lit_magnitude (suffix : string) (bound : N) (t : string) : bool :=
  match strip_suffix suffix t with
  | Some d => match decimal d with Some n => n <=? bound | None => false end
  | None => false
  end.

Definition quoted (q : ascii) (t : string) : bool :=
  match t with
  | String a rest =>
      Ascii.eqb a q &&
      match string_rev rest with String b (String _ _) => Ascii.eqb b q | _ => false end
  | EmptyString => false
  end.

(** a list of exactly [n] expressions read by [rd], separated by commas *)
Fixpoint read_n_sep (rd : toks -> option toks) (n : nat) (ts : toks) : option toks :=
  match n with
  | O => Some ts
  | S O => rd ts
  | S n' => let? r1 := rd ts in let? r2 := expect "," r1 in read_n_sep rd n' r2
  end.

Definition read_prim (p : prim) (ts : toks) : option toks :=
  let one (ok : string -> bool) :=
    match ts with t :: rest => if ok t then Some rest else None | [] => None end in
  let bytes32 :=
    let? r1 := expect "[" ts in
    let? r2 := read_n_sep (fun x => match x with t :: rest => if lit_unsigned "u8" 8 t then Some rest else None | [] => None end) 32 r1 in
    expect "]" r2 in
  (* a signed literal: an optional '-' token, then digits with the suffix; in range *)
  let signed (suffix : string) (bits : N) :=
    match ts with
    | "-" :: t :: rest => if lit_magnitude suffix (2 ^ (bits - 1)) t then Some rest else None
    | t :: rest => if lit_magnitude suffix (2 ^ (bits - 1) - 1) t then Some rest else None
    | [] => None
    end in
  match p with
  | PBool => one (fun t => String.eqb t "true" || String.eqb t "false")
  | PChar => one (quoted "'")
  | PStr => let? r1 := one (quoted """") in expects ["."; "into"; "("; ")"] r1
  | PU8 => one (lit_unsigned "u8" 8) | PU16 => one (lit_unsigned "u16" 16)
  | PU32 => one (lit_unsigned "u32" 32) | PU64 => one (lit_unsigned "u64" 64)
  | PU128 => one (lit_unsigned "u128" 128)
  | PI8 => signed "i8" 8 | PI16 => signed "i16" 16
  | PI32 => signed "i32" 32 | PI64 => signed "i64" 64
  | PI128 => signed "i128" 128
  | PU256 | PI256 => bytes32
  end.

(** *** paths *)
(** the generated path without generics: everything before the first
    top-level '<' (a '<' inside a bracketed group is not top level) *)
Fixpoint before_generics (depth : nat) (ts : toks) : toks :=
  match ts with
  | [] => []
  | t :: rest =>
      if is_open t then t :: before_generics (S depth) rest
      else if is_close t then t :: before_generics (Nat.pred depth) rest
      else match depth with
           | O => if String.eqb t "<" then [] else t :: before_generics depth rest
           | _ => t :: before_generics depth rest
           end
  end.

(** [a :: b :: C] -> Some (false, [a; b; C]);  [:: a :: C] -> Some (true, ..) *)
Fixpoint rel_segments (ts : toks) : option (list string) :=
  match ts with
  | [x] => if is_punct x then None else Some [x]
  | x :: ":" :: ":" :: rest =>
      if is_punct x then None else match rel_segments rest with Some l => Some (x :: l) | None => None end
  | _ => None
  end.

Definition is_marker_ty (t : pty) : bool :=
  match t with
  | PPath _ segs => match rev segs with (n, _) :: _ => String.eqb n "PhantomData" | [] => false end
  | _ => false
  end.

Definition read_marker (ts : toks) : option toks :=
  match expects [":"; ":"; "core"; ":"; ":"; "marker"; ":"; ":"; "PhantomData"] ts with
  | Some r => Some r
  | None => expect "PhantomData" ts
  end.

(** *** field lists *)
Inductive slot :=
| SField (name : option string) (f : field)
| SMarker (named : bool).

Definition field_explicit_compact (f : field) : bool :=
  match f_type_name f with Some n => starts_with "Compact<" n | None => false end.

(** slots of an item body read in lockstep with the registry fields: every
    non-marker field of the item consumes the next registry field (same name);
    all registry fields must be consumed *)
Fixpoint slots_of_item (named : bool) (pfs : list pfield) (fs : list field) : option (list slot) :=
  match pfs with
  | [] => match fs with [] => Some [] | _ => None end
  | pf :: pfs' =>
      let is_marker :=
        if named then match pf_name pf with Some n => String.eqb n "__ignore" | None => false end
        else is_marker_ty (pf_ty pf) in
      if is_marker then
        match slots_of_item named pfs' fs with Some l => Some (SMarker named :: l) | None => None end
      else
        match fs with
        | f :: fs' =>
            if option_eqb String.eqb (pf_name pf) (f_name f)
            then match slots_of_item named pfs' fs' with
                 | Some l => Some (SField (pf_name pf) f :: l)
                 | None => None
                 end
            else None
        | [] => None
        end
  end.

Inductive shape := ShUnit | ShTuple (l : list slot) | ShNamed (l : list slot).

Definition shape_of_item (b : pbody) (fs : list field) : option shape :=
  match b with
  | BUnit => match fs with [] => Some ShUnit | _ => None end
  | BTuple pfs => match slots_of_item false pfs fs with Some l => Some (ShTuple l) | None => None end
  | BNamed pfs => match slots_of_item true pfs fs with Some l => Some (ShNamed l) | None => None end
  end.

(** no generated item (prelude / substituted path): the form the registry definition dictates *)
Definition shape_of_registry (fs : list field) : option shape :=
  match fs with
  | [] => Some ShUnit
  | _ =>
      if all_named fs then Some (ShNamed (map (fun f => SField (f_name f) f) fs))
      else if all_unnamed fs then Some (ShTuple (map (fun f => SField None f) fs))
      else None
  end.

Section Reader.
  Variable r : registry.
  Variable root : string.
  Variable pm : option pmod.          (* the parsed OBSERVED module *)
  Variable paths : list (obs tokens). (* the OBSERVED resolve_type_path of every id *)

  Definition observed_path (id : N) : option toks :=
    if id <? N.of_nat (List.length paths) then
      match nth_error paths (N.to_nat id) with
      | Some (OOk t) => Some (before_generics 0 t)
      | _ => None
      end
    else None.

  (** the generated item a literal path points to: [root :: a :: B] -> item [a; B] of the module *)
  Definition item_of_path (p : toks) : option (option pitem) :=
    match rel_segments p with
    | Some (x :: rest) =>
        if String.eqb x root then
          match pm, rest with
          | Some m, _ :: _ => match lookup_item m rest with
                              | Some it => Some (Some it)
                              | None => None        (* a path under the root must name a generated item *)
                              end
          | _, _ => None
          end
        else Some None
    | _ => Some None                                (* absolute / foreign path: no generated item *)
    end.

  (** follow compact wrappers (transparent in expressions) *)
  Fixpoint strip_compact (fuel : nat) (id : N) : option (N * ty) :=
    match fuel with
    | O => None
    | S fuel' =>
        match lookup r id with
        | None => None
        | Some t => match t_def t with
                    | TDCompact e => strip_compact fuel' e
                    | _ => Some (id, t)
                    end
        end
    end.

  Section Slots.
    Variable C : N -> toks -> option toks.

    Definition read_slot (sl : slot) (ts : toks) : option toks :=
      match sl with
      | SMarker named =>
          let? r1 := (if named then expects ["__ignore"; ":"] ts else Some ts) in read_marker r1
      | SField name f =>
          let? r1 := match name with Some n => expects [n; ":"] ts | None => Some ts end in
          if field_explicit_compact f
          then let? r2 := expects ["Compact"; "("] r1 in let? r3 := C (f_ty f) r2 in expect ")" r3
          else C (f_ty f) r1
      end.

    (** comma separated; the comma after the last slot is optional *)
    Fixpoint read_slots (sls : list slot) (ts : toks) : option toks :=
      match sls with
      | [] => Some ts
      | sl :: rest =>
          let? r1 := read_slot sl ts in
          match rest with
          | [] => Some (match r1 with "," :: r2 => r2 | _ => r1 end)
          | _ => let? r2 := expect "," r1 in read_slots rest r2
          end
      end.

    Definition read_shape (sh : shape) (ts : toks) : option toks :=
      match sh with
      | ShUnit => Some ts
      | ShTuple l => let? r1 := expect "(" ts in let? r2 := read_slots l r1 in expect ")" r2
      | ShNamed l => let? r1 := expect "{" ts in let? r2 := read_slots l r1 in expect "}" r2
      end.

    (** without a generated item an unused-parameter marker may or may not be written *)
    Definition read_registry_shape (fs : list field) (ts : toks) : option toks :=
      match shape_of_registry fs with
      | None => None
      | Some sh =>
          match (match sh, ts with ShUnit, "(" :: _ => None | _, _ => read_shape sh ts end) with
          | Some rest => Some rest
          | None =>
              match sh with
              | ShUnit => read_shape (ShTuple [SMarker false]) ts
              | ShTuple l => read_shape (ShTuple (l ++ [SMarker false])) ts
              | ShNamed l => read_shape (ShNamed (l ++ [SMarker true])) ts
              end
          end
      end.

    (** tuple: every element followed by a comma; the last comma may be dropped unless the arity is 1 *)
    Fixpoint read_tuple (ids : list N) (arity1 : bool) (ts : toks) : option toks :=
      match ids with
      | [] => Some ts
      | i :: rest =>
          let? r1 := C i ts in
          match rest with
          | [] => if arity1 then expect "," r1 else Some (match r1 with "," :: r2 => r2 | _ => r1 end)
          | _ => let? r2 := expect "," r1 in read_tuple rest arity1 r2
          end
      end.

    (** [e, e, ...] up to the closing bracket: returns (count, rest after the bracket) *)
    Fixpoint read_elems (fuel : nat) (e : N) (ts : toks) (n : N) : option (N * toks) :=
      match fuel with
      | O => None
      | S fuel' =>
          match ts with
          | "]" :: rest => Some (n, rest)
          | _ =>
              let? r1 := C e ts in
              match r1 with
              | "," :: r2 => read_elems fuel' e r2 (n + 1)
              | "]" :: rest => Some (n + 1, rest)
              | _ => None
              end
          end
      end.
  End Slots.

  Fixpoint conf (fuel : nat) (id0 : N) (ts : toks) : option toks :=
    match fuel with
    | O => None
    | S fuel' =>
        match strip_compact (S (List.length r)) id0 with
        | None => None
        | Some (id, t) =>
            let C := conf fuel' in
            match t_def t with
            | TDPrimitive p => read_prim p ts
            | TDCompact _ => None
            | TDBitSeq _ _ =>
                (* outside the property's quantifier: the fixed expression of the implementation *)
                let? r1 := expects ["subxt"; ":"; ":"; "utils"; ":"; ":"; "bits"; ":"; ":"; "DecodedBits"; ":"; ":"; "from_iter"; "("; "["] ts in
                let? r2 := read_n_sep (fun x => match x with t :: rest => if String.eqb t "true" || String.eqb t "false" then Some rest else None | [] => None end) 3 r1 in
                expects ["]"; ")"] r2
            | TDSequence e =>
                let? r1 := expects ["vec"; "!"; "["] ts in
                let? nr := read_elems C (S (List.length r1)) e r1 0 in
                Some (snd nr)
            | TDArray len e =>
                let? r1 := expect "[" ts in
                match r1 with
                | "]" :: rest => if len =? 0 then Some rest else None
                | _ =>
                    let? r2 := C e r1 in
                    match r2 with
                    | ";" :: n :: "]" :: rest =>
                        (* [e; n]: n = the declared length; a repeat expression of length >= 2
                           is a value of the array type only if the element type is [Copy]
                           ([Model.Conforms.copy_ty], a predicate on the registry: primitives
                           other than str, arrays / tuples / compacts of such; never a generated
                           struct / enum, a Vec or a bit sequence) *)
                        let ok := match strip_suffix "usize" n with
                                  | Some d => option_eqb N.eqb (decimal d) (Some len)
                                  | None => option_eqb N.eqb (decimal n) (Some len)
                                  end in
                        if ok && ((len <=? 1) || copy_tyb r e) then Some rest else None
                    | "," :: r3 =>
                        let? nr := read_elems C (S (List.length r3)) e r3 1 in
                        if fst nr =? len then Some (snd nr) else None
                    | "]" :: rest => if len =? 1 then Some rest else None
                    | _ => None
                    end
                end
            | TDTuple ids =>
                let? r1 := expect "(" ts in
                let? r2 := read_tuple C ids (match ids with [_] => true | _ => false end) r1 in
                expect ")" r2
            | TDComposite fs =>
              (* [Cow<T>] has no generated item: it is exemplified as an example of [T] *)
              match (match path_ident (t_path t), t_params t with
                     | Some "Cow", p0 :: _ => tp_ty p0
                     | _, _ => None
                     end) with
              | Some inner => C inner ts
              | None =>
                let? p := observed_path id in
                let? r1 := expects p ts in
                match p with [] => None | _ =>
                  match item_of_path p with
                  | None => None
                  | Some (Some it) =>
                      if pi_is_enum it then None
                      else let? sh := shape_of_item (pi_body it) fs in read_shape C sh r1
                  | Some None => read_registry_shape C fs r1
                  end
                end
              end
            | TDVariant vs =>
                (* [Option::None] may be written [None] *)
                match ts, t_path t with
                | "None" :: rest, ["Option"] =>
                    if existsb (fun v => String.eqb (v_name v) "None" && match v_fields v with [] => true | _ => false end) vs
                    then Some rest else None
                | _, _ =>
                    let? p := observed_path id in
                    let? r1 := expects p ts in
                    match p, r1 with
                    | _ :: _, ":" :: ":" :: vn :: r2 =>
                        match find (fun v => String.eqb (v_name v) vn) vs with
                        | None => None                 (* not a variant of this enum *)
                        | Some v =>
                            match item_of_path p with
                            | None => None
                            | Some (Some it) =>
                                if pi_is_enum it then
                                  match find (fun pv => String.eqb (pv_name pv) vn) (pi_variants it) with
                                  | Some pv => let? sh := shape_of_item (pv_body pv) (v_fields v) in read_shape C sh r2
                                  | None => None
                                  end
                                else None
                            | Some None => read_registry_shape C (v_fields v) r2
                            end
                        end
                    | _, _ => None
                    end
                end
            end
        end
    end.

  (** the whole token list is one expression of type [id] *)
  Definition conformsb (id : N) (ts : toks) : bool :=
    match conf (S (List.length ts)) id ts with
    | Some [] => true
    | _ => false
    end.
End Reader.

Definition idents_ok (r : registry) : bool :=
  forallb (fun e =>
    forallb ident_okb (t_path (snd e)) &&
    match t_def (snd e) with
    | TDComposite fs => forallb (fun f => match f_name f with Some n => ident_okb n | None => true end) fs
    | TDVariant vs =>
        forallb (fun v => ident_okb (v_name v) &&
                          forallb (fun f => match f_name f with Some n => ident_okb n | None => true end) (v_fields v)) vs
    | _ => true
    end) r.

(** the observed module, parsed; [None] when generation failed *)
Definition parsed_module (c : case) : option (option pmod) :=
  match c_gen c with
  | OOk t => Some (parse_module t)
  | _ => None
  end.

(** applies when the module was generated: it must parse, and every Ok example must conform *)
Definition prop_conforms (c : case) : bool :=
  match parsed_module c with
  | None => true
  | Some None => false
  | Some (Some m) =>
      (* [lookup_item] is relative to the root module *)
      for_obs (fun _ o =>
        match eo_out o with
        | OOk t => conformsb (c_reg c) (ss_root (c_spec c)) (Some m) (c_paths c) (eo_id o) t
        | _ => true
        end) c
  end.

(** ** the relation of the theorem [C14_conforms] vs the independent reader.
    [Model.Conforms.conforms_irb] reads an expression in lockstep with the registry and the MODEL's
    generated items ([model_items] = [generate]); it is sound for the inductive relation
    [Model.Conforms.conforms] (Proofs/ConformsProofs.v, [conforms_irb_sound]) which the model's
    examples are PROVED to satisfy.  On every OBSERVED Ok example its verdict must coincide with
    the verdict of the independent reader [conformsb] (observed tokens, parsed observed module).
    Applies when the module was generated, parses, and the model generates too. *)
Definition irb_vs_reader (f : bool -> bool -> bool) (dflt : bool) (c : case) : bool :=
  match parsed_module c with
  | Some (Some pm) =>
      let s := settings_of (c_spec c) in
      match model_items (c_reg c) s with
      | Ok m =>
          for_obs (fun _ o =>
            match eo_out o with
            | OOk t => f (conforms_irb (c_reg c) s m (eo_id o) t)
                         (conformsb (c_reg c) (ss_root (c_spec c)) (Some pm) (c_paths c) (eo_id o) t)
            | _ => true
            end) c
      | _ => dflt
      end
  | _ => dflt
  end.

Definition corr_conforms_agree : case -> bool := irb_vs_reader Bool.eqb true.

(** (registries whose names are not identifiers -- e.g. a variant called [struct] --
    are outside the property's quantifier) *)
Definition prop_parses (c : case) : bool :=
  if idents_ok (c_reg c)
  then for_obs (fun _ o => match eo_out o with OOk _ => eo_syn o | _ => true end) c
  else true.

Definition prop_deterministic : case -> bool := for_obs (fun _ o => eo_det o).

(** ** the input class of the totality clause, as booleans on the data *)
Definition no_bits_256 (r : registry) : bool :=
  forallb (fun e => match t_def (snd e) with
                    | TDBitSeq _ _ | TDPrimitive PU256 | TDPrimitive PI256 => false
                    | _ => true
                    end) r.

(** clause 4 of DESIGN 3.1 (paths): composites / variants have >= 2 segments or a prelude name *)
Definition paths_ok (r : registry) : bool :=
  forallb (fun e =>
    match t_def (snd e), t_path (snd e) with
    | (TDComposite _ | TDVariant _), [n] =>
        existsb (String.eqb n) ["Option"; "Result"; "BTreeMap"; "BTreeSet"; "BinaryHeap"; "VecDeque"; "LinkedList"; "Range"; "RangeInclusive"]
    | (TDComposite _ | TDVariant _), [] => false
    | (TDComposite _ | TDVariant _), _ => true
    | _, _ => true
    end) r.

(** edges the implementation follows WITHOUT the in-progress marker: type
    parameters and element / tuple / compact edges *)
Definition nf_children (t : ty) : list N :=
  param_ids t ++
  match t_def t with
  | TDSequence e | TDArray _ e | TDCompact e => [e]
  | TDTuple ts => ts
  | _ => []
  end.

(** longest-path ranks by iteration (fuel rounds) *)
Definition rank_round (r : registry) (rk : list nat) : list nat :=
  map (fun e => fold_right (fun j acc => Nat.max (S (nth (N.to_nat j) rk 0%nat)) acc) 0%nat (nf_children (snd e))) r.

Definition ranks (r : registry) : list nat :=
  Nat.iter (S (List.length r)) (rank_round r) (map (fun _ => 0%nat) r).

Definition rankedb (r : registry) (rk : list nat) : bool :=
  (Nat.eqb (List.length rk) (List.length r)) &&
  forallb (fun ie =>
    let i := fst ie in let t := snd (snd ie) in
    Nat.leb (nth i rk 0%nat) (List.length r) &&
    forallb (fun j => Nat.ltb (nth (N.to_nat j) rk 0%nat) (nth i rk 0%nat)) (nf_children t))
    (combine (seq 0 (List.length r)) r).

Definition in_class (r : registry) : bool :=
  no_bits_256 r && closed_reg r && ids_consistent r && idents_ok r && paths_ok r &&
  rankedb r (ranks r).

Definition small (c : case) : bool := N.of_nat (List.length (c_reg c)) <=? 64.

(** in the class: never a panic (recursion, empty enums, mixed fields and resolver errors are errors) *)
Definition prop_no_panic_in_class (c : case) : bool :=
  if small c && in_class (c_reg c)
  then for_obs (fun _ o => match eo_out o with OPanic => false | _ => true end) c
  else true.

(** in the class the MODEL returns Ok or Err (what C14_total states), evaluated *)
Definition prop_total_in_class (c : case) : bool :=
  if small c && in_class (c_reg c)
  then let s := settings_of (c_spec c) in
       for_obs (fun ru o =>
         match example_rust (c_reg c) s (eo_id o) (er_words ru) with
         | XPanic _ | XErr XOutOfFuel => false
         | _ => true
         end) c
  else true.

(** ** hypothesis hit counters *)
Definition hyp_ok : case -> bool := ex_obs (fun _ o => match eo_out o with OOk _ => true | _ => false end).
Definition hyp_err : case -> bool := ex_obs (fun _ o => match eo_out o with OErr _ _ _ => true | _ => false end).
Definition hyp_panic : case -> bool := ex_obs (fun _ o => match eo_out o with OPanic => true | _ => false end).
Definition hyp_recursive : case -> bool :=
  ex_obs (fun _ o => match eo_out o with OErr k _ _ => String.eqb k "Recursive" | _ => false end).
Definition hyp_marker : case -> bool :=
  ex_obs (fun _ o => match eo_out o with OOk t => existsb (String.eqb "PhantomData") t | _ => false end).
Definition hyp_compact_wrapped : case -> bool :=
  ex_obs (fun _ o => match eo_out o with OOk t => existsb (String.eqb "Compact") t | _ => false end).
(** the side condition of the array repeat form is exercised: some Ok example of an ARRAY entry
    with >= 2 elements whose element type is not [copy_tyb] (the reader refuses the repeat form
    there), resp. is [copy_tyb] and the example ends in [; <n> ]] *)
Definition array_obs (want_copy : bool) (c : case) : bool :=
  ex_obs (fun _ o =>
    match eo_out o with
    | OOk t =>
        match lookup (c_reg c) (eo_id o) with
        | Some ty =>
            match t_def ty with
            | TDArray len e =>
                (2 <=? len) && Bool.eqb (copy_tyb (c_reg c) e) want_copy &&
                (if want_copy then match rev t with "]" :: _ :: ";" :: _ => true | _ => false end else true)
            | _ => false
            end
        | None => false
        end
    | _ => false
    end) c.
Definition hyp_module (c : case) : bool :=
  match parsed_module c with Some (Some _) => true | _ => false end.
(** (only cases whose module was generated and parses: [prop_conforms] is evaluated there) *)
Definition hyp_array_noncopy (c : case) : bool := hyp_module c && array_obs false c.
Definition hyp_array_copy_repeat (c : case) : bool := hyp_module c && array_obs true c.
(** some Ok example mentions the root module, i.e. was checked against a generated item *)
Definition hyp_item_checked (c : case) : bool :=
  hyp_module c &&
  ex_obs (fun _ o => match eo_out o with OOk t => existsb (String.eqb (ss_root (c_spec c))) t | _ => false end) c.
(** some Ok example was accepted by the model-side reader [conforms_irb] *)
Definition hyp_irb_accepts (c : case) : bool :=
  match parsed_module c with
  | Some (Some _) =>
      let s := settings_of (c_spec c) in
      match model_items (c_reg c) s with
      | Ok m => ex_obs (fun _ o => match eo_out o with
                                   | OOk t => conforms_irb (c_reg c) s m (eo_id o) t
                                   | _ => false
                                   end) c
      | _ => false
      end
  | _ => false
  end.
Definition hyp_in_class (c : case) : bool := small c && in_class (c_reg c).
Definition hyp_total_hyps (c : case) : bool := small c && in_class (c_reg c) && hyp_ok c.

(** ** classifier of known finding F14: [Cow<T>] is exemplified as
    [<path of T> ( <example of T> , )] -- the path resolver collapses [Cow<T>]
    to [T] (mod.rs:344) while the example generator still treats the registry
    entry as a one-field tuple struct.  The classifier holds when the case has
    a non-conforming / non-parsing example and EVERY such example is of a type
    from which an entry whose path ends in [Cow] is reachable. *)
Definition is_cow (t : ty) : bool :=
  match path_ident (t_path t) with Some n => String.eqb n "Cow" | None => false end.

(** depth-first search for an entry satisfying [P] *)
Fixpoint reach_dfs (P : N -> ty -> bool) (fuel : nat) (r : registry) (id : N) (vis : list N) : bool * list N :=
  match fuel with
  | O => (false, vis)
  | S fuel' =>
      if existsb (N.eqb id) vis then (false, vis)
      else match lookup r id with
           | None => (false, id :: vis)
           | Some t =>
               if P id t then (true, vis)
               else fold_left (fun (acc : bool * list N) (c : N) =>
                                 if fst acc then acc else reach_dfs P fuel' r c (snd acc))
                              (param_ids t ++ def_ids (t_def t)) (false, id :: vis)
           end
  end.
Definition reaches (P : N -> ty -> bool) (r : registry) (id : N) : bool :=
  fst (reach_dfs P (S (List.length r)) r id []).
Definition reaches_cow (r : registry) : N -> bool := reaches (fun _ t => is_cow t) r.

(** known finding F15: the marker decision of an example is taken on the
    instantiation at hand ([create_type_ir] of THIS entry) while the generated
    item comes from the FIRST entry with that path; when parameter recovery by
    id coincidence makes the two disagree on "has unused parameters", the
    example has / lacks the [__ignore] / PhantomData element contrary to the item. *)
Definition model_unused (r : registry) (s : settings) (t : ty) : bool :=
  match has_unused_type_params r s t with Ok b => b | _ => false end.
Definition marker_mismatch (r : registry) (s : settings) (_ : N) (t : ty) : bool :=
  is_composite_or_variant (t_def t) && (2 <=? N.of_nat (List.length (t_path t))) &&
  match find (fun e => path_eqb (t_path (snd e)) (t_path t) && is_composite_or_variant (t_def (snd e))) r with
  | Some (_, t0) => negb (Bool.eqb (model_unused r s t0) (model_unused r s t))
  | None => false
  end.

Definition obs_fails (c : case) (m : option pmod) (o : eobs) : bool :=
  match eo_out o with
  | OOk t =>
      negb (eo_syn o) ||
      match m with
      | Some m => negb (conformsb (c_reg c) (ss_root (c_spec c)) (Some m) (c_paths c) (eo_id o) t)
      | None => false
      end
  | _ => false
  end.

Definition known_class (c : case) (m : option pmod) : bool :=
  let s := settings_of (c_spec c) in
  for_obs (fun _ o => if obs_fails c m o
                      then reaches_cow (c_reg c) (eo_id o) || reaches (marker_mismatch (c_reg c) s) (c_reg c) (eo_id o)
                      else true) c.

Definition known_F14 (c : case) : bool :=
  let m := match parsed_module c with Some (Some m) => Some m | _ => None end in
  ex_obs (fun _ o => obs_fails c m o && reaches_cow (c_reg c) (eo_id o)) c && known_class c m.

Definition known_F15 (c : case) : bool :=
  let m := match parsed_module c with Some (Some m) => Some m | _ => None end in
  let s := settings_of (c_spec c) in
  ex_obs (fun _ o => obs_fails c m o && reaches (marker_mismatch (c_reg c) s) (c_reg c) (eo_id o)) c && known_class c m.
