(** A traced copy of the model of [types_equal] (Model/Equal.v [teq]), used ONLY to classify
    observed conflations: it returns, next to the verdict, how often one of the three shortcuts
    recorded as finding F3 decided a comparison:

    - H1 same-id shortcut ([a = b]) taken although the two sides carry different parameter
      bindings (F3 proper);
    - H2 both-visited shortcut (F1);
    - H3 a parameter-index match decided by a frame that a NESTED generic type pushed (the
      difference is "explained" by that nested type's own parameter; F3b / F14).

    A conflation (verdict [true] on two members with different skeletons) is attributed to F3
    only if at least one of these fired; a conflation reached by plain structural comparison
    alone (as F19 was: variant indices never compared) is NOT attributed and stays a VIOLATION.
    [corr_teq_trace] checks on every case that the verdict of the traced copy is the verdict
    of the model proper. *)
From Coq Require Import List NArith String Bool.
From V Require Import Base.Util Base.Strings Base.Result Model.Registry Model.Derives Model.Equal.
Import ListNotations.
Open Scope string_scope. Open Scope list_scope.

(** index of [id] together with the height of the frame that holds it (0 = bottom frame) *)
Fixpoint index_height_for_type_id (g : glist) (id : N) : option (nat * nat) :=
  match g with
  | [] => None
  | (start, entries) :: prev =>
      match position (fun e => N.eqb (fst e) id) entries with
      | Some i => Some ((start + i)%nat, List.length prev)
      | None => index_height_for_type_id prev id
      end
  end.

Fixpoint index_height_for_type_name (g : glist) (name : string) : option (nat * nat) :=
  match g with
  | [] => None
  | (start, entries) :: prev =>
      match position (fun e => String.eqb (snd e) name) entries with
      | Some i => Some ((start + i)%nat, List.length prev)
      | None => index_height_for_type_name prev name
      end
  end.

(** frames 0 (the empty list) and 1 (the parameters of the two members being compared) are
    the legitimate ones *)
Definition nested_height (h : option (nat * nat)) : bool :=
  match h with Some (_, n) => Nat.ltb 1 n | None => false end.

Definition frame_eqb (x y : frame) : bool :=
  Nat.eqb (fst x) (fst y) &&
  list_eqb (fun e f => N.eqb (fst e) (fst f) && String.eqb (snd e) (snd f)) (snd x) (snd y).
Definition glist_eqb : glist -> glist -> bool := list_eqb frame_eqb.

(** the same-id shortcut is suspicious when some type reachable from the id (the id included) is
    bound as a parameter differently on the two sides: as a parameter on one side only, or at
    different indices *)
Definition opt_nat_same (a b : option nat) : bool :=
  match a, b with
  | Some x, Some y => Nat.eqb x y
  | None, None => true
  | _, _ => false
  end.
Definition glist_ids (g : glist) : list N := flat_map (fun f => map fst (snd f)) g.

(** every id reachable from [id] through parameters and definitions, bit sequences included
    (the traversal of the derive flattening, [collect_type_ids], skips the children of bit
    sequences and is therefore not used here) *)
Fixpoint reach_all (fuel : nat) (r : registry) (id : N) (visited : list N) : list N :=
  match fuel with
  | O => visited
  | S fuel' =>
      if mem_N id visited then visited
      else
        match resolve r id with
        | None => id :: visited
        | Some t =>
            fold_left (fun vis c => reach_all fuel' r c vis) (param_ids t ++ def_ids (t_def t)) (id :: visited)
        end
  end.
Definition same_id_suspicious (r : registry) (a : N) (ap bp : glist) : bool :=
  if glist_eqb ap bp then false
  else
    let reach := reach_all (S (List.length r)) r a [] in
    existsb (fun i => mem_N i reach && negb (opt_nat_same (index_for_type_id ap i) (index_for_type_id bp i)))
            (glist_ids ap ++ glist_ids bp).

(** state: visited sets and the number of suspicious decisions *)
Definition tstate := (vstate * N)%type.
Definition bump (b : bool) (n : N) : N := if b then (n + 1)%N else n.

Section Traced.
  Variable r : registry.

  Fixpoint all2t {A} (f : A -> A -> tstate -> result (bool * tstate))
           (la lb : list A) (st : tstate) : result (bool * tstate) :=
    match la, lb with
    | x :: la', y :: lb' =>
        let* res := f x y st in
        if fst res then all2t f la' lb' (snd res) else Ok (false, snd res)
    | _, _ => Ok (true, st)
    end.

  Fixpoint teq_tr (fuel : nat) (a : N) (ap : glist) (b : N) (bp : glist) (ts : tstate)
    : result (bool * tstate) :=
    let '(st, hits) := ts in
    match fuel with
    | O => Err EOutOfFuel
    | S fuel' =>
      if N.eqb a b then Ok (true, (st, bump (same_id_suspicious r a ap bp) hits))     (* H1 *)
      else
        let seen_a := mem_N a (fst st) in
        let seen_b := mem_N b (snd st) in
        let st := ((if seen_a then fst st else a :: fst st),
                   (if seen_b then snd st else b :: snd st)) in
        if negb (Bool.eqb seen_a seen_b) then Ok (false, (st, hits))
        else if seen_a && seen_b then Ok (true, (st, (hits + 1)%N))                     (* H2 *)
        else
          let a_idx := index_for_type_id ap a in
          let b_idx := index_for_type_id bp b in
          match resolve r a, resolve r b with
          | None, _ => Panic "type a should exist in registry"
          | _, None => Panic "type b should exist in registry"
          | Some ta, Some tb =>
            if opt_nat_eqb a_idx b_idx then
              Ok (true, (st, bump (nested_height (index_height_for_type_id ap a)
                                   || nested_height (index_height_for_type_id bp b)) hits))  (* H3 *)
            else if negb (path_eqb (t_path ta) (t_path tb)) then Ok (false, (st, hits))
            else if negb (Nat.eqb (List.length (param_ids ta)) (List.length (param_ids tb))) then Ok (false, (st, hits))
            else
              let ap' := glist_extend ap (t_params ta) in
              let bp' := glist_extend bp (t_params tb) in
              let recurse x y ts := teq_tr fuel' x ap' y bp' ts in
              let compare_fields (fa fb : field) (ts : tstate) : result (bool * tstate) :=
                if negb (opt_str_eqb (f_name fa) (f_name fb)) then Ok (false, ts)
                else
                  let skipped_or_wrapped :=
                    match index_for_type_id ap' (f_ty fa), index_for_type_id bp' (f_ty fb) with
                    | Some _, Some _ => false
                    | _, _ => true
                    end in
                  match f_type_name fa, f_type_name fb with
                  | Some na, Some nb =>
                      if skipped_or_wrapped then recurse (f_ty fa) (f_ty fb) ts
                      else
                        let v := opt_nat_eqb (index_for_type_name ap' na) (index_for_type_name bp' nb) in
                        Ok (v, (fst ts,
                                bump (v && (nested_height (index_height_for_type_name ap' na)
                                            || nested_height (index_height_for_type_name bp' nb)))
                                     (snd ts)))                                          (* H3 *)
                  | _, _ => recurse (f_ty fa) (f_ty fb) ts
                  end in
              let fields_equal (fa fb : list field) (ts : tstate) : result (bool * tstate) :=
                if negb (Nat.eqb (List.length fa) (List.length fb)) then Ok (false, ts)
                else all2t compare_fields fa fb ts in
              let ts := (st, hits) in
              match t_def ta, t_def tb with
              | TDComposite fa, TDComposite fb => fields_equal fa fb ts
              | TDVariant va, TDVariant vb =>
                  if negb (Nat.eqb (List.length va) (List.length vb)) then Ok (false, ts)
                  else all2t (fun x y ts =>
                                if String.eqb (v_name x) (v_name y) && N.eqb (v_index x) (v_index y)
                                then fields_equal (v_fields x) (v_fields y) ts
                                else Ok (false, ts)) va vb ts
              | TDSequence x, TDSequence y => recurse x y ts
              | TDArray la x, TDArray lb y =>
                  if N.eqb la lb then recurse x y ts else Ok (false, ts)
              | TDTuple xs, TDTuple ys =>
                  if negb (Nat.eqb (List.length xs) (List.length ys)) then Ok (false, ts)
                  else all2t recurse xs ys ts
              | TDPrimitive p, TDPrimitive q => Ok (prim_eqb p q, ts)
              | TDCompact x, TDCompact y => recurse x y ts
              | TDBitSeq sa oa, TDBitSeq sb ob =>
                  let* o := recurse oa ob ts in
                  let* s' := recurse sa sb (snd o) in
                  Ok (fst o && fst s', snd s')
              | _, _ => Ok (false, ts)
              end
          end
    end.

  (** verdict and number of suspicious decisions of the comparison [types_equal a b] *)
  Definition types_equal_traced (a b : N) : result (bool * N) :=
    let* x := teq_tr (S (S (List.length r))) a glist_empty b glist_empty (([], []), 0%N) in
    Ok (fst x, snd (snd x)).
End Traced.

Definition res_bool_eqb (x y : result bool) : bool :=
  match x, y with
  | Ok a, Ok b => Bool.eqb a b
  | Err _, Err _ => true
  | Panic _, Panic _ => true
  | _, _ => false
  end.

(** the traced copy gives the verdict of the model proper on the pair (a, b) *)
Definition traced_agrees (r : registry) (a b : N) : bool :=
  res_bool_eqb (rmap fst (types_equal_traced r a b)) (types_equal_res r a b).
