(** Correspondence for the type generator: cases, observations, comparison. *)
From Coq Require Import List NArith String Bool.
From V Require Import Base.Util Base.Strings Base.Result Model.Registry Model.Settings Model.Subst
  Model.TypePath Model.Derives Model.Generate Model.Emit Model.Equal Model.Builders.
Import ListNotations.
Open Scope string_scope. Open Scope list_scope.

Record sspec := mk_sspec {
  ss_root : string; ss_docs : bool; ss_codec : bool; ss_alloc : alloc_path;
  ss_compact : option tokens; ss_bits : option tokens; ss_compact_as : option kt;
  ss_ops : list op }.

Definition settings_of (sp : sspec) : settings :=
  let st := fst (run_ops (ss_ops sp)) in
  mk_settings (ss_root sp) (ss_docs sp) (b_dreg st) (b_subs st) (ss_bits sp) (ss_compact_as sp)
              (ss_compact sp) (ss_codec sp) (ss_alloc sp).

(** what the harness observed: Ok value, error kind (+ numeric payload, text payload), or panic *)
Inductive obs (A : Type) :=
| OOk (a : A)
| OErr (kind : string) (nums : list N) (msg : string)
| OPanic.
Arguments OOk {A} a. Arguments OErr {A} kind nums msg. Arguments OPanic {A}.

Definition obs_of {A} (x : result A) : obs A :=
  match x with
  | Ok a => OOk a
  | Panic _ => OPanic
  | Err e =>
      match e with
      | EIdsInvalid g ex => OErr "RegistryTypeIdsInvalid" [g; ex] ""
      | EInvalidFields => OErr "InvalidFields" [] ""
      | EInvalidType => OErr "InvalidType" [] ""
      | ECompactPathNone => OErr "CompactPathNone" [] ""
      | EBitsPathNone => OErr "DecodedBitsPathNone" [] ""
      | ETypeNotFound i => OErr "TypeNotFound" [i] ""
      | ESynParse => OErr "SynParseError" [] ""
      | EDuplicatePath p => OErr "DuplicateTypePath" [] p
      | EOutOfFuel => OErr "OutOfFuel" [] ""
      end
  end.

Definition obs_eqb {A} (eqb : A -> A -> bool) (a b : obs A) : bool :=
  match a, b with
  | OOk x, OOk y => eqb x y
  | OErr k n m, OErr k' n' m' => String.eqb k k' && list_eqb N.eqb n n' && String.eqb m m'
  | OPanic, OPanic => true
  | _, _ => false
  end.

Definition tokens_eqb : tokens -> tokens -> bool := list_eqb String.eqb.

Record tg_case := mk_tg {
  tg_tag : string;                        (* generator stream / annotation *)
  tg_reg : registry;
  tg_spec : sspec;
  tg_outs : list (option suberr);
  tg_gen : obs tokens;
  tg_paths : list (obs tokens);
  tg_syn_ok : bool;                       (* syn::parse2::<syn::File> accepted the observed module *)
  tg_upcasts : list (N * option N * obs tokens);   (* (type id, variant position, standalone struct tokens) *)
  tg_expect : option (string * list N);  (* outcome the fault injector expects (kind, payload) *)
  tg_dedup : obs (list (list string)) }.   (* entry paths after ensure_unique_type_paths *)

(** two runs related by [tp_kind]: "same" (equal inputs / permuted histories /
    renumbered registry: outputs must be token-identical), or a switch name *)
Record tg_pair := mk_pair { tp_kind : string; tp_a : tg_case; tp_b : tg_case;
                            tp_perm : list N }.  (* "renumbered": entry j of b is entry (tp_perm j) of a *)

Definition model_items (r : registry) (s : settings) : result items :=
  generate r s (types_equal r).

Definition model_gen (r : registry) (s : settings) : result tokens :=
  let* m := model_items r s in emit_module s m.

Definition model_path (r : registry) (s : settings) (id : N) : result tokens :=
  let* p := resolve_type_path r s id in tp_tokens (alloc_tokens (s_alloc s)) p.

Definition ids_of (r : registry) : list N := map N.of_nat (seq 0 (List.length r)).

Definition corr_gen (c : tg_case) : bool :=
  obs_eqb tokens_eqb (obs_of (model_gen (tg_reg c) (settings_of (tg_spec c)))) (tg_gen c).

Definition corr_paths (c : tg_case) : bool :=
  let s := settings_of (tg_spec c) in
  list_eqb (obs_eqb tokens_eqb) (map (fun i => obs_of (model_path (tg_reg c) s i)) (ids_of (tg_reg c)))
           (tg_paths c).

(** [ensure_unique_type_paths] on the same registry *)
Definition reg_paths (r : registry) : list (list string) := map (fun e => t_path (snd e)) r.
Definition corr_dedup_obs (c : tg_case) : bool :=
  obs_eqb (list_eqb path_eqb) (obs_of (rmap reg_paths (ensure_unique (tg_reg c)))) (tg_dedup c).

(** standalone struct from the field list of a struct ([None]) or of the k-th variant *)
Definition upcast_fields (r : registry) (id : N) (vi : option N) : option (string * list field * list string) :=
  match resolve r id with
  | None => None
  | Some t =>
      match t_def t, vi with
      | TDComposite fs, None =>
          match path_ident (t_path t) with Some n => Some (n, fs, t_docs t) | None => None end
      | TDVariant vs, Some k =>
          match nth_error vs (N.to_nat k) with
          | Some v => Some (v_name v, v_fields v, v_docs v)
          | None => None
          end
      | _, _ => None
      end
  end.

Definition model_upcast (r : registry) (s : settings) (id : N) (vi : option N) : result tokens :=
  match upcast_fields r id vi with
  | None => Panic "harness: no such field list"
  | Some (name, fs, docs) =>
      let* name := parse_ident name in
      let* ku := create_composite_ir_kind r s fs [] [] in
      type_ir_tokens s (upcast_composite s (mk_ci name (fst ku) (docs_from_scale_info s docs)))
  end.

Definition corr_upcasts (c : tg_case) : bool :=
  let s := settings_of (tg_spec c) in
  forallb (fun '(id, vi, o) => obs_eqb tokens_eqb (obs_of (model_upcast (tg_reg c) s id vi)) o)
          (tg_upcasts c).

Definition corr_ops (c : tg_case) : bool :=
  list_eqb (option_eqb suberr_eqb) (snd (run_ops (ss_ops (tg_spec c)))) (tg_outs c).
