(** Negative and positive controls for the run-time checkers added for the audit gaps G6 / G10d /
    G11: each checker is evaluated on small hand-written token lists on which the right verdict is
    obvious.  These are finite tests of CHECKERS (not statements about the implementation); they
    fail the build when a checker is weakened into silence. *)
From Coq Require Import List NArith String Bool Ascii.
From V Require Import Base.Util Base.Strings Model.Settings Checkers.Parse Checkers.Sem.
Import ListNotations.
Open Scope string_scope. Open Scope list_scope.

(** blank-separated text -> flattened tokens ([::] is two [:] tokens, as the harness flattens it) *)
Fixpoint words_go (s : string) (cur : string) : list string :=
  match s with
  | EmptyString => if String.eqb cur "" then [] else [cur]
  | String c s' =>
      if Ascii.eqb c " "%char
      then (if String.eqb cur "" then words_go s' "" else cur :: words_go s' "")
      else words_go s' (String.append cur (String c EmptyString))
  end.
Definition toks (s : string) : tokens :=
  flat_map (fun w => if String.eqb w "::" then [":"; ":"] else [w]) (words_go s "").

Definition sized_of (s : string) : option bool :=
  match parse_module (toks s) with
  | Some m => Some (sizedb "types" ["std"] (Some ["codec"; "Compact"]) true m)
  | None => None
  end.

Definition wrap (items : string) : string :=
  "pub mod types { use super :: types ; pub mod a { use super :: types ; " ++ items ++ " } }".

(** recursion through Box / Vec / a collection / Box<Option<..>>: sized *)
Example sized_box :
  sized_of (wrap "pub struct Node { pub next : :: std :: boxed :: Box < :: core :: option :: Option < types :: a :: Node > > , }")
  = Some true.
Proof. vm_compute. reflexivity. Qed.
Example sized_vec_and_collections :
  sized_of (wrap "pub struct Node { pub kids : :: std :: vec :: Vec < types :: a :: Node > , pub m : :: std :: collections :: BTreeMap < :: core :: primitive :: u8 , types :: a :: Node > , pub l : :: std :: collections :: LinkedList < types :: a :: Node > , }")
  = Some true.
Proof. vm_compute. reflexivity. Qed.
(** the same item without the Box: an infinitely sized type *)
Example unsized_option :
  sized_of (wrap "pub struct Node { pub next : :: core :: option :: Option < types :: a :: Node > , }") = Some false.
Proof. vm_compute. reflexivity. Qed.
(** through a tuple, an array, the Compact wrapper, a variant field; mutual recursion *)
Example unsized_tuple_array :
  sized_of (wrap "pub struct Node ( pub ( :: core :: primitive :: u8 , [ types :: a :: Node ; 2usize ] , ) , ) ;") = Some false.
Proof. vm_compute. reflexivity. Qed.
Example unsized_compact_wrapper :
  sized_of (wrap "pub struct Node { pub c : :: codec :: Compact < types :: a :: Node > , }") = Some false.
Proof. vm_compute. reflexivity. Qed.
Example unsized_mutual_enum :
  sized_of (wrap "pub enum A { # [ codec ( index = 0 ) ] X ( types :: a :: B , ) , } pub struct B { pub a : types :: a :: A , }")
  = Some false.
Proof. vm_compute. reflexivity. Qed.
Example sized_mutual_boxed :
  sized_of (wrap "pub enum A { # [ codec ( index = 0 ) ] X ( :: std :: boxed :: Box < types :: a :: B > , ) , } pub struct B { pub a : types :: a :: A , }")
  = Some true.
Proof. vm_compute. reflexivity. Qed.
(** a Box rooted at another crate than the configured alloc crate is not known to be a heap type: no edge
    (foreign paths are opaque), but the alloc-rooted one of a CUSTOM alloc crate is recognised *)
Example custom_alloc_box :
  match parse_module (toks (wrap "pub struct Node { pub next : :: my :: alloc :: boxed :: Box < types :: a :: Node > , }")) with
  | Some m => sizedb "types" ["my"; "alloc"] None true m
  | None => false
  end = true.
Proof. vm_compute. reflexivity. Qed.
(** generic arguments: [Holder<T> { v: T }] exposes [T], [Wrapper<T>(Vec<T>)] does not *)
Example unsized_through_exposed_generic :
  sized_of (wrap "pub struct Holder < _0 > { pub v : _0 , } pub struct B { pub a : types :: a :: Holder < types :: a :: B > , }")
  = Some false.
Proof. vm_compute. reflexivity. Qed.
Example sized_through_hidden_generic :
  sized_of (wrap "pub struct Wrapper < _0 > ( pub :: std :: vec :: Vec < _0 > , ) ; pub struct N { pub kids : types :: a :: Wrapper < types :: a :: N > , }")
  = Some true.
Proof. vm_compute. reflexivity. Qed.
(** exposure is transitive: Outer<T> { i: Holder<T> } exposes T *)
Example unsized_through_two_generics :
  sized_of (wrap "pub struct Holder < _0 > { pub v : _0 , } pub struct Outer < _0 > { pub i : types :: a :: Holder < _0 > , } pub struct B { pub a : types :: a :: Outer < types :: a :: B > , }")
  = Some false.
Proof. vm_compute. reflexivity. Qed.
(** the PhantomData marker is zero sized *)
Example sized_phantom :
  sized_of (wrap "pub struct P < _0 > { pub x : :: core :: primitive :: u8 , # [ codec ( skip ) ] pub __ignore : :: core :: marker :: PhantomData < _0 > , } pub struct Q { pub p : types :: a :: P < types :: a :: Q > , }")
  = Some true.
Proof. vm_compute. reflexivity. Qed.

(** the sort key of attributes: proc-macro2's spacing *)
Example render_attr_1 :
  attr_sort_key (toks "serde ( rename_all = ""camelCase"" )") = "# [serde (rename_all = ""camelCase"")]".
Proof. vm_compute. reflexivity. Qed.
Example render_attr_2 :
  attr_sort_key (toks "codec ( crate = :: codec )") = "# [codec (crate = :: codec)]".
Proof. vm_compute. reflexivity. Qed.
Example render_attr_3 :
  attr_sort_key (toks "cfg_attr ( feature = ""std"" , derive ( Hash ) )") = "# [cfg_attr (feature = ""std"" , derive (Hash))]".
Proof. vm_compute. reflexivity. Qed.
Example sorted_yes : strictly_sorted ["# [a (x)]"; "# [a]"; "# [b]"] = true.
Proof. vm_compute. reflexivity. Qed.
Example sorted_no_swap : strictly_sorted ["# [b]"; "# [a]"] = false.
Proof. vm_compute. reflexivity. Qed.
Example sorted_no_duplicate : strictly_sorted ["# [a]"; "# [a]"] = false.
Proof. vm_compute. reflexivity. Qed.
