(** C05: generic definitions are recovered as generics (source round trip). *)
From Coq Require Import List NArith String Bool.
From V Require Import Base.Util Base.Strings Base.Result Model.Registry Model.Settings Model.Subst
  Model.TypePath Model.Program Model.ProgramSkel Model.ProgramTeq Model.Program1 Checkers.Parse Checkers.Sem Corr.RunTG Corr.CheckTG.
Import ListNotations.
Open Scope string_scope. Open Scope list_scope.

Record c05_case := mk_c05 {
  c5_prog : program;
  c5_insts : list (nat * list src);     (* every interned closed instantiation *)
  c5_labels : list (option src);        (* per id: the closed source type the entry stands for ([canon] form;
                                           None = bit-order marker), as the harness interner registered it *)
  c5_raw_labels : list (option src);    (* the same labels AS WRITTEN: the closed source type the entry was first
                                           registered for (Box / VecDeque kept) *)
  c5_tg : tg_case }.

Definition segs_lead (t : tokens) : list string * bool :=
  (toks_to_segs t, match t with ":" :: ":" :: _ => true | _ => false end).

(** observed item with everything C05 does not speak about removed (derives, docs, user attributes) *)
Definition keep_codec (attrs : list tokens) : list tokens := filter (attr_is "codec") attrs.
Definition strip_fields (fs : list pfield) : list pfield :=
  map (fun f => mk_pfield (keep_codec (pf_attrs f)) (pf_pub f) (pf_name f) (pf_ty f)) fs.
Definition strip_body (b : pbody) : pbody :=
  match b with BUnit => BUnit | BTuple fs => BTuple (strip_fields fs) | BNamed fs => BNamed (strip_fields fs) end.
Definition strip_item (i : pitem) : pitem :=
  mk_pitem [] (pi_is_enum i) (pi_name i) (pi_generics i) (strip_body (pi_body i))
           (map (fun v => mk_pvariant (keep_codec (pv_attrs v)) (pv_name v) (strip_body (pv_body v))) (pi_variants i))
           (pi_semi i).

Definition expected_of (c : c05_case) (d : sdef) : pitem :=
  let s := settings_of (tg_spec (c5_tg c)) in
  expected_item (pg_defs (c5_prog c)) (s_root s)
                (toks_to_segs (alloc_tokens (s_alloc s)))
                (match s_compact s with Some t => segs_lead t | None => ([], false) end)
                (match s_bits s with Some t => segs_lead t | None => ([], false) end)
                (fun lsb => PPath true [("bits", []); ("order", []); (if lsb then "Lsb0" else "Msb0", [])])
                (s_codec s) d.

Definition insts_of (c : c05_case) (k : nat) : list (list src) :=
  flat_map (fun ia : nat * list src => if Nat.eqb (fst ia) k then [snd ia] else []) (c5_insts c).

(** definitions all of whose instantiations are coincidence-free (C05's quantifier) *)
Definition cf_def (c : c05_case) (k : nat) (d : sdef) : bool :=
  match insts_of c k with
  | [] => false
  | l => forallb (instantiation_cf (pg_defs (c5_prog c)) d) l
  end.

Definition defs_indexed (c : c05_case) : list (nat * sdef) :=
  combine (seq 0 (List.length (pg_defs (c5_prog c)))) (pg_defs (c5_prog c)).

Definition prop_source_roundtrip (c : c05_case) : bool :=
  match tg_gen (c5_tg c) with
  | OOk toks =>
      match parse_module toks with
      | None => false
      | Some m =>
          forallb (fun kd : nat * sdef =>
                     if cf_def c (fst kd) (snd kd) then
                       match lookup_item m (sd_path (snd kd)) with
                       | Some it => pitem_eqb (strip_item it) (expected_of c (snd kd))
                       | None => false
                       end
                     else true) (defs_indexed c)
      end
  | _ => true
  end.

(** all instantiations of one (coincidence-free) definition resolve to the one item:
    every resolved path of an instantiation id is  root::path<args>  with as many arguments as
    the definition has non-skipped parameters *)
Definition prop_one_item (c : c05_case) : bool :=
  let r := tg_reg (c5_tg c) in
  let s := settings_of (tg_spec (c5_tg c)) in
  if forallb (fun kd : nat * sdef => match insts_of c (fst kd) with [] => true | _ => cf_def c (fst kd) (snd kd) end)
             (defs_indexed c)
  then match tg_gen (c5_tg c) with
       | OErr k _ _ => negb (String.eqb k "DuplicateTypePath")   (* such programs always generate *)
       | OPanic => false
       | OOk _ =>
           forallb (fun '(id, e) =>
                      let t := snd e in
                      if item_eligible s t then
                        match nth_error (tg_paths (c5_tg c)) (N.to_nat id) with
                        | Some (OOk pt) =>
                            match parse_type pt with
                            | Some (PPath false segs) =>
                                match path_is segs (s_root s :: t_path t) with
                                | Some args => Nat.eqb (List.length args) (List.length (param_ids t))
                                | None => false
                                end
                            | _ => false
                            end
                        | _ => false
                        end
                      else true) (combine (ids_of r) r)
       end
  else true.

Definition hyp_all_cf (c : c05_case) : bool :=
  forallb (fun kd : nat * sdef => match insts_of c (fst kd) with [] => true | _ => cf_def c (fst kd) (snd kd) end)
          (defs_indexed c).

Definition hyp_some_cf_generic (c : c05_case) : bool :=
  existsb (fun kd : nat * sdef => cf_def c (fst kd) (snd kd) &&
                                  existsb (fun p : string * bool => negb (snd p)) (sd_params (snd kd)) &&
                                  Nat.leb 2 (List.length (insts_of c (fst kd)))) (defs_indexed c).

(** finding F16: a [Cow] nested DIRECTLY in a [Cow] is looked through only one level
    (mod.rs:344-354 uses `if`, not a loop): the generator emits  <alloc>::borrow::Cow<T>  *)
Fixpoint has_cow_cow (t : src) : bool :=
  match t with
  | SCow (SCow _) => true
  | SApp _ args => (fix go (l : list src) := match l with [] => false | x :: l' => has_cow_cow x || go l' end) args
  | STup ts => (fix go (l : list src) := match l with [] => false | x :: l' => has_cow_cow x || go l' end) ts
  | SVec t | SVecDeque t | SArray _ t | SCompactT t | SBox t | SOpt t | SBTreeSet t | SCow t | SRange t => has_cow_cow t
  | SRes a b | SBTreeMap a b => has_cow_cow a || has_cow_cow b
  | SParam _ | SPrimT _ | SBitVec _ _ => false
  end.

Definition known_F16 (c : c05_case) : bool :=
  existsb (fun d => existsb has_cow_cow (def_field_types d)) (pg_defs (c5_prog c)) &&
  (* every definition whose item differs from the expectation has such a field *)
  match tg_gen (c5_tg c) with
  | OOk toks =>
      match parse_module toks with
      | None => false
      | Some m =>
          forallb (fun kd : nat * sdef =>
                     if cf_def c (fst kd) (snd kd) then
                       match lookup_item m (sd_path (snd kd)) with
                       | Some it => pitem_eqb (strip_item it) (expected_of c (snd kd)) ||
                                    existsb has_cow_cow (def_field_types (snd kd))
                       | None => false
                       end
                     else true) (defs_indexed c)
      end
  | _ => false
  end.

(** ** the registry is the registry of the program ([RegistryOf], Model/Program.v)

    [registry_ofb] = [registry_entries_ofb && labels_injectiveb] (Model/Program.v):
    - [corr_registry_of]: every entry is what scale-info's derive produces for its label, one level
      of ids (must hold on EVERY case: it ties the interner's entries to the specification; sound for
      the first two clauses of [RegistryOf] by [C05_registry_entries_ofb_sound]);
    - [hyp_registry_of]: additionally one id per label, i.e. [registry_ofb] and with it the
      [RegistryOf] hypothesis of the C05 theorems ([C05_registry_ofb_sound], with
      [hyp_prelude_nodocs]).  scale-info interns by the TypeId of ONE step of [Identity]: a program
      mentioning both [Vec<Box<T>>] and [Vec<T>] (or [Box<Vec<T>>] / [Vec<T>], [Option<Box<T>>] /
      [Option<T>], ..) has two entries for one [canon] label ([hyp_identity_duplicates]); on those
      cases [RegistryOf] does not hold of the real registry and the theorems say nothing, the
      run-time checkers are evaluated all the same. *)
Definition corr_registry_of (c : c05_case) : bool :=
  registry_entries_ofb (pg_defs (c5_prog c)) (c5_labels c) (tg_reg (c5_tg c)).

Definition hyp_registry_of (c : c05_case) : bool :=
  registry_ofb (pg_defs (c5_prog c)) (c5_labels c) (tg_reg (c5_tg c)).

Definition hyp_identity_duplicates (c : c05_case) : bool := negb (labels_injectiveb (c5_labels c)).

Definition hyp_prelude_nodocs (c : c05_case) : bool :=
  prelude_nodocs_b (tg_reg (c5_tg c)).

(** ** the registry is the REAL registry of the program ([RegistryOf1], Model/Program1.v)

    [hyp_registry_of1] = [registry_of1b] on the interner's labels as written, put into [ident1]
    normal form (one step of [Identity] at the top, nothing below): labels normal, every entry the
    derive's entry for the peeled label with children looked up by their [ident1] form, one id per
    label.  Sound for [RegistryOf1] ([C05_registry_of1b_sound], with [hyp_prelude_nodocs]), the
    hypothesis of [C05_skeleton_is_source1] / [C05_one_item1] / [C05_program_skeleton_consistent1].
    Expected to hold on EVERY case, the cases with [hyp_identity_duplicates] included. *)
Definition c5_labels1 (c : c05_case) : list (option src) := ident1_labels (c5_raw_labels c).

Definition hyp_registry_of1 (c : c05_case) : bool :=
  registry_of1b (pg_defs (c5_prog c)) (c5_labels1 c) (tg_reg (c5_tg c)).

(** the same as a gate: the interner's registry IS the program's registry in the sense of
    [RegistryOf1] on every case (as [corr_registry_of] ties its entries to [RegistryOf]) *)
Definition corr_registry_of1 (c : c05_case) : bool := hyp_registry_of1 c.

(** the two printed label lists agree: the [canon] labels are [canon] of the labels as written *)
Definition hyp_labels_agree (c : c05_case) : bool :=
  list_eqb (option_eqb src_eqb)
           (map (fun o => match o with Some x => Some (canon x) | None => None end) (c5_raw_labels c))
           (c5_labels c).

(** coincidence-freeness restated on ids ([instantiation_cf1]) of every interned instantiation *)
Definition cf1_def (c : c05_case) (k : nat) (d : sdef) : bool :=
  match insts_of c k with
  | [] => false
  | l => forallb (instantiation_cf1 (pg_defs (c5_prog c)) d) l
  end.

Definition hyp_all_cf1 (c : c05_case) : bool :=
  forallb (fun kd : nat * sdef => match insts_of c (fst kd) with [] => true | _ => cf1_def c (fst kd) (snd kd) end)
          (defs_indexed c).

(** cases on which the restated condition admits a program the [canon] one rejects *)
Definition hyp_cf1_only (c : c05_case) : bool := hyp_all_cf1 c && negb (hyp_all_cf c).

(** every hypothesis of [C05_skeleton_is_source1] / [C05_one_item1] (all of them decidable) holds
    of the case, for EVERY interned instantiation: the real registry is the program's
    ([registry_of1b], prelude entries without docs), the settings are compatible with every
    definition, every instantiation is coincidence-free on ids *)
Definition hyp_thm1_premises (c : c05_case) : bool :=
  let defs := pg_defs (c5_prog c) in
  let s := settings_of (tg_spec (c5_tg c)) in
  hyp_registry_of1 c && hyp_prelude_nodocs c && prelude_okb s && order_resolvesb s &&
  forallb (fun kd : nat * sdef =>
             let d := snd kd in
             def_okb s d && forallb (fun f => no_cow_cow (sf_ty f)) (def_sfields d) && box_names_okb defs d &&
             forallb (fun args => instantiation_cf1 defs d args && compact_fields_okb1 defs d args)
                     (insts_of c (fst kd)))
          (defs_indexed c).

(** ... on a registry with identity duplicates: the cases the [..1] theorems speak about and the
    theorems on [RegistryOf] do not *)
Definition hyp_thm1_on_duplicates (c : c05_case) : bool := hyp_thm1_premises c && hyp_identity_duplicates c.

(** the same for the theorems on [RegistryOf] ([C05_program_skeleton_consistent]) *)
Definition hyp_thm_premises (c : c05_case) : bool :=
  let defs := pg_defs (c5_prog c) in
  let s := settings_of (tg_spec (c5_tg c)) in
  hyp_registry_of c && hyp_prelude_nodocs c && prelude_okb s && order_resolvesb s &&
  forallb (fun kd : nat * sdef =>
             let d := snd kd in
             def_okb s d && forallb (fun f => no_cow_cow (sf_ty f)) (def_sfields d) && box_names_okb defs d &&
             forallb (fun args => instantiation_cf defs d args && list_eqb src_eqb (map canon args) args &&
                                  compact_fields_okb defs d args)
                     (insts_of c (fst kd)))
          (defs_indexed c).
