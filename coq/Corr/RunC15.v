(** Correspondence and property checkers for C15 (formatter). *)
From Coq Require Import List NArith ZArith Bool String.
From V Require Import Base.Util Model.Format Model.FormatSpec Proofs.FormatProofs.
Import ListNotations.
Open Scope N_scope.

(** a case: input, observed output (UTF-8 strings) *)
Definition case := (string * string)%type.
Definition c_in (c : case) : list N := utf8_decode (fst c).
Definition c_obs (c : case) : list N := utf8_decode (snd c).

(** obligation A: the exact model reproduces the implementation *)
Definition corr_exact (c : case) : bool :=
  list_eqb N.eqb (format_impl (c_in c)) (c_obs c).

(** Decisions read off the observed output: replay the state machine against
    the observed text; at an opener the scope is Big iff the observed text
    continues with a newline.  (Only consulted when obligation A fails.) *)
Fixpoint infer_decisions (st : fstate) (input obs : list N) : list bool :=
  match input with
  | [] => []
  | ch :: rest =>
      if (ch =? c_lparen) || (ch =? c_langle) then
        let small := match obs with _ :: x :: _ => negb (x =? c_nl) | _ => true end in
        let '(chunk, st', _) := step (list bool) decide_stream st [small] ch rest in
        small :: infer_decisions st' rest (skipn (List.length chunk) obs)
      else
        let '(chunk, st', _) := step (list bool) decide_stream st [] ch rest in
        infer_decisions st' rest (skipn (List.length chunk) obs)
  end.

(** obligation B: the model, under *some* decision stream, reproduces the
    implementation (the C15 theorems hold for every oracle) *)
Definition corr_stream (c : case) : bool :=
  let i := c_in c in let o := c_obs c in
  list_eqb N.eqb (format_stream (infer_decisions init_fstate i o) i) o.

(** property checkers on the implementation's own output *)
Definition prop_ws (c : case) : bool :=
  let i := c_in c in let o := c_obs c in
  ws_insb i o.

Definition prop_discipline (c : case) : bool :=
  let i := c_in c in
  if nestedb i && ws_free i then disciplineb (c_obs c) else true.

Definition hyp_nested (c : case) : bool :=
  let i := c_in c in nestedb i && ws_free i.
