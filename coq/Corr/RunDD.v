(** C03 / C04: same-path families through [ensure_unique_type_paths] and generation. *)
From Coq Require Import List NArith String Bool Ascii.
From V Require Import Base.Util Base.Strings Base.Result Model.Registry Model.Settings Model.Subst
  Model.TypePath Model.Derives Model.Generate Model.Emit Model.Equal Model.Builders
  Checkers.Parse Checkers.Sem Corr.RunTG Corr.CheckTG.
Import ListNotations.
Open Scope string_scope. Open Scope list_scope.

Record dd_case := mk_dd {
  dd_tag : string;
  dd_before : tg_case;                         (* original registry, default settings *)
  dd_once : obs (list (list string));          (* entry paths after one pass *)
  dd_twice : obs (list (list string));         (* ... after a second pass *)
  dd_after : option tg_case }.                 (* the observed de-duplicated registry, generated *)

Definition paths_of (r : registry) : list (list string) := map (fun e => t_path (snd e)) r.
Definition paths_eqb : list (list string) -> list (list string) -> bool := list_eqb path_eqb.

Definition model_once (r : registry) : result registry := ensure_unique r.
Definition model_twice (r : registry) : result registry := let* r1 := ensure_unique r in ensure_unique r1.

Definition corr_dedup (c : dd_case) : bool :=
  let r := tg_reg (dd_before c) in
  obs_eqb paths_eqb (obs_of (rmap paths_of (model_once r))) (dd_once c) &&
  obs_eqb paths_eqb (obs_of (rmap paths_of (model_twice r))) (dd_twice c).

Definition corr_dd_tg (c : dd_case) : bool :=
  corr_case (dd_before c) && match dd_after c with Some a => corr_case a | None => true end.

(** ** hypotheses / classifiers *)
Definition family_paths (r : registry) : list (list string) :=
  (* namespaced paths carried by >= 2 entries *)
  let ps := filter (fun p => match namespace p with [] => false | _ => true end) (paths_of r) in
  filter (fun p => Nat.leb 2 (List.length (filter (path_eqb p) ps))) ps.

Definition hyp_has_family (c : dd_case) : bool :=
  match family_paths (tg_reg (dd_before c)) with [] => false | _ => true end.

Definition hyp_renamed (c : dd_case) : bool :=
  match dd_once c with
  | OOk ps => negb (paths_eqb ps (paths_of (tg_reg (dd_before c))))
  | _ => false
  end.

Definition hyp_gen_before_ok (c : dd_case) : bool := hyp_gen_ok (dd_before c).

(** ** C04 on observed data *)
Definition is_digits (s : string) : bool :=
  match s with EmptyString => false | _ => all_chars is_digit s end.

Fixpoint strip_str_prefix (p s : string) : option string :=
  match p with
  | EmptyString => Some s
  | String a p' => match s with
                   | EmptyString => None
                   | String b s' => if Ascii.eqb a b then strip_str_prefix p' s' else None
                   end
  end.

(** new path = old path, or same namespace and last segment = old ++ decimal digits (no leading zero) *)
Definition renamed_ok (old new : list string) : bool :=
  path_eqb old new ||
  (path_eqb (namespace old) (namespace new) &&
   match old, new with
   | _ :: _, _ :: _ =>
       match strip_str_prefix (last old "") (last new "") with
       | Some d => is_digits d && negb (starts_with "0" d)
       | None => false
       end
   | _, _ => false
   end).

(** registries equal up to the paths *)
Definition ty_same_but_path (a b : ty) : bool :=
  (* compare through the emitted registry printer-independent structure: params, def, docs *)
  list_eqb (fun p q => String.eqb (tp_name p) (tp_name q) && option_eqb N.eqb (tp_ty p) (tp_ty q))
           (t_params a) (t_params b) &&
  list_eqb String.eqb (t_docs a) (t_docs b) &&
  list_eqb N.eqb (def_ids (t_def a)) (def_ids (t_def b)).

Definition prop_frame (c : dd_case) : bool :=
  let r := tg_reg (dd_before c) in
  match dd_once c with
  | OOk ps =>
      Nat.eqb (List.length ps) (List.length r) &&
      forallb (fun op : list string * list string => renamed_ok (fst op) (snd op)) (combine (paths_of r) ps) &&
      match dd_after c with
      | Some a =>
          let r' := tg_reg a in
          Nat.eqb (List.length r') (List.length r) &&
          paths_eqb (paths_of r') ps &&
          forallb (fun ab : (N * ty) * (N * ty) =>
                     N.eqb (fst (fst ab)) (fst (snd ab)) && ty_same_but_path (snd (fst ab)) (snd (snd ab)))
                  (combine r r')
      | None => false
      end
  | OErr k _ _ => String.eqb k "RegistryTypeIdsInvalid" && negb (ids_consistent r)
  | OPanic => false
  end.

(** numbering: within a family the distinct new names, in order of first appearance, are
    old1 .. oldk (k >= 2) or just old; entries outside families are untouched *)
Fixpoint dedup_paths (l : list (list string)) : list (list string) :=
  match l with
  | [] => []
  | p :: l' => p :: filter (fun q => negb (path_eqb p q)) (dedup_paths l')
  end.

Definition prop_numbering (c : dd_case) : bool :=
  let r := tg_reg (dd_before c) in
  match dd_once c with
  | OOk ps =>
      let pairs := combine (paths_of r) ps in
      forallb (fun old =>
                 let news := dedup_paths (map snd (filter (fun op : list string * list string => path_eqb (fst op) old) pairs)) in
                 match namespace old with
                 | [] => list_eqb path_eqb news [old]
                 | _ =>
                     match news with
                     | [one] => path_eqb one old
                     | _ => list_eqb path_eqb news
                                     (map (fun k => rename_last old (N.of_nat k)) (seq 1 (List.length news)))
                     end
                 end) (dedup_paths (paths_of r))
  | _ => true
  end.

Definition gen_kind_is (c : tg_case) (k : string) : bool :=
  match tg_gen c with OErr k' _ _ => String.eqb k k' | _ => false end.

Definition prop_sufficient (c : dd_case) : bool :=
  match dd_after c with
  | Some a => negb (gen_kind_is a "DuplicateTypePath")
  | None => true
  end.

Definition prop_idempotent (c : dd_case) : bool :=
  match dd_once c, dd_twice c with
  | OOk a, OOk b => paths_eqb a b
  | OOk _, _ => false
  | _, _ => true
  end.

(** F4: a renamed path collides with a path that some other family / entry already carries
    (before or after renaming) *)
Definition known_suffix_collision (c : dd_case) : bool :=
  let r := tg_reg (dd_before c) in
  match dd_once c with
  | OOk ps =>
      let pairs := combine (paths_of r) ps in
      existsb (fun op : list string * list string =>
                 negb (path_eqb (fst op) (snd op)) &&
                 existsb (fun oq : list string * list string =>
                            negb (path_eqb (fst oq) (fst op)) &&
                            (path_eqb (fst oq) (snd op) || path_eqb (snd oq) (snd op))) pairs) pairs
  | _ => false
  end.

(** F12: one pass is not a fixpoint although no digit collision happened: the MODEL's second
    pass changes paths again (renaming nested types changed the verdict of [types_equal]) *)
Definition known_not_fixpoint (c : dd_case) : bool :=
  negb (known_suffix_collision c) &&
  let r := tg_reg (dd_before c) in
  match model_once r, model_twice r with
  | Ok r1, Ok r2 => negb (paths_eqb (paths_of r1) (paths_of r2))
  | _, _ => false
  end.

(** ** C03 on observed data: success implies every member is faithfully represented *)
Definition prop_no_conflation (c : dd_case) : bool := faithful_obs (dd_before c).
Definition prop_dedup_no_conflation (c : dd_case) : bool :=
  match dd_after c with Some a => faithful_obs a | None => true end.

(** classifiers for the recorded unsoundness of [types_equal] (utils.rs:101-281): the family
    that is conflated is not skeleton-consistent although generation succeeded *)
Definition inconsistent_case (t : tg_case) : bool :=
  hyp_gen_ok t && negb (skeleton_consistentb (tg_reg t) (settings_of (tg_spec t))).

Definition arity_differs (t : tg_case) : bool :=
  let r := tg_reg t in
  let s := settings_of (tg_spec t) in
  existsb (fun e =>
             item_eligible s (snd e) &&
             match find (fun e' => path_eqb (t_path (snd e')) (t_path (snd e)) && item_eligible s (snd e')) r with
             | Some e' => negb (Nat.eqb (List.length (param_ids (snd e))) (List.length (param_ids (snd e'))))
             | None => false
             end) r.

Definition which (c : dd_case) : list tg_case :=
  (if faithful_obs (dd_before c) then [] else [dd_before c]) ++
  match dd_after c with Some a => if faithful_obs a then [] else [a] | None => [] end.

(** F2: same-path types with different numbers of type parameters are judged equal *)
Definition known_TE_arity (c : dd_case) : bool :=
  match which c with [] => false | l => forallb (fun t => inconsistent_case t && arity_differs t) l end.
(** F1 / F3 / F14: equal parameter counts, but the both-visited or same-id shortcut, or a
    difference "explained" by a nested generic's parameter, hides a difference *)
Definition known_TE_unsound (c : dd_case) : bool :=
  match which c with
  | [] => false
  | l => forallb (fun t => inconsistent_case t && negb (arity_differs t) && known_F3_conflation t) l
  end.
Definition corr_teq_trace_dd (c : dd_case) : bool :=
  corr_teq_trace (dd_before c) && match dd_after c with Some a => corr_teq_trace a | None => true end.
