(** C03 / C04: same-path families through [ensure_unique_type_paths] and generation. *)
From Coq Require Import List NArith String Bool Ascii.
From V Require Import Base.Util Base.Strings Base.Result Model.Registry Model.Settings Model.Subst
  Model.TypePath Model.Derives Model.Generate Model.Emit Model.Equal Model.Builders
  Checkers.Parse Checkers.Sem Corr.RunTG Corr.TeqTrace Corr.CheckTG.
Import ListNotations.
Open Scope string_scope. Open Scope list_scope.

Record dd_case := mk_dd {
  dd_tag : string;
  dd_before : tg_case;                         (* original registry, default settings *)
  dd_once : obs (list (list string));          (* entry paths after one pass *)
  dd_twice : obs (list (list string));         (* ... after a second pass *)
  dd_after : option tg_case;                   (* the observed de-duplicated registry, generated *)
  dd_defs : list (option N) }.                 (* per entry of the original registry: index of the SOURCE
                                                  definition it is an instantiation of (known to the
                                                  program-based generators; [None] = not a named
                                                  definition / registry not built from a program) *)

Definition paths_of (r : registry) : list (list string) := map (fun e => t_path (snd e)) r.
Definition paths_eqb : list (list string) -> list (list string) -> bool := list_eqb path_eqb.

Definition model_once (r : registry) : result registry := ensure_unique r.
Definition model_twice (r : registry) : result registry := let* r1 := ensure_unique r in ensure_unique r1.

Definition corr_dedup (c : dd_case) : bool :=
  let r := tg_reg (dd_before c) in
  obs_eqb paths_eqb (obs_of (rmap paths_of (model_once r))) (dd_once c) &&
  obs_eqb paths_eqb (obs_of (rmap paths_of (model_twice r))) (dd_twice c).

Definition corr_dd_tg (c : dd_case) : bool :=
  corr_case (dd_before c) && match dd_after c with Some a => corr_case a | None => true end.

(** ** hypotheses / classifiers *)
Definition family_paths (r : registry) : list (list string) :=
  (* namespaced paths carried by >= 2 entries *)
  let ps := filter (fun p => match namespace p with [] => false | _ => true end) (paths_of r) in
  filter (fun p => Nat.leb 2 (List.length (filter (path_eqb p) ps))) ps.

Definition hyp_has_family (c : dd_case) : bool :=
  match family_paths (tg_reg (dd_before c)) with [] => false | _ => true end.

Definition hyp_renamed (c : dd_case) : bool :=
  match dd_once c with
  | OOk ps => negb (paths_eqb ps (paths_of (tg_reg (dd_before c))))
  | _ => false
  end.

Definition hyp_gen_before_ok (c : dd_case) : bool := hyp_gen_ok (dd_before c).

(** ** C04 on observed data *)
Definition is_digits (s : string) : bool :=
  match s with EmptyString => false | _ => all_chars is_digit s end.

Fixpoint strip_str_prefix (p s : string) : option string :=
  match p with
  | EmptyString => Some s
  | String a p' => match s with
                   | EmptyString => None
                   | String b s' => if Ascii.eqb a b then strip_str_prefix p' s' else None
                   end
  end.

(** new path = old path, or same namespace and last segment = old ++ decimal digits (no leading zero) *)
Definition renamed_ok (old new : list string) : bool :=
  path_eqb old new ||
  (path_eqb (namespace old) (namespace new) &&
   match old, new with
   | _ :: _, _ :: _ =>
       match strip_str_prefix (last old "") (last new "") with
       | Some d => is_digits d && negb (starts_with "0" d)
       | None => false
       end
   | _, _ => false
   end).

(** registries equal up to the paths *)
Definition ty_same_but_path (a b : ty) : bool :=
  (* compare through the emitted registry printer-independent structure: params, def, docs *)
  list_eqb (fun p q => String.eqb (tp_name p) (tp_name q) && option_eqb N.eqb (tp_ty p) (tp_ty q))
           (t_params a) (t_params b) &&
  list_eqb String.eqb (t_docs a) (t_docs b) &&
  list_eqb N.eqb (def_ids (t_def a)) (def_ids (t_def b)).

(** "definitions untouched", exactly: EVERYTHING of the entry except its path is as before - parameter
    names and ids, docs, and the whole definition: field names, ids, recorded type names and docs;
    variant names, indices and docs; array lengths; primitive kinds; tuple / sequence / compact /
    bit-sequence ids *)
Definition field_eqb (a b : field) : bool :=
  option_eqb String.eqb (f_name a) (f_name b) && N.eqb (f_ty a) (f_ty b) &&
  option_eqb String.eqb (f_type_name a) (f_type_name b) && list_eqb String.eqb (f_docs a) (f_docs b).
Definition variant_eqb (a b : variant) : bool :=
  String.eqb (v_name a) (v_name b) && list_eqb field_eqb (v_fields a) (v_fields b) &&
  N.eqb (v_index a) (v_index b) && list_eqb String.eqb (v_docs a) (v_docs b).
Definition typedef_eqb (a b : typedef) : bool :=
  match a, b with
  | TDComposite x, TDComposite y => list_eqb field_eqb x y
  | TDVariant x, TDVariant y => list_eqb variant_eqb x y
  | TDSequence x, TDSequence y => N.eqb x y
  | TDArray n x, TDArray m y => N.eqb n m && N.eqb x y
  | TDTuple x, TDTuple y => list_eqb N.eqb x y
  | TDPrimitive x, TDPrimitive y => prim_eqb x y
  | TDCompact x, TDCompact y => N.eqb x y
  | TDBitSeq s o, TDBitSeq s' o' => N.eqb s s' && N.eqb o o'
  | _, _ => false
  end.
Definition ty_eqb_but_path (a b : ty) : bool :=
  list_eqb (fun p q => String.eqb (tp_name p) (tp_name q) && option_eqb N.eqb (tp_ty p) (tp_ty q))
           (t_params a) (t_params b) &&
  typedef_eqb (t_def a) (t_def b) &&
  list_eqb String.eqb (t_docs a) (t_docs b).

Definition prop_frame (c : dd_case) : bool :=
  let r := tg_reg (dd_before c) in
  match dd_once c with
  | OOk ps =>
      Nat.eqb (List.length ps) (List.length r) &&
      forallb (fun op : list string * list string => renamed_ok (fst op) (snd op)) (combine (paths_of r) ps) &&
      match dd_after c with
      | Some a =>
          let r' := tg_reg a in
          Nat.eqb (List.length r') (List.length r) &&
          paths_eqb (paths_of r') ps &&
          forallb (fun ab : (N * ty) * (N * ty) =>
                     N.eqb (fst (fst ab)) (fst (snd ab)) && ty_same_but_path (snd (fst ab)) (snd (snd ab)) &&
                     ty_eqb_but_path (snd (fst ab)) (snd (snd ab)))
                  (combine r r')
      | None => false
      end
  | OErr k _ _ => String.eqb k "RegistryTypeIdsInvalid" && negb (ids_consistent r)
  | OPanic => false
  end.

(** numbering: within a family the distinct new names, in order of first appearance, are
    old1 .. oldk (k >= 2) or just old; entries outside families are untouched *)
Fixpoint dedup_paths (l : list (list string)) : list (list string) :=
  match l with
  | [] => []
  | p :: l' => p :: filter (fun q => negb (path_eqb p q)) (dedup_paths l')
  end.

Definition prop_numbering (c : dd_case) : bool :=
  let r := tg_reg (dd_before c) in
  match dd_once c with
  | OOk ps =>
      let pairs := combine (paths_of r) ps in
      forallb (fun old =>
                 let news := dedup_paths (map snd (filter (fun op : list string * list string => path_eqb (fst op) old) pairs)) in
                 match namespace old with
                 | [] => list_eqb path_eqb news [old]
                 | _ =>
                     match news with
                     | [one] => path_eqb one old
                     | _ => list_eqb path_eqb news
                                     (map (fun k => rename_last old (N.of_nat k)) (seq 1 (List.length news)))
                     end
                 end) (dedup_paths (paths_of r))
  | _ => true
  end.

Definition gen_kind_is (c : tg_case) (k : string) : bool :=
  match tg_gen c with OErr k' _ _ => String.eqb k k' | _ => false end.

Definition prop_sufficient (c : dd_case) : bool :=
  match dd_after c with
  | Some a => negb (gen_kind_is a "DuplicateTypePath")
  | None => true
  end.

Definition prop_idempotent (c : dd_case) : bool :=
  match dd_once c, dd_twice c with
  | OOk a, OOk b => paths_eqb a b
  | OOk _, _ => false
  | _, _ => true
  end.

(** F4: a renamed path collides with a path that some other family / entry already carries
    (before or after renaming) *)
Definition known_suffix_collision (c : dd_case) : bool :=
  let r := tg_reg (dd_before c) in
  match dd_once c with
  | OOk ps =>
      let pairs := combine (paths_of r) ps in
      existsb (fun op : list string * list string =>
                 negb (path_eqb (fst op) (snd op)) &&
                 existsb (fun oq : list string * list string =>
                            negb (path_eqb (fst oq) (fst op)) &&
                            (path_eqb (fst oq) (snd op) || path_eqb (snd oq) (snd op))) pairs) pairs
  | _ => false
  end.

(** F12: one pass is not a fixpoint although no digit collision happened: the MODEL's second
    pass changes paths again (renaming nested types changed the verdict of [types_equal]) *)
Definition known_not_fixpoint (c : dd_case) : bool :=
  negb (known_suffix_collision c) &&
  let r := tg_reg (dd_before c) in
  match model_once r, model_twice r with
  | Ok r1, Ok r2 => negb (paths_eqb (paths_of r1) (paths_of r2))
  | _, _ => false
  end.

(** ** C03 on observed data: success implies every member is faithfully represented *)
Definition prop_no_conflation (c : dd_case) : bool := faithful_obs (dd_before c).
Definition prop_dedup_no_conflation (c : dd_case) : bool :=
  match dd_after c with Some a => faithful_obs a | None => true end.

(** C03, first clause read on the outcome itself (G9): on a well-formed registry with supported
    settings generation is [Ok], or fails with the DUPLICATE-PATH error whose message is the
    [::]-joined path of a family that really has two or more item-eligible members - never a panic,
    never another error kind.  ([prop_no_conflation] says nothing about a failed run.)  The same for
    the de-duplicated registry. *)
Definition eligible_family_paths (r : registry) (s : settings) : list (list string) :=
  let ps := map (fun e => t_path (snd e)) (filter (fun e => item_eligible s (snd e)) r) in
  filter (fun p => Nat.leb 2 (List.length (filter (path_eqb p) ps))) ps.

Definition family_outcome_ok (t : tg_case) : bool :=
  if hyp_wf t then
    match tg_gen t with
    | OOk _ => true
    | OErr k nums msg =>
        String.eqb k "DuplicateTypePath" && list_eqb N.eqb nums [] &&
        existsb (fun p => String.eqb msg (join "::" p))
                (eligible_family_paths (tg_reg t) (settings_of (tg_spec t)))
    | OPanic => false
    end
  else true.

Definition prop_family_outcome (c : dd_case) : bool :=
  family_outcome_ok (dd_before c) &&
  match dd_after c with Some a => family_outcome_ok a | None => true end.

(** hit counters: the hypothesis holds on the original registry and it has a family of item-eligible
    members; ... and generation actually failed with the duplicate-path error *)
Definition hyp_family_wf (c : dd_case) : bool :=
  hyp_wf (dd_before c) &&
  match eligible_family_paths (tg_reg (dd_before c)) (settings_of (tg_spec (dd_before c))) with
  | [] => false | _ => true end.
Definition hyp_family_dup (c : dd_case) : bool :=
  hyp_family_wf c && gen_kind_is (dd_before c) "DuplicateTypePath".

(** ** C04: instantiations of one generic definition still share one path (G3).
    [dd_defs] labels the entries that the generator interned as instantiations of one SOURCE definition
    (the harness labels only definitions that no skipped parameter and no Box<T> / Cow<T> takes out
    of the clause's class).  Two such entries are compared when their generated SKELETONS agree
    (item tokens with the concrete ids abstracted, [skeleton_tokens] without substitutes): an argument
    that coincides with a concrete field type of hand-built metadata WITHOUT recorded type names
    changes the skeleton of that one instantiation (the field becomes the parameter) - such a pair
    is outside the "coincidence-free" quantifier and rightly split.  Coincidences that leave the
    skeleton alone stay inside: splitting them is the recorded finding F18.
    After one pass two compared entries must carry the same path. *)
Definition same_label (a b : option N) : bool :=
  match a, b with Some x, Some y => N.eqb x y | _, _ => false end.

(** positions i < j with one label *)
Definition inst_pairs (c : dd_case) : list (N * N) :=
  let l := combine (ids_of (tg_reg (dd_before c))) (dd_defs c) in
  flat_map (fun a : N * option N =>
              flat_map (fun b : N * option N =>
                          if N.ltb (fst a) (fst b) && same_label (snd a) (snd b) then [(fst a, fst b)] else [])
                       l) l.

(** the labelling itself is sane: one label per entry, same label => same original path and both
    entries are composite / variant definitions *)
Definition corr_dd_labels (c : dd_case) : bool :=
  let r := tg_reg (dd_before c) in
  Nat.eqb (List.length (dd_defs c)) (List.length r) &&
  forallb (fun ij : N * N =>
             match resolve r (fst ij), resolve r (snd ij) with
             | Some a, Some b => path_eqb (t_path a) (t_path b) &&
                                 is_composite_or_variant (t_def a) && is_composite_or_variant (t_def b)
             | _, _ => false
             end) (inst_pairs c).

(** skeleton of every namespaced entry (de-duplication does not look at the settings) *)
Definition dd_skels (c : dd_case) : list (option tokens) :=
  let r := tg_reg (dd_before c) in
  let s := no_subs (settings_of (tg_spec (dd_before c))) in
  map (fun e => match namespace (t_path (snd e)) with
                | [] => None
                | _ => skeleton_tokens r s (snd e)
                end) r.

Definition skel_at (sk : list (option tokens)) (i : N) : option tokens := nth (N.to_nat i) sk None.
Definition skel_same (sk : list (option tokens)) (i j : N) : bool :=
  match skel_at sk i, skel_at sk j with Some a, Some b => tokens_eqb a b | _, _ => false end.
Definition skel_differ (sk : list (option tokens)) (i j : N) : bool :=
  match skel_at sk i, skel_at sk j with Some a, Some b => negb (tokens_eqb a b) | _, _ => false end.

Definition compared_pairs (c : dd_case) : list (N * N) :=
  let sk := dd_skels c in
  filter (fun ij : N * N => skel_same sk (fst ij) (snd ij)) (inst_pairs c).

Definition split_pairs (c : dd_case) : list (N * N) :=
  match dd_once c with
  | OOk ps =>
      filter (fun ij : N * N => negb (path_eqb (nth (N.to_nat (fst ij)) ps []) (nth (N.to_nat (snd ij)) ps [])))
             (compared_pairs c)
  | _ => []
  end.

Definition prop_instantiations_stay (c : dd_case) : bool :=
  match split_pairs c with [] => true | _ => false end.

(** the observed group of x: entries with x's original path that received x's new path *)
Definition group_of (c : dd_case) (ps : list (list string)) (x : N) : list N :=
  let r := tg_reg (dd_before c) in
  match resolve r x with
  | None => []
  | Some tx =>
      flat_map (fun ke : N * (N * ty) =>
                  if path_eqb (t_path (snd (snd ke))) (t_path tx) &&
                     path_eqb (nth (N.to_nat (fst ke)) ps []) (nth (N.to_nat x) ps [])
                  then [fst ke] else []) (combine (ids_of r) r)
  end.

(** F18 seen by this clause: [types_equal] is incomplete.  The grouping compares an entry with the
    FIRST member of every group only, so the pair (i, j) is explained when the MODEL's
    [types_equal_res] says "different" for j and some member k of i's observed group that has the
    very skeleton of i and j (k = i included), in either direction - or the same with i and j
    exchanged.  An implementation that splits where the model sees no such verdict is not covered
    (and breaks [corr_dedup] as well). *)
Definition says_different (r : registry) (a b : N) : bool :=
  match types_equal_res r a b, types_equal_res r b a with
  | Ok false, _ | _, Ok false => true
  | _, _ => false
  end.

Definition split_by_F18 (c : dd_case) (sk : list (option tokens)) (ij : N * N) : bool :=
  let r := tg_reg (dd_before c) in
  match dd_once c with
  | OOk ps =>
      let one (x y : N) :=   (* y against the members of x's group *)
        existsb (fun k => negb (N.eqb k y) && skel_same sk k y && says_different r y k) (group_of c ps x) in
      one (fst ij) (snd ij) || one (snd ij) (fst ij)
  | _ => false
  end.

Definition known_F18_split (c : dd_case) : bool :=
  let sk := dd_skels c in
  match split_pairs c with
  | [] => false
  | l => forallb (split_by_F18 c sk) l
  end.

(** F3 seen by this clause: one of the two instantiations was ABSORBED by a differently shaped
    member of the family - its observed group contains an entry k whose skeleton differs from its
    own and the MODEL's traced [types_equal] says "equal" for the two with one of the recorded
    shortcuts deciding (same id under different parameter bindings / both visited / nested generic,
    Corr/TeqTrace.v); the other instantiation, compared with that group's first member, is
    (rightly) different.  Witness corpus/families/F03_split_instantiations.json:
    a::F<T = u8> { x: u16 }, then a::F<T> { x: T } at u16 and at u8 - the instantiation at u16 is merged
    with the first entry (the field ids are equal), the one at u8 is not. *)
Definition split_by_F3 (c : dd_case) (sk : list (option tokens)) (ij : N * N) : bool :=
  let r := tg_reg (dd_before c) in
  match dd_once c with
  | OOk ps =>
      let absorbed (x : N) :=
        existsb (fun k => skel_differ sk k x &&
                          match types_equal_traced r (N.max x k) (N.min x k) with
                          | Ok (true, hits) => N.ltb 0 hits
                          | _ => false
                          end) (group_of c ps x) in
      absorbed (fst ij) || absorbed (snd ij)
  | _ => false
  end.

Definition known_F3_split (c : dd_case) : bool :=
  let sk := dd_skels c in
  match split_pairs c with
  | [] => false
  | l => forallb (fun ij => split_by_F18 c sk ij || split_by_F3 c sk ij) l && existsb (split_by_F3 c sk) l
  end.

Definition hyp_instantiations (c : dd_case) : bool :=
  match compared_pairs c with [] => false | _ => true end.
(** ... in a registry where something was renamed (the clause has something to say) *)
Definition hyp_instantiations_renamed (c : dd_case) : bool := hyp_instantiations c && hyp_renamed c.
(** same-label pairs left out because their skeletons differ *)
Definition hyp_instantiations_skel_differ (c : dd_case) : bool :=
  let sk := dd_skels c in
  existsb (fun ij : N * N => skel_differ sk (fst ij) (snd ij)) (inst_pairs c).

(** classifiers for the recorded unsoundness of [types_equal] (utils.rs:101-281): the family
    that is conflated is not skeleton-consistent although generation succeeded *)
Definition inconsistent_case (t : tg_case) : bool :=
  hyp_gen_ok t && negb (skeleton_consistentb (tg_reg t) (settings_of (tg_spec t))).

Definition arity_differs (t : tg_case) : bool :=
  let r := tg_reg t in
  let s := settings_of (tg_spec t) in
  existsb (fun e =>
             item_eligible s (snd e) &&
             match find (fun e' => path_eqb (t_path (snd e')) (t_path (snd e)) && item_eligible s (snd e')) r with
             | Some e' => negb (Nat.eqb (List.length (param_ids (snd e))) (List.length (param_ids (snd e'))))
             | None => false
             end) r.

Definition which (c : dd_case) : list tg_case :=
  (if faithful_obs (dd_before c) then [] else [dd_before c]) ++
  match dd_after c with Some a => if faithful_obs a then [] else [a] | None => [] end.

(** F2: same-path types with different numbers of type parameters are judged equal *)
Definition known_TE_arity (c : dd_case) : bool :=
  match which c with [] => false | l => forallb (fun t => inconsistent_case t && arity_differs t) l end.
(** F1 / F3 / F14: equal parameter counts, but the both-visited or same-id shortcut, or a
    difference "explained" by a nested generic's parameter, hides a difference *)
Definition known_TE_unsound (c : dd_case) : bool :=
  match which c with
  | [] => false
  | l => forallb (fun t => inconsistent_case t && negb (arity_differs t) && known_F3_conflation t) l
  end.
Definition corr_teq_trace_dd (c : dd_case) : bool :=
  corr_teq_trace (dd_before c) && match dd_after c with Some a => corr_teq_trace a | None => true end.
