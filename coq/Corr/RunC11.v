(** Correspondence and property checkers for C11 (settings validation, similar paths).
    [corr_*] compare the model ([validate], [similar_type_paths] of Model/Builders.v)
    with the observation; [prop_*] are written from the property text over the
    history (via the specifications of Model/BuildersSpec.v) and do not call
    [validate] / [apply_op]. *)
From Coq Require Import List NArith String Bool.
From V Require Import Base.Util Base.Strings Base.Result Model.Registry Model.Settings Model.Subst
  Model.Derives Model.Builders Model.BuildersSpec.
Import ListNotations.
Open Scope string_scope. Open Scope list_scope.

(** the error, canonicalised by the harness: entries sorted by path token string
    (substitutes: by source segments), the sets inside as sorted key lists *)
Record vobs := mk_vobs {
  vo_derives : list (string * list string);
  vo_attrs : list (string * list string);
  vo_subs : list (list string * list string) }.
Inductive vres := VOk | VErr (v : vobs) | VPanic.

Record c11_case := mk_c11 {
  c_reg : registry;
  c_ops : list op;
  c_res : vres;
  (* query (identifier segments), observed result (None = panic) *)
  c_sim : list (list string * option (list (list string))) }.

Definition strs_eqb : list string -> list string -> bool := list_eqb String.eqb.
Definition keyed_eqb (a b : string * list string) : bool :=
  String.eqb (fst a) (fst b) && strs_eqb (snd a) (snd b).
Definition sub_eqb (a b : list string * list string) : bool :=
  path_eqb (fst a) (fst b) && strs_eqb (snd a) (snd b).
Definition vobs_eqb (a b : vobs) : bool :=
  list_eqb keyed_eqb (vo_derives a) (vo_derives b) && list_eqb keyed_eqb (vo_attrs a) (vo_attrs b)
  && list_eqb sub_eqb (vo_subs a) (vo_subs b).
Definition vres_eqb (a b : vres) : bool :=
  match a, b with
  | VOk, VOk => true
  | VErr x, VErr y => vobs_eqb x y
  | VPanic, VPanic => true
  | _, _ => false
  end.

Fixpoint insert_keyed {A} (x : string * A) (l : list (string * A)) : list (string * A) :=
  match l with
  | [] => [x]
  | y :: l' => match String.compare (fst x) (fst y) with
               | Gt => y :: insert_keyed x l'
               | _ => x :: l
               end
  end.
Definition sort_keyed {A} (l : list (string * A)) : list (string * A) := fold_right insert_keyed [] l.
Fixpoint insert_sub {A} (x : list string * A) (l : list (list string * A)) : list (list string * A) :=
  match l with
  | [] => [x]
  | y :: l' => match path_compare (fst x) (fst y) with
               | Gt => y :: insert_sub x l'
               | _ => x :: l
               end
  end.
Definition sort_subs {A} (l : list (list string * A)) : list (list string * A) := fold_right insert_sub [] l.

(** ** correspondence *)
Definition canon_keyed (m : list (string * list kt)) : list (string * list string) :=
  sort_keyed (map (fun '(k, l) => (k, map fst (sort_dedup l))) m).

Definition model_vres (c : c11_case) : vres :=
  let st := fst (run_ops (c_ops c)) in
  let e := validate (b_subs st) (b_dreg st) (c_reg c) in
  if verror_is_empty e then VOk
  else VErr (mk_vobs (canon_keyed (ve_derives e)) (canon_keyed (ve_attrs e)) (sort_subs (ve_subs e))).

Definition corr_validate (c : c11_case) : bool := vres_eqb (model_vres c) (c_res c).

Definition corr_similar (c : c11_case) : bool :=
  forallb (fun '(q, o) => option_eqb (list_eqb path_eqb) (Some (similar_type_paths (c_reg c) q)) o) (c_sim c).

(** ** property checkers (from the property text) *)
Definition in_registry (r : registry) (p : list string) : bool := negb (unknown r p).

(** the keys registered by the history, with their recursive flag *)
Definition keyed_ops (ops : list op) : list (tykey * bool) :=
  flat_map (fun o => match o with OpDerivesFor k _ r | OpAttrsFor k _ r => [(k, r)] | _ => [] end) ops.

Fixpoint dedup_paths (l : list (list string)) : list (list string) :=
  match l with
  | [] => []
  | x :: l' => let d := dedup_paths l' in if existsb (path_eqb x) d then d else x :: d
  end.
Definition sub_sources (ops : list op) : list (list string) :=
  dedup_paths (flat_map (fun o => match o with
                                  | OpSubInsert s _ | OpSubInsertIfAbsent s _ => [idents s]
                                  | OpSubExtend l => map (fun p => idents (fst p)) l
                                  | _ => []
                                  end) ops).
(** source keys that carry a rule after the history (three-line specification) *)
Definition final_sub_keys (ops : list op) : list (list string) :=
  filter (fun k => is_some (spec_rule ops k)) (sub_sources ops).

Definition all_known (ops : list op) (r : registry) : bool :=
  forallb (fun '(k, rec) =>
             implb (nonempty (spec_key_derives rec (k_key k) ops) || nonempty (spec_key_attrs rec (k_key k) ops))
                   (in_registry r (k_segs k))) (keyed_ops ops)
  && forallb (in_registry r) (final_sub_keys ops).

Definition prop_validate_iff (c : c11_case) : bool :=
  match c_res c with
  | VOk => all_known (c_ops c) (c_reg c)
  | VErr _ => negb (all_known (c_ops c) (c_reg c))
  | VPanic => false
  end.

Fixpoint ins_str (x : string) (l : list string) : list string :=
  match l with
  | [] => [x]
  | y :: l' => match String.compare x y with
               | Lt => x :: l
               | Eq => l
               | Gt => y :: ins_str x l'
               end
  end.
Definition sorted_set (l : list string) : list string := fold_right ins_str [] l.

Fixpoint dedup_keyed {A} (l : list (string * A)) : list (string * A) :=
  match l with
  | [] => []
  | x :: l' => let d := dedup_keyed l' in if existsb (fun y => String.eqb (fst x) (fst y)) d then d else x :: d
  end.

(** each unknown path once, with the union of everything registered for it (specific + recursive) *)
Definition expected_unknown (for_key : bool -> string -> list op -> list kt) (ops : list op) (r : registry)
  : list (string * list string) :=
  sort_keyed (dedup_keyed
    (flat_map (fun '(k, _) =>
                 let K := k_key k in
                 let l := for_key false K ops ++ for_key true K ops in
                 if unknown r (k_segs k) && nonempty l then [(K, sorted_set (map fst l))] else [])
              (keyed_ops ops))).

Definition expected_unknown_subs (ops : list op) (r : registry) : list (list string * list string) :=
  sort_subs (flat_map (fun k => match spec_rule ops k with
                                | Some v => if unknown r k then [(k, print_spath (su_path v))] else []
                                | None => []
                                end) (sub_sources ops)).

Definition prop_error_exact (c : c11_case) : bool :=
  match c_res c with
  | VOk => true
  | VPanic => false
  | VErr v =>
      list_eqb keyed_eqb (vo_derives v) (expected_unknown spec_key_derives (c_ops c) (c_reg c))
      && list_eqb keyed_eqb (vo_attrs v) (expected_unknown spec_key_attrs (c_ops c) (c_reg c))
      && list_eqb sub_eqb (vo_subs v) (expected_unknown_subs (c_ops c) (c_reg c))
  end.

Definition prop_similar (c : c11_case) : bool :=
  forallb (fun '(q, o) => option_eqb (list_eqb path_eqb) (Some (spec_similar (c_reg c) q)) o) (c_sim c).

(** ** coverage counters *)
Definition hyp_invalid (c : c11_case) : bool := match c_res c with VErr _ => true | _ => false end.
Definition hyp_multi_unknown (c : c11_case) : bool :=
  match c_res c with
  | VErr v => Nat.leb 2 (List.length (vo_derives v) + List.length (vo_attrs v) + List.length (vo_subs v))
  | _ => false
  end.
Definition hyp_merged_unknown (c : c11_case) : bool :=
  existsb (fun '(k, _) => unknown (c_reg c) (k_segs k)
                          && nonempty (spec_key_derives false (k_key k) (c_ops c))
                          && nonempty (spec_key_derives true (k_key k) (c_ops c))) (keyed_ops (c_ops c)).
Definition hyp_similar_nonempty (c : c11_case) : bool :=
  existsb (fun '(_, o) => match o with Some (_ :: _) => true | _ => false end) (c_sim c).
