(** Property checkers evaluated on the implementation's observed outputs (TG cases). *)
From Coq Require Import List NArith String Bool.
From V Require Import Base.Util Base.Strings Base.Result Model.Registry Model.Settings Model.Subst
  Model.TypePath Model.Derives Model.Generate Model.Emit Model.Equal Model.WellFormed Model.Builders
  Model.SubstSpec
  Checkers.Parse Checkers.Sem Corr.RunTG Corr.TeqTrace.
Require V.Model.Shape.
Import ListNotations.
Open Scope string_scope. Open Scope list_scope.

Definition hyp_gen_ok (c : tg_case) : bool :=
  match tg_gen c with OOk _ => true | _ => false end.

Definition corr_case (c : tg_case) : bool :=
  corr_ops c && corr_gen c && corr_paths c && corr_upcasts c && corr_dedup_obs c.

Definition corr_pair (p : tg_pair) : bool := corr_case (tp_a p) && corr_case (tp_b p).

Definition hyp_both_ok (p : tg_pair) : bool := hyp_gen_ok (tp_a p) && hyp_gen_ok (tp_b p).

(* placeholders, replaced below as the checkers land *)

Definition fenv_of (s : settings) : fenv :=
  mk_fenv (s_root s) (toks_to_segs (alloc_tokens (s_alloc s))) (option_map toks_to_segs (s_compact s))
          (option_map toks_to_segs (s_bits s)) (s_subs s) (s_codec s).

(** item-eligible: what the generation loop turns into an item *)
Definition item_eligible (s : settings) (t : ty) : bool :=
  is_composite_or_variant (t_def t) && negb (subs_contains (s_subs s) (t_path t)) &&
  match namespace (t_path t) with [] => false | _ => true end.

(** [skeleton_consistent] (DESIGN 3.3): every item-eligible entry has the same
    skeleton as the first entry with its path; skeletons are compared through
    their tokens, which contain everything but the concrete ids *)
Definition skeleton_tokens (r : registry) (s : settings) (t : ty) : option tokens :=
  match create_type_ir r s t (mk_flat derives_empty []) with
  | Ok (Some ir) => match type_ir_tokens s ir with Ok tk => Some tk | _ => None end
  | _ => None
  end.

Definition skeleton_consistentb (r : registry) (s : settings) : bool :=
  forallb (fun e =>
             let t := snd e in
             if item_eligible s t then
               match find (fun e' => path_eqb (t_path (snd e')) (t_path t) && item_eligible s (snd e')) r with
               | Some e' => match skeleton_tokens r s t, skeleton_tokens r s (snd e') with
                            | Some a, Some b => tokens_eqb a b
                            | _, _ => false
                            end
               | None => false
               end
             else true) r.

(** the hypotheses of the pinned theorem [C01_fidelity]: Model/Shape.v's skeleton consistency
    (erased IRs are equal) and root freshness, evaluated on every generated input *)
Definition hyp_coincidence_free (c : tg_case) : bool :=
  V.Model.Shape.skeleton_consistentb (tg_reg c) (settings_of (tg_spec c)) &&
  V.Model.Shape.root_freshb (settings_of (tg_spec c)).

(** the token-based variant (skeletons compared through their emitted tokens) *)
Definition hyp_skeleton_tokens (c : tg_case) : bool :=
  skeleton_consistentb (tg_reg c) (settings_of (tg_spec c)).

(** C01 on the observed output: every id whose path was resolved is faithfully
    represented by the parsed observed module *)
Definition faithful_obs (c : tg_case) : bool :=
  let r := tg_reg c in
  let s := settings_of (tg_spec c) in
  match tg_gen c with
  | OOk toks =>
      match parse_module toks with
      | None => false
      | Some m =>
          forallb (fun '(id, o) =>
                     match o with
                     | OOk pt => match parse_type pt with
                                 | Some t => faithful_id r (fenv_of s) m
                                               (fun i => match nth_error (tg_paths c) (N.to_nat i) with
                                                         | Some (OOk x) => parse_type x
                                                         | _ => None
                                                         end) id t
                                 | None => false
                                 end
                     | _ => true
                     end) (combine (ids_of r) (tg_paths c))
      end
  | _ => true
  end.

Definition prop_faithful (c : tg_case) : bool :=
  if hyp_coincidence_free c then faithful_obs c else true.
(** the same without the skeleton-consistency hypothesis: whenever generation succeeds every id is
    faithfully represented.  On same-path families whose members differ this can only fail when
    [types_equal] wrongly judged them equal - the recorded finding F3 (classifier
    [known_F3_conflation]: generation succeeded although the family is not skeleton-consistent; the
    driver attributes a failure to it only if the model reproduces the implementation's output) *)
(** Registry-level reading of "coincidence-free" (the property's quantifier; DESIGN 3.3): for every
    item-eligible entry the ids bound to its non-skipped parameters are pairwise distinct, and in
    every field each structural occurrence of such an id (through sequences, arrays, tuples,
    compact, bit sequences and the ARGUMENTS of named types, not into their fields) is accounted for
    by an occurrence of the parameter's NAME in the field's recorded type name.  An occurrence
    without a name is a concrete type that merely coincides with an argument - outside the class. *)
Fixpoint occ_id (r : registry) (fuel : nat) (p id : N) : nat :=
  match fuel with
  | O => 1%nat   (* out of fuel: report an occurrence, i.e. treat as outside the class *)
  | S fuel' =>
      if N.eqb id p then 1%nat
      else match resolve r id with
           | None => O
           | Some t =>
               match t_def t with
               | TDSequence x | TDArray _ x | TDCompact x => occ_id r fuel' p x
               | TDTuple xs => fold_right (fun x acc => (occ_id r fuel' p x + acc)%nat) O xs
               | TDBitSeq st od => (occ_id r fuel' p st + occ_id r fuel' p od)%nat
               | TDComposite _ | TDVariant _ =>
                   fold_right (fun x acc => (occ_id r fuel' p x + acc)%nat) O (param_ids t)
               | TDPrimitive _ => O
               end
           end
  end.

(** identifier tokens of a recorded type name: maximal runs of letters, digits and [_] *)
Fixpoint ident_tokens_go (s : string) (cur : string) (acc : list string) : list string :=
  match s with
  | EmptyString => if String.eqb cur "" then acc else cur :: acc
  | String ch s' =>
      if is_alpha ch || is_digit ch || is_underscore ch
      then ident_tokens_go s' (cur ++ String ch EmptyString) acc
      else ident_tokens_go s' "" (if String.eqb cur "" then acc else cur :: acc)
  end.
Definition ident_tokens (s : string) : list string := ident_tokens_go s "" [].
Definition count_str (x : string) (l : list string) : nat :=
  List.length (filter (String.eqb x) l).

Definition all_fields (t : ty) : list field :=
  match t_def t with
  | TDComposite fs => fs
  | TDVariant vs => flat_map v_fields vs
  | _ => []
  end.

Definition named_params (t : ty) : list (string * N) :=
  flat_map (fun p => match tp_ty p with Some i => [(tp_name p, i)] | None => [] end) (t_params t).

Fixpoint nodup_N (l : list N) : bool :=
  match l with [] => true | x :: l' => negb (mem_N x l') && nodup_N l' end.

Definition cf_entry (r : registry) (t : ty) : bool :=
  let ps := named_params t in
  nodup_N (map snd ps) &&
  forallb (fun f =>
             let toks := ident_tokens (match f_type_name f with Some n => n | None => "" end) in
             forallb (fun np : string * N =>
                        Nat.leb (occ_id r (S (List.length r)) (snd np) (f_ty f)) (count_str (fst np) toks)) ps)
          (all_fields t).

Definition hyp_cf_reg (c : tg_case) : bool :=
  let s := settings_of (tg_spec c) in
  forallb (fun e => if item_eligible s (snd e) then cf_entry (tg_reg c) (snd e) else true) (tg_reg c).

Definition prop_faithful_all (c : tg_case) : bool :=
  if V.Model.Shape.root_freshb (settings_of (tg_spec c)) && hyp_cf_reg c then faithful_obs c else true.
(** positions (= ids) of the item-eligible entries whose skeleton differs from the skeleton of the
    first eligible entry with their path, paired with that first entry: the comparisons
    [types_equal later first] that must have said "equal" for generation to succeed *)
Definition conflated_pairs (r : registry) (s : settings) : list (N * N) :=
  flat_map (fun e =>
              if V.Model.Shape.item_eligible s (snd e) then
                match V.Model.Shape.first_eligible r s (t_path (snd e)) with
                | Some e0 =>
                    match create_type_ir r s (snd e) V.Model.Shape.flat0,
                          create_type_ir r s (snd e0) V.Model.Shape.flat0 with
                    | Ok (Some a), Ok (Some b) =>
                        if V.Model.Shape.skel_eqb (V.Model.Shape.erase_ids a) (V.Model.Shape.erase_ids b)
                        then [] else [(fst e, fst e0)]
                    | _, _ => [(fst e, fst e0)]
                    end
                | None => []
                end
              else []) r.

(** every conflation is decided by one of the F3 shortcuts (Corr/TeqTrace.v), none by plain
    structural comparison alone *)
Definition conflations_by_shortcut (r : registry) (s : settings) : bool :=
  match conflated_pairs r s with
  | [] => false
  | l => forallb (fun ab => match types_equal_traced r (fst ab) (snd ab) with
                            | Ok (true, hits) => N.ltb 0 hits
                            | _ => false
                            end) l
  end.

Definition known_F3_conflation (c : tg_case) : bool :=
  match tg_gen c with
  | OOk _ => conflations_by_shortcut (tg_reg c) (settings_of (tg_spec c))
  | _ => false
  end.

(** the traced copy of [types_equal] gives the model's verdict on every same-path pair *)
Definition corr_teq_trace (c : tg_case) : bool :=
  let r := tg_reg c in
  let s := settings_of (tg_spec c) in
  forallb (fun e =>
             if V.Model.Shape.item_eligible s (snd e) then
               match V.Model.Shape.first_eligible r s (t_path (snd e)) with
               | Some e0 => traced_agrees r (fst e) (fst e0)
               | None => true
               end
             else true) r.
Definition prop_syn_parses (c : tg_case) : bool := tg_syn_ok c.
Definition parsed (c : tg_case) : option pmod :=
  match tg_gen c with OOk t => parse_module t | _ => None end.
Definition prop_closed (c : tg_case) : bool :=
  let s := settings_of (tg_spec c) in
  match tg_gen c with
  | OOk t =>
      match parse_module t with
      | Some m =>
          closedb (s_root s) m &&
          forallb (fun o => match o with
                            | OOk pt => match parse_type pt with
                                        | Some ty => path_closedb (s_root s) m ty
                                        | None => false
                                        end
                            | _ => true
                            end) (tg_paths c)
      | None => false
      end
  | _ => true
  end.
(** C02, "every cycle between generated types passes through heap indirection": the by-value graph
    of the parsed observed module is acyclic ([Checkers/Sem.v], [sizedb]) *)
Definition prop_sized (c : tg_case) : bool :=
  let s := settings_of (tg_spec c) in
  match tg_gen c with
  | OOk t =>
      match parse_module t with
      | Some m => sizedb (s_root s) (fe_alloc (fenv_of s)) (fe_compact (fenv_of s)) true m
      | None => false
      end
  | _ => true
  end.

(** hit counter: the observed module is recursive at all (some item reaches itself once the heap
    types are read as transparent too), so [prop_sized] had a cycle to see through *)
Definition hyp_recursive_items (c : tg_case) : bool :=
  let s := settings_of (tg_spec c) in
  match tg_gen c with
  | OOk t =>
      match parse_module t with
      | Some m => negb (sizedb (s_root s) (fe_alloc (fenv_of s)) (fe_compact (fenv_of s)) false m)
      | None => false
      end
  | _ => false
  end.

(** ** C07 on observed outputs *)
Definition mentions_path (root : string) (p : list string) (t : pty) : bool :=
  existsb (fun ls : bool * list (string * list pty) =>
             negb (fst ls) && list_eqb String.eqb (map fst (snd ls)) (root :: p)) (pty_paths t).

Definition obs_path (c : tg_case) (id : N) : option tokens :=
  match nth_error (tg_paths c) (N.to_nat id) with Some (OOk t) => Some t | _ => None end.

(** [subst_spec]: Model/SubstSpec.v (the token-level specification, proved equal to the structural
    replacement under explicit side conditions in Proofs/SubstSpec.v, pinned as [C07_specified]) *)
Definition prop_subst (c : tg_case) : bool :=
  let r := tg_reg c in
  let s := settings_of (tg_spec c) in
  let subs := filter (fun kv => negb (match fst kv with [_] => true | _ => false end)) (s_subs s) in
  match tg_gen c with
  | OOk toks =>
      match parse_module toks with
      | None => false
      | Some m =>
          forallb (fun kv =>
                     match lookup_item m (fst kv) with Some _ => false | None => true end &&
                     forallb (fun pit : list string * pitem =>
                                forallb (fun t => negb (mentions_path (s_root s) (fst kv) t))
                                        (item_field_types (snd pit))) (all_items m []) &&
                     forallb (fun o => match o with
                                       | OOk pt => match parse_type pt with
                                                   | Some t => negb (mentions_path (s_root s) (fst kv) t)
                                                   | None => true
                                                   end
                                       | _ => true
                                       end) (tg_paths c)) subs &&
          (* pass-through rules: target applied to the observed resolved arguments in order *)
          forallb (fun '(id, e) =>
                     let t := snd e in
                     if is_composite_or_variant (t_def t) then
                       match subs_get (s_subs s) (t_path t), obs_path c id with
                       | Some sub, Some o =>
                           match su_map sub with
                           | PassThrough =>
                               let args := map (obs_path c) (param_ids t) in
                               if forallb (fun a => match a with Some _ => true | None => false end) args then
                                 let argt := flat_map (fun a => match a with Some x => [x] | None => [] end) args in
                                 tokens_eqb o (print_spath (su_path sub) ++
                                               match argt with
                                               | [] => []
                                               | _ => ["<"] ++ sep_by [","] argt ++ [">"]
                                               end)
                               else true
                           | Specified m =>
                               (* token-level specification of the parameter mapping, written
                                  independently of [replace_spath]: a bare occurrence of a source
                                  parameter name is replaced by the observed resolved argument *)
                               let args := map (obs_path c) (param_ids t) in
                               if forallb (fun a => match a with Some _ => true | None => false end) args then
                                 let names := flat_map (fun ni : string * nat =>
                                                          match nth_error args (snd ni) with
                                                          | Some (Some a) => [(fst ni, a)]
                                                          | _ => []
                                                          end) m in
                                 tokens_eqb o (subst_spec names "" (print_spath (su_path sub)))
                               else true
                           end
                       | _, _ => true
                       end
                     else true) (combine (ids_of r) r)
      end
  | _ => true
  end.

(** finding F5 ([nonpath_mentions]: Model/SubstSpec.v): a source parameter name inside a NON-path
    type argument of the target (tuple, array, reference ...) is not replaced (substitutes.rs:289-303) *)
Definition known_F5 (c : tg_case) : bool :=
  existsb (fun kv : list string * substitute =>
             match su_map (snd kv) with
             | Specified m => nonpath_mentions (map fst m)
                                (GTPath false (sp_leading (su_path (snd kv))) (sp_segs (su_path (snd kv))))
             | PassThrough => false
             end) (s_subs (settings_of (tg_spec c))).

Definition hyp_has_subst (c : tg_case) : bool :=
  existsb (fun e => subs_contains (s_subs (settings_of (tg_spec c))) (t_path (snd e)) &&
                    negb (starts_with "bitvec" (hd "" (t_path (snd e))))) (tg_reg c).

(** ** C08 on observed outputs: derive / attribute sets per item *)
Definition children_of (r : registry) (id : N) : list N :=
  match resolve r id with Some t => collect_children t | None => [] end.

(** reachability as an iterated closure (independent of the DFS of the model); stops as soon as
    an iteration adds nothing *)
Fixpoint closure (n : nat) (r : registry) (set : list N) : list N :=
  match n with
  | O => set
  | S n' =>
      let next := fold_left (fun acc i => fold_left (fun acc c => if mem_N c acc then acc else c :: acc)
                                                    (children_of r i) acc) set set in
      if Nat.eqb (List.length next) (List.length set) then set else closure n' r next
  end.

Definition first_with_path (r : registry) (p : list string) : option N :=
  (fix go (i : N) (l : registry) :=
     match l with
     | [] => None
     | e :: l' => if path_eqb (t_path (snd e)) p then Some i else go (i + 1)%N l'
     end) 0%N r.

Definition tokset_subset (a b : list tokens) : bool := forallb (fun x => existsb (tokens_eqb x) b) a.
Definition tokset_eq (a b : list tokens) : bool := tokset_subset a b && tokset_subset b a.

Definition uint_prims : list string := ["u8"; "u16"; "u32"; "u64"; "u128"].

(** for every recursive registration (key = exactly a registry path): the derives and the paths
    of all entries reachable from the entries with that path *)
Definition recursive_reach (r : registry) (s : settings) : list (derives * list (list string)) :=
  flat_map (fun kd : tykey * derives =>
              if String.eqb (k_key (fst kd)) (path_key (k_segs (fst kd))) then
                let roots := flat_map (fun ie : N * (N * ty) =>
                                         if path_eqb (t_path (snd (snd ie))) (k_segs (fst kd))
                                         then [fst ie] else []) (combine (ids_of r) r) in
                let reach := closure (List.length r) r roots in
                [(snd kd, flat_map (fun i => match resolve r i with
                                             | Some t => [t_path t]
                                             | None => [] end) reach)]
              else []) (dr_recursive (s_dreg s)).

Definition expected_derives (r : registry) (s : settings) (rr : list (derives * list (list string)))
  (p : list string) (it : pitem)
  : list tokens * list tokens :=
  let dr := s_dreg s in
  let key := path_key p in
  let spec := match kmap_get (dr_specific dr) key with Some d => d | None => derives_empty end in
  let recs := flat_map (fun dp : derives * list (list string) =>
                          if existsb (path_eqb p) (snd dp) then [fst dp] else []) rr in
  let all := fold_left derives_union recs (derives_union (dr_default dr) spec) in
  let compact_as :=
    match s_compact_as s, first_with_path r p with
    | Some k, Some id =>
        match resolve r id with
        | Some t =>
            match t_def t, body_fields (pi_body it) with
            | TDComposite [f], pf :: _ =>
                match resolve r (uncow r (f_ty f)), pf_ty pf with
                | Some ft, PPath true segs =>
                    match t_def ft, path_is segs ["core"; "primitive"; last (map fst segs) ""] with
                    | TDPrimitive _, Some [] =>
                        if existsb (String.eqb (last (map fst segs) "")) uint_prims then [snd k] else []
                    | _, _ => []
                    end
                | _, _ => []
                end
            | _, _ => []
            end
        | None => []
        end
    | _, _ => []
    end in
  (map snd (d_derives all) ++ compact_as, map snd (d_attrs all)).

Definition prop_derives_exact (c : tg_case) : bool :=
  let r := tg_reg c in
  let s := settings_of (tg_spec c) in
  match tg_gen c with
  | OOk toks =>
      match parse_module toks with
      | None => false
      | Some m =>
          let rr := recursive_reach r s in
          forallb (fun pit : list string * pitem =>
                     let '(ed, ea) := expected_derives r s rr (fst pit) (snd pit) in
                     let od := derive_list (pi_attrs (snd pit)) in
                     let oa := map (fun a => "#" :: "[" :: a ++ ["]"])
                                   (filter (fun a => negb (attr_is "derive" a || attr_is "doc" a))
                                           (pi_attrs (snd pit))) in
                     tokset_eq od ed && tokset_eq oa ea &&
                     (* sorted by token string and duplicate free *)
                     (fix sorted (l : list tokens) :=
                        match l with
                        | a :: ((b :: _) as l') => str_ltb (key_of_tokens a) (key_of_tokens b) && sorted l'
                        | _ => true
                        end) od) (all_items m [])
      end
  | _ => true
  end.

Definition hyp_has_recursive (c : tg_case) : bool :=
  match dr_recursive (s_dreg (settings_of (tg_spec c))) with [] => false | _ => true end.

(** ** C10 *)
Definition prop_fault_expect (c : tg_case) : bool :=
  match tg_expect c with
  | None => true
  | Some (k, nums) =>
      match tg_gen c with
      | OErr k' nums' _ => String.eqb k k' && list_eqb N.eqb nums nums'
      | _ => false
      end &&
      (* the id-mismatch error is reported by de-duplication as well *)
      (if String.eqb k "RegistryTypeIdsInvalid" then
         match tg_dedup c with
         | OErr k' nums' _ => String.eqb k k' && list_eqb N.eqb nums nums'
         | _ => false
         end
       else true)
  end.

(** decidable well-formedness of the input (DESIGN 3.1 / 3.2, the clauses generation depends on):
    [wf_regb], [supportedb], [rank_ok] live in Model/WellFormed.v - the very predicates the
    universal theorems C10_total_wf / C10_resolve_total_wf are stated on *)
Definition hyp_wf (c : tg_case) : bool :=
  wf_regb (tg_reg c) && supportedb (tg_reg c) (settings_of (tg_spec c)).

(** on well-formed input generation is Ok or the duplicate-path error, never a panic *)
Definition prop_wf_total (c : tg_case) : bool :=
  if hyp_wf c then
    match tg_gen c with
    | OOk _ => true
    | OErr k _ _ => String.eqb k "DuplicateTypePath"
    | OPanic => false
    end &&
    forallb (fun o => match o with OOk _ => true | _ => false end) (tg_paths c) &&
    match tg_dedup c with OOk _ => true | _ => false end
  else true.

(** ** C10, missing settings paths (G4) and dangling ids at every site (G5).

    An independent statement of what [resolve_type_path_recurse] (typegen/src/typegen/mod.rs:327-454)
    visits, read off the Rust source and written as an ORDER-FREE reachability over the registry - not
    as a call of the model's [resolve_rec], and not with the model's [collect_children]:

    - an id answered by a parent parameter (same concrete id; at a field's root additionally the
      recorded type name, if any, must be the parameter's name) is not expanded;
    - an id without entry fails with TypeNotFound(id);
    - an entry whose last path segment is [Cow] is replaced by the entry of its first parameter
      (one level; that id may be missing as well);
    - then the typed parameters of the entry are visited, then its structural children: the element
      of a sequence / array, the elements of a tuple, the inner type of a compact (visited BEFORE the
      compact path is consulted), order and store of a bit sequence (visited only AFTER the bits path
      was found); composite / variant entries are not descended into;
    - a compact entry fails with CompactPathNone when the settings have no compact path, a
      bit-sequence entry with DecodedBitsPathNone when they have no bits path.

    The set of failures met by the closure is collected.  Which failure is REPORTED depends on the
    visiting order when several different ones are reachable; nothing is claimed then ([DUnsure]).
    When all reachable failures are one and the same, that one must be observed; when there is none,
    the call must succeed. *)
Inductive dfail := FMissing (m : N) | FCompact | FBits | FOther.

Definition dfail_eqb (a b : dfail) : bool :=
  match a, b with
  | FMissing x, FMissing y => N.eqb x y
  | FCompact, FCompact | FBits, FBits | FOther, FOther => true
  | _, _ => false
  end.

Definition cow_named (t : ty) : bool :=
  match t_path t with [] => false | p => String.eqb (last p "") "Cow" end.

(** what one call does with the id it is given: (failures raised at this node, ids it recurses into) *)
Definition descent_step (r : registry) (s : settings) (id : N) : list dfail * list N :=
  match resolve r id with
  | None => ([FMissing id], [])
  | Some t0 =>
      let through : ty + dfail :=
        if cow_named t0 then
          match t_params t0 with
          | p0 :: _ =>
              match tp_ty p0 with
              | Some i => match resolve r i with Some t => inl t | None => inr (FMissing i) end
              | None => inr FOther
              end
          | [] => inr FOther
          end
        else inl t0 in
      match through with
      | inr f => ([f], [])
      | inl t =>
          let ps := flat_map (fun p => match tp_ty p with Some i => [i] | None => [] end) (t_params t) in
          match t_def t with
          | TDComposite _ | TDVariant _ | TDPrimitive _ => ([], ps)
          | TDSequence e | TDArray _ e => ([], ps ++ [e])
          | TDTuple es => ([], ps ++ es)
          | TDCompact e => (match s_compact s with None => [FCompact] | Some _ => [] end, ps ++ [e])
          | TDBitSeq st od =>
              match s_bits s with
              | None => ([FBits], ps)
              | Some _ => ([], ps ++ [od; st])
              end
          end
      end
  end.

Fixpoint nodup_keep (seen : list N) (l : list N) : list N :=
  match l with
  | [] => []
  | x :: l' => if existsb (N.eqb x) seen then nodup_keep seen l' else x :: nodup_keep (x :: seen) l'
  end.

(** closure in rounds: every round expands the not yet expanded ids of the frontier that are not
    answered by a parent parameter ([stop]); [None] = round budget exhausted *)
Fixpoint descent_rounds (n : nat) (r : registry) (s : settings) (stop visited frontier : list N)
  (fails : list dfail) : option (list dfail) :=
  match nodup_keep (stop ++ visited) frontier with
  | [] => Some fails
  | todo =>
      match n with
      | O => None
      | S n' =>
          let ex := map (descent_step r s) todo in
          descent_rounds n' r s stop (todo ++ visited) (flat_map snd ex) (flat_map fst ex ++ fails)
      end
  end.

Definition all_ref_ids (r : registry) : list N :=
  flat_map (fun e => flat_map (fun p => match tp_ty p with Some i => [i] | None => [] end) (t_params (snd e)) ++
                     match t_def (snd e) with
                     | TDComposite fs => map f_ty fs
                     | TDVariant vs => flat_map (fun v => map f_ty (v_fields v)) vs
                     | TDSequence e | TDArray _ e | TDCompact e => [e]
                     | TDTuple es => es
                     | TDPrimitive _ => []
                     | TDBitSeq a b => [a; b]
                     end) r.

Definition descent_budget (r : registry) : nat := S (List.length r + List.length (all_ref_ids r)).

Inductive dverdict := DClean | DFail (f : dfail) | DUnsure.

Definition verdict_of (fs : option (list dfail)) : dverdict :=
  match fs with
  | None => DUnsure
  | Some [] => DClean
  | Some (f :: l) =>
      if forallb (dfail_eqb f) l then match f with FOther => DUnsure | _ => DFail f end else DUnsure
  end.

(** [resolve_type_path id]: no parent parameters *)
Definition path_verdict (r : registry) (s : settings) (id : N) : dverdict :=
  verdict_of (descent_rounds (descent_budget r) r s [] [] [id] []).

(** the typed parameters of an entry: (recorded name, concrete id) *)
Definition typed_params (t : ty) : list (string * N) :=
  flat_map (fun p => match tp_ty p with Some i => [(tp_name p, i)] | None => [] end) (t_params t).

(** [resolve_field_type_path] for one field of the entry [t] *)
Definition field_verdict (r : registry) (s : settings) (t : ty) (f : field) : dverdict :=
  let ps := typed_params t in
  if existsb (fun np : string * N =>
                N.eqb (snd np) (f_ty f) &&
                match f_type_name f with None => true | Some n => String.eqb (fst np) n end) ps
  then DClean
  else
    let '(f0, ch) := descent_step r s (f_ty f) in
    verdict_of (descent_rounds (descent_budget r) r s (map snd ps) [f_ty f] ch f0).

(** what the generation loop turns into an item (mod.rs:84-100), restated *)
Definition loop_item (s : settings) (t : ty) : bool :=
  match t_def t with TDComposite _ | TDVariant _ => true | _ => false end &&
  negb (subs_contains (s_subs s) (t_path t)) &&
  match t_path t with [] | [_] => false | _ => true end.

Definition entry_fields (t : ty) : list field :=
  match t_def t with
  | TDComposite fs => fs
  | TDVariant vs => flat_map v_fields vs
  | _ => []
  end.

(** first non-clean verdict among the fields of an entry, in field order *)
Fixpoint first_unclean (l : list dverdict) : dverdict :=
  match l with
  | [] => DClean
  | DClean :: l' => first_unclean l'
  | v :: _ => v
  end.

(** generation visits the entries in registry order and the fields of an item in field order; the
    first field that is not clean decides.  [may_dup]: an item path was met a second time before that
    point - [types_equal] is consulted there and may end the run with DuplicateTypePath, about
    which nothing is said here. *)
Fixpoint gen_verdict_go (r : registry) (s : settings) (l : registry) (seen : list (list string))
  (may_dup : bool) : dverdict * bool :=
  match l with
  | [] => (DClean, may_dup)
  | e :: l' =>
      let t := snd e in
      if loop_item s t then
        match first_unclean (map (field_verdict r s t) (entry_fields t)) with
        | DClean =>
            if existsb (path_eqb (t_path t)) seen then gen_verdict_go r s l' seen true
            else gen_verdict_go r s l' (t_path t :: seen) may_dup
        | v => (v, may_dup)
        end
      else gen_verdict_go r s l' seen may_dup
  end.

Definition gen_verdict (r : registry) (s : settings) : dverdict * bool := gen_verdict_go r s r [] false.

Definition obs_is_fail {A} (f : dfail) (o : obs A) : bool :=
  match o with
  | OErr k nums _ =>
      match f with
      | FMissing m => String.eqb k "TypeNotFound" && list_eqb N.eqb nums [m]
      | FCompact => String.eqb k "CompactPathNone" && list_eqb N.eqb nums []
      | FBits => String.eqb k "DecodedBitsPathNone" && list_eqb N.eqb nums []
      | FOther => false
      end
  | _ => false
  end.

Definition obs_is_dup {A} (o : obs A) : bool :=
  match o with OErr k _ _ => String.eqb k "DuplicateTypePath" | _ => false end.

Definition obs_meets {A} (v : dverdict) (o : obs A) : bool :=
  match v with
  | DUnsure => true
  | DClean => match o with OOk _ => true | _ => false end
  | DFail f => obs_is_fail f o
  end.

(** [dangling]: the registry has a dangling reference.  [types_equal] walks the fields of the two
    entries it compares on its own and panics on an id without entry ([expect], utils.rs), so once an
    item path was met a second time ([snd vd]) nothing is claimed for such a registry (C10 quantifies
    over bases with unique paths).  Missing settings paths do not concern [types_equal]: there the
    outcome is the predicted one or DuplicateTypePath. *)
Definition gen_meets {A} (dangling : bool) (vd : dverdict * bool) (o : obs A) : bool :=
  if snd vd && dangling then true else
  match fst vd with
  | DUnsure => true
  | DClean => match o with OOk _ => true | _ => snd vd && obs_is_dup o end
  | DFail f => obs_is_fail f o || (snd vd && obs_is_dup o)
  end.

(** the base of a single-fault input: redirect every dangling reference to a fresh [u8] entry; the
    repaired registry must be well-formed (DESIGN 3.1).  Without dangling references this is the
    registry itself plus an unused entry. *)
Definition map_field_ids (g : N -> N) (f : field) : field :=
  mk_field (f_name f) (g (f_ty f)) (f_type_name f) (f_docs f).
Definition map_def_ids (g : N -> N) (d : typedef) : typedef :=
  match d with
  | TDComposite fs => TDComposite (map (map_field_ids g) fs)
  | TDVariant vs => TDVariant (map (fun v => mk_variant (v_name v) (map (map_field_ids g) (v_fields v))
                                                        (v_index v) (v_docs v)) vs)
  | TDSequence t => TDSequence (g t)
  | TDArray len t => TDArray len (g t)
  | TDTuple ts => TDTuple (map g ts)
  | TDPrimitive p => TDPrimitive p
  | TDCompact t => TDCompact (g t)
  | TDBitSeq a b => TDBitSeq (g a) (g b)
  end.
Definition map_ty_ids (g : N -> N) (t : ty) : ty :=
  mk_ty (t_path t) (map (fun p => mk_tparam (tp_name p) (option_map g (tp_ty p))) (t_params t))
        (map_def_ids g (t_def t)) (t_docs t).
Definition repair_reg (r : registry) : registry :=
  let n := N.of_nat (List.length r) in
  map (fun e => (fst e, map_ty_ids (fun i => if N.leb n i then n else i) (snd e))) r ++
  [(n, mk_ty [] [] (TDPrimitive PU8) [])].

Definition dangling_refs (r : registry) : list N :=
  filter (fun i => N.leb (N.of_nat (List.length r)) i) (all_ref_ids r).

(** everything else generation depends on is in order: ids = positions, the repaired registry is
    well-formed, the root is an identifier, no recursive derives (their flattening walks the registry
    on its own) *)
Definition descent_base_ok (c : tg_case) : bool :=
  let r := tg_reg c in
  let s := settings_of (tg_spec c) in
  ids_consistent r && wf_regb (repair_reg r) && ident_okb (s_root s) &&
  match dr_recursive (s_dreg s) with [] => true | _ => false end.

Definition descent_claims (c : tg_case) : bool :=
  let r := tg_reg c in
  let s := settings_of (tg_spec c) in
  Nat.eqb (List.length (tg_paths c)) (List.length r) &&
  forallb (fun io : N * obs tokens => obs_meets (path_verdict r s (fst io)) (snd io))
          (combine (ids_of r) (tg_paths c)) &&
  gen_meets (match dangling_refs r with [] => false | _ => true end) (gen_verdict r s) (tg_gen c).

Definition path_missing (s : settings) : bool :=
  match s_compact s, s_bits s with Some _, Some _ => false | _, _ => true end.

Definition missing_path_guard (c : tg_case) : bool :=
  path_missing (settings_of (tg_spec c)) &&
  match dangling_refs (tg_reg c) with [] => true | _ => false end &&
  descent_base_ok c.

(** G4: a compact / bit-sequence type without the corresponding configured path *)
Definition prop_missing_path (c : tg_case) : bool :=
  if missing_path_guard c then descent_claims c else true.

Definition missing_id_guard (c : tg_case) : bool :=
  match dangling_refs (tg_reg c) with [_] => true | _ => false end && descent_base_ok c.

(** G5: exactly one dangling reference, at whatever site *)
Definition prop_missing_id_paths (c : tg_case) : bool :=
  if missing_id_guard c then descent_claims c else true.

Definition is_dfail (v : dverdict) : bool := match v with DFail _ => true | _ => false end.
Definition is_dunsure (v : dverdict) : bool := match v with DUnsure => true | _ => false end.

Definition some_path_fails (c : tg_case) : bool :=
  existsb (fun i => is_dfail (path_verdict (tg_reg c) (settings_of (tg_spec c)) i)) (ids_of (tg_reg c)).
Definition gen_fails (c : tg_case) : bool :=
  let vd := gen_verdict (tg_reg c) (settings_of (tg_spec c)) in
  is_dfail (fst vd) && negb (snd vd && match dangling_refs (tg_reg c) with [] => false | _ => true end).

(** hit counters: the guard holds and an error is actually demanded *)
Definition hyp_missing_path (c : tg_case) : bool := missing_path_guard c && some_path_fails c.
Definition hyp_missing_path_gen (c : tg_case) : bool := missing_path_guard c && gen_fails c.
Definition hyp_missing_id_paths (c : tg_case) : bool := missing_id_guard c && some_path_fails c.
Definition hyp_missing_id_gen (c : tg_case) : bool := missing_id_guard c && gen_fails c.
(** ... and how often a claim is forfeited because different failures are reachable *)
Definition hyp_descent_unsure (c : tg_case) : bool :=
  (missing_path_guard c || missing_id_guard c) &&
  (existsb (fun i => is_dunsure (path_verdict (tg_reg c) (settings_of (tg_spec c)) i)) (ids_of (tg_reg c)) ||
   is_dunsure (fst (gen_verdict (tg_reg c) (settings_of (tg_spec c))))).

(** ** C18: standalone structs *)
Definition prop_standalone (c : tg_case) : bool :=
  let r := tg_reg c in
  let s := settings_of (tg_spec c) in
  match tg_gen c with
  | OOk toks =>
      match parse_module toks with
      | None => false
      | Some m =>
          forallb (fun '(id, vi, o) =>
                     match o, resolve r id with
                     | OOk st, Some t =>
                         if negb (item_eligible s t && option_eqb N.eqb (first_with_path r (t_path t)) (Some id)) then true else
                         match parse_one_item st, lookup_item m (t_path t) with
                         | Some sit, Some it =>
                             (* only types whose generated item has no generics *)
                             match pi_generics it with
                             | _ :: _ => true
                             | [] =>
                                 let own :=
                                   match vi with
                                   | None => Some (pi_name it, pi_body it)
                                   | Some k => match nth_error (pi_variants it) (N.to_nat k) with
                                               | Some pv => Some (pv_name pv, pv_body pv)
                                               | None => None
                                               end
                                   end in
                                 match own with
                                 | None => false
                                 | Some (name, body) =>
                                     negb (pi_is_enum sit) && String.eqb (pi_name sit) name &&
                                     (match pi_generics sit with [] => true | _ => false end) &&
                                     (* same field names, types, Box and compact markers *)
                                     (let fa := body_fields (pi_body sit) in
                                      let fb := body_fields body in
                                      Nat.eqb (List.length fa) (List.length fb) &&
                                      forallb (fun ab : pfield * pfield =>
                                                 option_eqb String.eqb (pf_name (fst ab)) (pf_name (snd ab)) &&
                                                 pty_eqb (pf_ty (fst ab)) (pf_ty (snd ab)) &&
                                                 Bool.eqb (has_attr compact_attr_toks (pf_attrs (fst ab)))
                                                          (has_attr compact_attr_toks (pf_attrs (snd ab))) &&
                                                 pf_pub (fst ab)) (combine fa fb) &&
                                      match pi_body sit, body with
                                      | BUnit, BUnit | BTuple _, BTuple _ | BNamed _, BNamed _ => true
                                      | _, _ => false
                                      end) &&
                                     (* struct forms: unit and tuple structs end with a semicolon *)
                                     (match pi_body sit with BNamed _ => negb (pi_semi sit) | _ => pi_semi sit end) &&
                                     (* exactly the global derives / attributes (+ CompactAs rule) *)
                                     (let dr := s_dreg s in
                                      let cas :=
                                        match s_compact_as s, body_fields (pi_body sit) with
                                        | Some k, [pf] =>
                                            match pf_ty pf with
                                            | PPath true segs =>
                                                if list_eqb String.eqb (removelast (map fst segs)) ["core"; "primitive"] &&
                                                   existsb (String.eqb (last (map fst segs) "")) uint_prims &&
                                                   negb (has_attr compact_attr_toks (pf_attrs pf)) &&
                                                   (* a compact field has the primitive type but is not a candidate *)
                                                   match upcast_fields r id vi with
                                                   | Some (_, [f], _) =>
                                                       match resolve r (uncow r (f_ty f)) with
                                                       | Some ft => match t_def ft with TDPrimitive _ => true | _ => false end
                                                       | None => false
                                                       end
                                                   | _ => false
                                                   end
                                                then [snd k] else []
                                            | _ => []
                                            end
                                        | _, _ => []
                                        end in
                                      tokset_eq (derive_list (pi_attrs sit)) (map snd (d_derives (dr_default dr)) ++ cas) &&
                                      tokset_eq (map (fun a => "#" :: "[" :: a ++ ["]"])
                                                     (filter (fun a => negb (attr_is "derive" a || attr_is "doc" a)) (pi_attrs sit)))
                                                (map snd (d_attrs (dr_default dr))))
                                 end
                             end
                         | _, _ => false
                         end
                     | _, _ => true
                     end) (tg_upcasts c)
      end
  | _ => true
  end.

Definition obs_tokens_eqb (a b : obs tokens) : bool := obs_eqb tokens_eqb a b.

(** ** pairs *)
Definition items_of (c : tg_case) : option (list (list string * pitem)) :=
  match tg_gen c with
  | OOk t => match parse_module t with Some m => Some (all_items m []) | None => None end
  | _ => None
  end.

(** tokens of one item, re-read from the observed module: split at item level by the parser is
    not needed for equality; compare parsed items structurally *)
Fixpoint pfields_eqb (a b : list pfield) : bool :=
  match a, b with
  | [], [] => true
  | x :: a', y :: b' =>
      list_eqb tokens_eqb (pf_attrs x) (pf_attrs y) && Bool.eqb (pf_pub x) (pf_pub y) &&
      option_eqb String.eqb (pf_name x) (pf_name y) && pty_eqb (pf_ty x) (pf_ty y) && pfields_eqb a' b'
  | _, _ => false
  end.
Definition pbody_eqb (a b : pbody) : bool :=
  match a, b with
  | BUnit, BUnit => true
  | BTuple x, BTuple y | BNamed x, BNamed y => pfields_eqb x y
  | _, _ => false
  end.
Definition pitem_eqb (a b : pitem) : bool :=
  list_eqb tokens_eqb (pi_attrs a) (pi_attrs b) && Bool.eqb (pi_is_enum a) (pi_is_enum b) &&
  String.eqb (pi_name a) (pi_name b) && list_eqb String.eqb (pi_generics a) (pi_generics b) &&
  pbody_eqb (pi_body a) (pi_body b) &&
  list_eqb (fun x y => list_eqb tokens_eqb (pv_attrs x) (pv_attrs y) && String.eqb (pv_name x) (pv_name y) &&
                       pbody_eqb (pv_body x) (pv_body y)) (pi_variants a) (pi_variants b).

Definition settings_valid (c : tg_case) : bool :=
  let s := settings_of (tg_spec c) in
  verror_is_empty (validate (s_subs s) (s_dreg s) (tg_reg c)).

(** hypotheses of C17: both registries coincidence-free; for restriction also
    settings that are valid for both registries (a derive registered for a path
    that was not retained cannot reach the retained types) *)
Definition hyp_c17 (p : tg_pair) : bool :=
  hyp_coincidence_free (tp_a p) && hyp_coincidence_free (tp_b p) &&
  (if String.eqb (tp_kind p) "retain" then settings_valid (tp_a p) && settings_valid (tp_b p) else true).

(** C17, de-duplication under renumbering: [ensure_unique_type_paths] on the renumbered registry has
    the same outcome kind and forms the same shape groups: two entries of b get one path iff the
    entries of a they come from do, and an entry of b is renamed iff its original is.  (The digit a
    group receives follows the order of first appearance and is NOT invariant; nothing is demanded
    of it.)  No hypothesis: the families that de-duplication renames are exactly the ones that are
    not skeleton-consistent.  Where the verdict of [types_equal] depends on the order of the
    entries the failure is attributed to F3 (unsound) / F18 (incomplete) by [known_F3_groups] /
    [known_F18_groups]. *)
Definition prop_dedup_groups_raw (p : tg_pair) : bool :=
  if String.eqb (tp_kind p) "renumbered" then
    match tg_dedup (tp_a p), tg_dedup (tp_b p) with
    | OOk pa, OOk pb =>
        let orig_a := reg_paths (tg_reg (tp_a p)) in
        let orig_b := reg_paths (tg_reg (tp_b p)) in
        let pick (l : list (list string)) (j : N) := nth (N.to_nat j) l [] in
        let qa := map (pick pa) (tp_perm p) in          (* a's new paths in b's order *)
        let qo := map (pick orig_a) (tp_perm p) in      (* a's old paths in b's order *)
        Nat.eqb (List.length pb) (List.length qa) &&
        list_eqb path_eqb qo orig_b &&
        (* renamed iff renamed *)
        list_eqb Bool.eqb (map (fun xy => path_eqb (fst xy) (snd xy)) (combine qa qo))
                          (map (fun xy => path_eqb (fst xy) (snd xy)) (combine pb orig_b)) &&
        (* same partition of every family (entries with one original path); new paths of
           different families may coincide (F4) and are not compared *)
        forallb (fun x : (list string * list string) * list string =>
                   let '(xa, xb, xo) := x in
                   list_eqb Bool.eqb
                     (map (fun yo : list string * list string => path_eqb xo (snd yo) && path_eqb xa (fst yo)) (combine qa qo))
                     (map (fun yo : list string * list string => path_eqb xo (snd yo) && path_eqb xb (fst yo)) (combine pb orig_b)))
                (combine (combine qa pb) qo)
    | OErr k _ _, OErr k' _ _ => String.eqb k k'
    | OPanic, OPanic => true
    | _, _ => false
    end
  else true.

Definition hyp_dedup_renames (p : tg_pair) : bool :=
  String.eqb (tp_kind p) "renumbered" &&
  match tg_dedup (tp_a p) with
  | OOk pa => negb (list_eqb path_eqb pa (reg_paths (tg_reg (tp_a p))))
  | _ => false
  end.

Definition prop_dedup_groups (p : tg_pair) : bool := prop_dedup_groups_raw p.

Definition prop_same_tokens (p : tg_pair) : bool :=
  if String.eqb (tp_kind p) "same" then
    obs_tokens_eqb (tg_gen (tp_a p)) (tg_gen (tp_b p))
  else if String.eqb (tp_kind p) "dedup-same" then
    (* two independent de-duplication runs of one registry: same registry, same tokens *)
    list_eqb path_eqb (map (fun e => t_path (snd e)) (tg_reg (tp_a p))) (map (fun e => t_path (snd e)) (tg_reg (tp_b p))) &&
    obs_tokens_eqb (tg_gen (tp_a p)) (tg_gen (tp_b p))
  else if String.eqb (tp_kind p) "last-wins" then
    (* one source inserted twice with different targets, in both orders: the settings differ as
       maps, nothing is demanded of the two outputs beyond [corr_pair] *)
    true
  else if negb (hyp_c17 p) then true
  else if String.eqb (tp_kind p) "renumbered" then
    obs_tokens_eqb (tg_gen (tp_a p)) (tg_gen (tp_b p))
  else if String.eqb (tp_kind p) "retain" then
    (* every retained path has the same item as in the full registry *)
    match tg_gen (tp_a p), tg_gen (tp_b p) with
    | OOk _, OOk _ =>
        match items_of (tp_a p), items_of (tp_b p) with
        | Some ia, Some ib =>
            forallb (fun pb : list string * pitem =>
                       match find (fun pa : list string * pitem => path_eqb (fst pa) (fst pb)) ia with
                       | Some pa => pitem_eqb (snd pa) (snd pb)
                       | None => false
                       end) ib
        | _, _ => false
        end
    | OOk _, _ => false        (* restriction of a generable registry must be generable *)
    | _, _ => true
    end
  else true.

Definition sorted_derives_case (c : tg_case) : bool :=
  match items_of c with
  | Some its =>
      forallb (fun pit : list string * pitem =>
                 (fix sorted (l : list tokens) :=
                    match l with
                    | a :: ((b :: _) as l') => str_ltb (key_of_tokens a) (key_of_tokens b) && sorted l'
                    | _ => true
                    end) (derive_list (pi_attrs (snd pit)))) its
  | None => true
  end.

Definition prop_sorted_derives (p : tg_pair) : bool :=
  sorted_derives_case (tp_a p) && sorted_derives_case (tp_b p).

(** C06, "attribute lists in the output are sorted and free of duplicates": the non-derive, non-doc
    attributes of every observed item are STRICTLY increasing for the implementation's sort key,
    the token string of the whole attribute ([attr_sort_key], recomputed from the observed tokens) *)
Definition sorted_attrs_case (c : tg_case) : bool :=
  match items_of c with
  | Some its =>
      forallb (fun pit : list string * pitem =>
                 strictly_sorted (map attr_sort_key (user_attrs (pi_attrs (snd pit))))) its
  | None => true
  end.

Definition prop_sorted_attrs (p : tg_pair) : bool :=
  sorted_attrs_case (tp_a p) && sorted_attrs_case (tp_b p).

(** obligation on the checker itself: the key [attr_sort_key] recomputes from flattened tokens is the
    string the real [quote!(#attr).to_string()] gave for every attribute configured in this case
    (the harness ships both) *)
Definition attr_keys_case (c : tg_case) : bool :=
  let dr := s_dreg (settings_of (tg_spec c)) in
  let ds := dr_default dr :: map snd (dr_specific dr) ++ map snd (dr_recursive dr) in
  forallb (fun d => forallb (fun kt : string * tokens => String.eqb (render_tokens (snd kt)) (fst kt)) (d_attrs d)) ds.
Definition corr_attr_keys (p : tg_pair) : bool := attr_keys_case (tp_a p) && attr_keys_case (tp_b p).

(** hit counters *)
Definition hyp_attrs_ge2 (p : tg_pair) : bool :=
  match items_of (tp_a p) with
  | Some its => existsb (fun pit : list string * pitem =>
                           Nat.leb 2 (List.length (user_attrs (pi_attrs (snd pit))))) its
  | None => false
  end.
(** the pair registers one substitute source twice with two targets, in the two orders: the last
    insertion wins, so the outputs are NOT required to agree (only the model has to reproduce both) *)
Definition hyp_last_wins_differ (p : tg_pair) : bool :=
  String.eqb (tp_kind p) "last-wins" &&
  negb (obs_tokens_eqb (tg_gen (tp_a p)) (tg_gen (tp_b p))).
Definition hyp_subs_permuted (p : tg_pair) : bool :=
  String.eqb (tg_tag (tp_a p)) "permuted-subs" &&
  Nat.leb 2 (List.length (filter (fun kv : list string * substitute => negb (starts_with "bitvec" (hd "" (fst kv))))
                                 (s_subs (settings_of (tg_spec (tp_a p)))))).

(** ** C09: frame relations between two token lists.
    [erase] removes the tokens a switch governs; what remains must be equal. *)
Fixpoint erase_attr (name : string) (fuel : nat) (toks : tokens) : tokens :=
  match fuel with
  | O => toks
  | S fuel' =>
      match toks with
      | "#" :: "[" :: n :: r =>
          if String.eqb n name then
            match until_close 0 r with
            | Some (_, rest) => erase_attr name fuel' rest
            | None => toks
            end
          else "#" :: "[" :: n :: erase_attr name fuel' r
      | t :: r => t :: erase_attr name fuel' r
      | [] => []
      end
  end.

(** replace every occurrence of the token list [a] by [b] *)
Fixpoint strip_prefix (p toks : tokens) : option tokens :=
  match p, toks with
  | [], _ => Some toks
  | x :: p', y :: t' => if String.eqb x y then strip_prefix p' t' else None
  | _, [] => None
  end.

Fixpoint replace_sub (fuel : nat) (a b toks : tokens) : tokens :=
  match fuel with
  | O => toks
  | S fuel' =>
      match toks with
      | [] => []
      | t :: r =>
          match a with
          | [] => toks
          | _ => match strip_prefix a toks with
                 | Some rest => b ++ replace_sub fuel' a b rest
                 | None => t :: replace_sub fuel' a b r
                 end
          end
      end
  end.

Definition count_tok (x : string) (t : tokens) : nat := List.length (filter (String.eqb x) t).

Definition frame_tokens (kind : string) (sa sb : settings) (ta tb : tokens) : bool :=
  let n := S (List.length ta + List.length tb) in
  if String.eqb kind "docs" then tokens_eqb (erase_attr "doc" n ta) (erase_attr "doc" n tb)
  else if String.eqb kind "codec" then tokens_eqb (erase_attr "codec" n ta) (erase_attr "codec" n tb)
  else if String.eqb kind "root" then
    tokens_eqb (map (fun t => if String.eqb t (s_root sa) then s_root sb else t) ta) tb
  else if String.eqb kind "alloc" then
    (* every alloc-rooted path: <alloc> :: (vec|string|boxed|borrow|collections) *)
    let heads := ["vec"; "string"; "boxed"; "borrow"; "collections"] in
    let norm (al : tokens) (t : tokens) :=
      fold_left (fun acc h => replace_sub n (al ++ [":"; ":"; h]) ["@alloc"; h] acc) heads t in
    tokens_eqb (norm (alloc_tokens (s_alloc sa)) ta) (norm (alloc_tokens (s_alloc sb)) tb)
  else if String.eqb kind "compact_path" then
    match s_compact sa, s_compact sb with
    | Some ca, Some cb => tokens_eqb (replace_sub n (ca ++ ["<"]) ["@compact"; "<"] ta)
                                     (replace_sub n (cb ++ ["<"]) ["@compact"; "<"] tb)
    | _, _ => true
    end
  else if String.eqb kind "bits_path" then
    match s_bits sa, s_bits sb with
    | Some ca, Some cb => tokens_eqb (replace_sub n (ca ++ ["<"]) ["@bits"; "<"] ta)
                                     (replace_sub n (cb ++ ["<"]) ["@bits"; "<"] tb)
    | _, _ => true
    end
  else true.

Definition prop_frame_raw (p : tg_pair) : bool :=
  let sa := settings_of (tg_spec (tp_a p)) in
  let sb := settings_of (tg_spec (tp_b p)) in
  match tg_gen (tp_a p), tg_gen (tp_b p) with
  | OOk ta, OOk tb =>
      frame_tokens (tp_kind p) sa sb ta tb &&
      forallb (fun ab : obs tokens * obs tokens =>
                 match fst ab, snd ab with
                 | OOk x, OOk y => frame_tokens (tp_kind p) sa sb x y
                 | OErr k _ _, OErr k' _ _ => String.eqb k k'
                 | OPanic, OPanic => true
                 | _, _ => false
                 end) (combine (tg_paths (tp_a p)) (tg_paths (tp_b p)))
  | OErr k _ _, OErr k' _ _ => String.eqb k k'
  | OPanic, OPanic => true
  | _, _ => false
  end.

(** switches honoured (first sentence of C09), on one observed output *)
Definition user_tokens (s : settings) : tokens :=
  let dr := s_dreg s in
  let ds := dr_default dr :: map snd (dr_specific dr) ++ map snd (dr_recursive dr) in
  flat_map (fun d => flat_map snd (d_derives d) ++ flat_map snd (d_attrs d)) ds ++
  flat_map (fun kv => print_spath (su_path (snd kv))) (s_subs s) ++
  match s_compact s with Some t => t | None => [] end ++
  match s_bits s with Some t => t | None => [] end ++
  match s_compact_as s with Some k => snd k | None => [] end.

Definition registry_idents (r : registry) : list string :=
  flat_map (fun e =>
              t_path (snd e) ++
              match t_def (snd e) with
              | TDComposite fs => flat_map (fun f => match f_name f with Some n => [n] | None => [] end) fs
              | TDVariant vs => flat_map (fun v => v_name v ::
                                                   flat_map (fun f => match f_name f with Some n => [n] | None => [] end)
                                                            (v_fields v)) vs
              | _ => []
              end) r.

(** C09, codec attributes counted as ATTRIBUTES of the parsed module ([# [ codec ( ... ) ]] on
    items, fields, variants, variant fields), so that the word [codec] in configured paths
    ([::codec::Compact], [::codec::CompactAs], [::codec::Encode]) does not matter: with codec
    attributes off the only codec attributes are item attributes the caller configured verbatim *)
Definition configured_attrs (s : settings) : list tokens :=
  let dr := s_dreg s in
  let ds := dr_default dr :: map snd (dr_specific dr) ++ map snd (dr_recursive dr) in
  flat_map (fun d => map snd (d_attrs d)) ds.

Definition no_codec_attr (attrs : list tokens) : bool := negb (existsb (attr_is "codec") attrs).

Definition codec_off_no_codec_attrs (s : settings) (m : pmod) : bool :=
  let user := configured_attrs s in
  forallb (fun pit : list string * pitem =>
             let it := snd pit in
             forallb (fun a => if attr_is "codec" a
                               then existsb (tokens_eqb ("#" :: "[" :: a ++ ["]"])) user else true) (pi_attrs it) &&
             forallb (fun pf => no_codec_attr (pf_attrs pf)) (body_fields (pi_body it)) &&
             forallb (fun pv => no_codec_attr (pv_attrs pv) &&
                                forallb (fun pf => no_codec_attr (pf_attrs pf)) (body_fields (pv_body pv)))
                     (pi_variants it)) (all_items m []).

Definition count_codec_attrs (m : pmod) : nat :=
  fold_right (fun pit acc =>
                let it : pitem := snd pit in
                let cnt (l : list tokens) := List.length (filter (attr_is "codec") l) in
                (cnt (pi_attrs it) +
                 fold_right (fun pf a => (cnt (pf_attrs pf) + a)%nat) O (body_fields (pi_body it)) +
                 fold_right (fun pv a => (cnt (pv_attrs pv) +
                                          fold_right (fun pf a' => (cnt (pf_attrs pf) + a')%nat) O (body_fields (pv_body pv)) + a)%nat)
                            O (pi_variants it) + acc)%nat) O (all_items m []).

(** C09, "with codec attributes on every compact field has its marker".  A compact field: the
    registry type of the field - looked through one [Cow], as the implementation does - is a
    [TDCompact] entry, and the field is not typed by a parameter of its own item (the field's type id
    is the id bound to a parameter whose name is the recorded type name, or no type name is
    recorded: then the field prints the parameter and the instantiation supplies the wrapper).
    Codec on: the marker is there iff the field is a compact field; codec off: no marker at all. *)
Definition param_typed (t : ty) (f : field) : bool :=
  existsb (fun p => match tp_ty p with
                    | Some i => N.eqb i (f_ty f) &&
                                match f_type_name f with None => true | Some n => String.eqb n (tp_name p) end
                    | None => false
                    end) (t_params t).

Definition is_compact_entry (r : registry) (id : N) : bool :=
  match resolve r (uncow r id) with
  | Some ft => match t_def ft with TDCompact _ => true | _ => false end
  | None => false
  end.

Definition is_box_pty (t : pty) : bool :=
  match t with
  | PPath true segs => String.eqb (last (map fst segs) "") "Box" &&
                       match removelast (map fst segs) with _ :: _ => String.eqb (last (removelast (map fst segs)) "") "boxed" | [] => false end
  | _ => false
  end.
Definition compact_markers_ok (r : registry) (codec : bool) (t : ty) (fs : list field) (pfs : list pfield) : bool :=
  let pfs := filter (fun f => negb (is_marker_field f)) pfs in
  Nat.eqb (List.length fs) (List.length pfs) &&
  forallb (fun fp : field * pfield =>
             let marked := has_attr compact_attr_toks (pf_attrs (snd fp)) in
             (* F21: the marker needs the bare type - `#[codec(compact)] Box<u32>` does not compile *)
             (if marked then negb (is_box_pty (pf_ty (snd fp))) else true) &&
             if codec then
               if param_typed t (fst fp) then negb marked
               else Bool.eqb marked (is_compact_entry r (f_ty (fst fp)))
             else negb marked) (combine fs pfs).

(** C18 against the REGISTRY (not only against the enum's own variant, which goes through the same
    code): the standalone struct built from the field list of a struct / variant of a parameter-free
    type has the registry's field names in order, a compact marker exactly on the fields whose
    registry type is a Compact entry (codec on; none with codec off), and a Box exactly on the fields
    the generator boxes (recorded type name) *)
Definition prop_standalone_registry (c : tg_case) : bool :=
  let r := tg_reg c in
  let s := settings_of (tg_spec c) in
  forallb (fun '(id, vi, o) =>
             match o, resolve r id, upcast_fields r id vi with
             | OOk st, Some t, Some (name, fs, _) =>
                 match param_ids t with
                 | _ :: _ => true
                 | [] =>
                     match parse_one_item st with
                     | None => false
                     | Some sit =>
                         let pfs := body_fields (pi_body sit) in
                         String.eqb (pi_name sit) name &&
                         compact_markers_ok r (s_codec s) t fs pfs &&
                         Nat.eqb (List.length fs) (List.length pfs) &&
                         forallb (fun fp : field * pfield =>
                                    option_eqb String.eqb (f_name (fst fp)) (pf_name (snd fp)) &&
                                    (* a Box only on fields the generator boxes; a boxed field that is
                                       not compact must have it (F21: compact fields lose the wrapper) *)
                                    (if is_box_pty (pf_ty (snd fp)) then is_boxed_gen (fst fp) else true) &&
                                    (if is_boxed_gen (fst fp) && negb (is_compact_entry r (f_ty (fst fp)))
                                     then is_box_pty (pf_ty (snd fp)) else true))
                                 (combine fs pfs)
                     end
                 end
             | _, _, _ => true
             end) (tg_upcasts c).

Definition hyp_compact_fields (c : tg_case) : bool :=
  let r := tg_reg c in
  s_codec (settings_of (tg_spec c)) && hyp_gen_ok c &&
  existsb (fun e => item_eligible (settings_of (tg_spec c)) (snd e) &&
                    existsb (fun f => is_compact_entry r (f_ty f) && negb (param_typed (snd e) f)) (all_fields (snd e))) r.

Definition switches_case (c : tg_case) : bool :=
  let r := tg_reg c in
  let s := settings_of (tg_spec c) in
  let inputs := user_tokens s ++ registry_idents r ++ [s_root s] in
  let clean (w : string) := negb (existsb (String.eqb w) inputs) in
  match tg_gen c with
  | OOk t =>
      (match s_alloc s with
       | ACustom a => if clean "std" && negb (existsb (String.eqb "std") a) then Nat.eqb (count_tok "std" t) 0 else true
       | AStd => true
       end) &&
      (if s_docs s then true else if clean "doc" then Nat.eqb (count_tok "doc" t) 0 else true) &&
      (if s_codec s then true else if clean "codec" then Nat.eqb (count_tok "codec" t) 0 else true) &&
      (* docs on: every item / variant carries exactly its registry doc lines in order;
         codec on: every variant has its index, every compact field its marker *)
      match parse_module t with
      | None => false
      | Some m =>
          (* codec off: no codec ATTRIBUTE other than item attributes configured verbatim *)
          (if s_codec s then true else codec_off_no_codec_attrs s m) &&
          forallb (fun pit : list string * pitem =>
                     match first_with_path r (fst pit) with
                     | None => false
                     | Some id =>
                         match resolve r id with
                         | None => false
                         | Some ty =>
                             let it := snd pit in
                             (if s_docs s then list_eqb String.eqb (doc_lits (pi_attrs it)) (map lit_string (t_docs ty))
                              else true) &&
                             match t_def ty with
                             | TDVariant vs =>
                                 let pvs := filter (fun pv => negb (String.eqb (pv_name pv) "__Ignore")) (pi_variants it) in
                                 Nat.eqb (List.length vs) (List.length pvs) &&
                                 forallb (fun vp : variant * pvariant =>
                                            (if s_docs s then list_eqb String.eqb (doc_lits (pv_attrs (snd vp)))
                                                                       (map lit_string (v_docs (fst vp))) else true) &&
                                            (if s_codec s then option_eqb String.eqb (codec_index_of (pv_attrs (snd vp)))
                                                                          (Some (N_to_string (v_index (fst vp))))
                                             else true) &&
                                            compact_markers_ok r (s_codec s) ty (v_fields (fst vp))
                                                               (body_fields (pv_body (snd vp)))) (combine vs pvs)
                             | TDComposite fs =>
                                 compact_markers_ok r (s_codec s) ty fs (body_fields (pi_body it))
                             | _ => true
                             end
                         end
                     end) (all_items m [])
      end
  | _ => true
  end.

Definition prop_switches (p : tg_pair) : bool := switches_case (tp_a p) && switches_case (tp_b p).

(** hit counters: a side with codec attributes on and a compact field; a side with codec attributes
    off whose configured paths contain the word [codec] (where only the attribute count speaks) *)
Definition hyp_compact_marker (p : tg_pair) : bool := hyp_compact_fields (tp_a p) || hyp_compact_fields (tp_b p).
Definition codec_off_dirty (c : tg_case) : bool :=
  let s := settings_of (tg_spec c) in
  negb (s_codec s) && hyp_gen_ok c &&
  existsb (String.eqb "codec") (user_tokens s ++ registry_idents (tg_reg c) ++ [s_root s]).
Definition hyp_codec_off_dirty (p : tg_pair) : bool := codec_off_dirty (tp_a p) || codec_off_dirty (tp_b p).

(** hypothesis of [C09_root_rename]: the root ident occurs nowhere else in the inputs
    (registry identifiers -- path segments, field and variant names -- and user tokens) *)
Definition prop_frame (p : tg_pair) : bool :=
  if String.eqb (tp_kind p) "root" &&
     (let inputs := user_tokens (settings_of (tg_spec (tp_a p))) ++ registry_idents (tg_reg (tp_a p)) in
      existsb (String.eqb (s_root (settings_of (tg_spec (tp_a p))))) inputs ||
      existsb (String.eqb (s_root (settings_of (tg_spec (tp_b p))))) inputs)
  then true else prop_frame_raw p.

(** finding F18: [types_equal] is INCOMPLETE on coincidences: two instantiations whose argument
    coincides with the concrete type of another field on BOTH sides (Baz<bool, X> and Baz<bool, Y>
    with a field  y: bool ) are judged different (compare_fields: both ids are parameters, the
    recorded type names are concrete, so no index is found), although their skeletons agree;
    whether generation fails with DuplicateTypePath then depends on which member comes first *)
Definition te_incomplete_case (c : tg_case) : bool :=
  let r := tg_reg c in
  let s := settings_of (tg_spec c) in
  existsb (fun ix : N * (N * ty) =>
             item_eligible s (snd (snd ix)) &&
             existsb (fun iy : N * (N * ty) =>
                        item_eligible s (snd (snd iy)) &&
                        path_eqb (t_path (snd (snd ix))) (t_path (snd (snd iy))) &&
                        negb (N.eqb (fst ix) (fst iy)) &&
                        match types_equal_res r (fst ix) (fst iy),
                              skeleton_tokens r s (snd (snd ix)), skeleton_tokens r s (snd (snd iy)) with
                        | Ok false, Some a, Some b => tokens_eqb a b
                        | _, _, _ => false
                        end) (combine (ids_of r) r)) (combine (ids_of r) r).

(** F18 seen by the de-duplication clause: skeleton-equal members judged different in one of the
    two orders, so the family is split in one registry and not in the other *)
(** de-duplication does not look at the settings: every namespaced entry takes part, substituted
    paths included; skeletons are taken with the substitutes removed *)
Definition no_subs (s : settings) : settings :=
  mk_settings (s_root s) (s_docs s) (s_dreg s) [] (s_bits s) (s_compact_as s) (s_compact s)
              (s_codec s) (s_alloc s).
Definition te_incomplete_reg (c : tg_case) : bool :=
  let r := tg_reg c in
  let s := no_subs (settings_of (tg_spec c)) in
  let named (t : ty) := match namespace (t_path t) with [] => false | _ => true end in
  existsb (fun ix : N * (N * ty) =>
             named (snd (snd ix)) &&
             existsb (fun iy : N * (N * ty) =>
                        named (snd (snd iy)) &&
                        path_eqb (t_path (snd (snd ix))) (t_path (snd (snd iy))) &&
                        negb (N.eqb (fst ix) (fst iy)) &&
                        match types_equal_res r (fst ix) (fst iy),
                              skeleton_tokens r s (snd (snd ix)), skeleton_tokens r s (snd (snd iy)) with
                        | Ok false, Some a, Some b => tokens_eqb a b
                        | _, _, _ => false
                        end) (combine (ids_of r) r)) (combine (ids_of r) r).
(** F3 seen by the de-duplication clause: in one of the two registries a same-path pair with
    DIFFERENT skeletons is judged equal, and one of the recorded shortcuts decided it *)
Definition te_unsound_reg (c : tg_case) : bool :=
  let r := tg_reg c in
  let s := no_subs (settings_of (tg_spec c)) in
  let named (t : ty) := match namespace (t_path t) with [] => false | _ => true end in
  existsb (fun ix : N * (N * ty) =>
             named (snd (snd ix)) &&
             existsb (fun iy : N * (N * ty) =>
                        named (snd (snd iy)) &&
                        path_eqb (t_path (snd (snd ix))) (t_path (snd (snd iy))) &&
                        negb (N.eqb (fst ix) (fst iy)) &&
                        match skeleton_tokens r s (snd (snd ix)), skeleton_tokens r s (snd (snd iy)) with
                        | Some a, Some b =>
                            negb (tokens_eqb a b) &&
                            match types_equal_traced r (fst ix) (fst iy) with
                            | Ok (true, hits) => N.ltb 0 hits
                            | _ => false
                            end
                        | _, _ => false
                        end) (combine (ids_of r) r)) (combine (ids_of r) r).
Definition known_F3_groups (p : tg_pair) : bool :=
  String.eqb (tp_kind p) "renumbered" &&
  (te_unsound_reg (tp_a p) || te_unsound_reg (tp_b p)).

Definition known_F18_groups (p : tg_pair) : bool :=
  String.eqb (tp_kind p) "renumbered" &&
  (te_incomplete_reg (tp_a p) || te_incomplete_reg (tp_b p)).

Definition known_F18 (p : tg_pair) : bool :=
  (te_incomplete_case (tp_a p) || te_incomplete_case (tp_b p)) &&
  match tg_gen (tp_a p), tg_gen (tp_b p) with
  | OOk _, OErr k _ _ | OErr k _ _, OOk _ => String.eqb k "DuplicateTypePath"
  | _, _ => false
  end.
