(** Property checkers evaluated on the implementation's observed outputs (TG cases). *)
From Coq Require Import List NArith String Bool.
From V Require Import Base.Util Base.Strings Base.Result Model.Registry Model.Settings Model.Subst
  Model.TypePath Model.Derives Model.Generate Model.Emit Model.Equal Model.Builders Checkers.Parse Checkers.Sem Corr.RunTG.
Import ListNotations.
Open Scope string_scope. Open Scope list_scope.

Definition hyp_gen_ok (c : tg_case) : bool :=
  match tg_gen c with OOk _ => true | _ => false end.

Definition corr_case (c : tg_case) : bool :=
  corr_ops c && corr_gen c && corr_paths c && corr_upcasts c.

Definition corr_pair (p : tg_pair) : bool := corr_case (tp_a p) && corr_case (tp_b p).

Definition hyp_both_ok (p : tg_pair) : bool := hyp_gen_ok (tp_a p) && hyp_gen_ok (tp_b p).

(* placeholders, replaced below as the checkers land *)
Definition prop_same_tokens (p : tg_pair) : bool := true.
Definition prop_sorted_derives (p : tg_pair) : bool := true.
Definition prop_frame (p : tg_pair) : bool := true.
Definition prop_switches (p : tg_pair) : bool := true.
Definition fenv_of (s : settings) : fenv :=
  mk_fenv (s_root s) (toks_to_segs (alloc_tokens (s_alloc s))) (option_map toks_to_segs (s_compact s))
          (option_map toks_to_segs (s_bits s)) (s_subs s) (s_codec s).

(** item-eligible: what the generation loop turns into an item *)
Definition item_eligible (s : settings) (t : ty) : bool :=
  is_composite_or_variant (t_def t) && negb (subs_contains (s_subs s) (t_path t)) &&
  match namespace (t_path t) with [] => false | _ => true end.

(** [skeleton_consistent] (DESIGN 3.3): every item-eligible entry has the same
    skeleton as the first entry with its path; skeletons are compared through
    their tokens, which contain everything but the concrete ids *)
Definition skeleton_tokens (r : registry) (s : settings) (t : ty) : option tokens :=
  match create_type_ir r s t (mk_flat derives_empty []) with
  | Ok (Some ir) => match type_ir_tokens s ir with Ok tk => Some tk | _ => None end
  | _ => None
  end.

Definition skeleton_consistentb (r : registry) (s : settings) : bool :=
  forallb (fun e =>
             let t := snd e in
             if item_eligible s t then
               match find (fun e' => path_eqb (t_path (snd e')) (t_path t) && item_eligible s (snd e')) r with
               | Some e' => match skeleton_tokens r s t, skeleton_tokens r s (snd e') with
                            | Some a, Some b => tokens_eqb a b
                            | _, _ => false
                            end
               | None => false
               end
             else true) r.

Definition hyp_coincidence_free (c : tg_case) : bool :=
  skeleton_consistentb (tg_reg c) (settings_of (tg_spec c)).

(** C01 on the observed output: every id whose path was resolved is faithfully
    represented by the parsed observed module *)
Definition faithful_obs (c : tg_case) : bool :=
  let r := tg_reg c in
  let s := settings_of (tg_spec c) in
  match tg_gen c with
  | OOk toks =>
      match parse_module toks with
      | None => false
      | Some m =>
          forallb (fun '(id, o) =>
                     match o with
                     | OOk pt => match parse_type pt with
                                 | Some t => faithful_id r (fenv_of s) m id t
                                 | None => false
                                 end
                     | _ => true
                     end) (combine (ids_of r) (tg_paths c))
      end
  | _ => true
  end.

Definition prop_faithful (c : tg_case) : bool :=
  if hyp_coincidence_free c then faithful_obs c else true.
Definition prop_syn_parses (c : tg_case) : bool := tg_syn_ok c.
Definition parsed (c : tg_case) : option pmod :=
  match tg_gen c with OOk t => parse_module t | _ => None end.
Definition prop_closed (c : tg_case) : bool :=
  let s := settings_of (tg_spec c) in
  match tg_gen c with
  | OOk t =>
      match parse_module t with
      | Some m =>
          closedb (s_root s) m &&
          forallb (fun o => match o with
                            | OOk pt => match parse_type pt with
                                        | Some ty => path_closedb (s_root s) m ty
                                        | None => false
                                        end
                            | _ => true
                            end) (tg_paths c)
      | None => false
      end
  | _ => true
  end.
Definition prop_subst (c : tg_case) : bool := true.
Definition hyp_has_subst (c : tg_case) : bool := true.
Definition prop_derives_exact (c : tg_case) : bool := true.
Definition hyp_has_recursive (c : tg_case) : bool := true.
Definition prop_fault_expect (c : tg_case) : bool := true.
Definition prop_wf_total (c : tg_case) : bool := true.
Definition hyp_wf (c : tg_case) : bool := true.
Definition prop_standalone (c : tg_case) : bool := true.
