(** Property checkers evaluated on the implementation's observed outputs (TG cases). *)
From Coq Require Import List NArith String Bool.
From V Require Import Base.Util Base.Strings Base.Result Model.Registry Model.Settings Model.Subst
  Model.TypePath Model.Derives Model.Generate Model.Emit Model.Equal Model.Builders Corr.RunTG.
Import ListNotations.
Open Scope string_scope. Open Scope list_scope.

Definition hyp_gen_ok (c : tg_case) : bool :=
  match tg_gen c with OOk _ => true | _ => false end.

Definition corr_case (c : tg_case) : bool :=
  corr_ops c && corr_gen c && corr_paths c && corr_upcasts c.

Definition corr_pair (p : tg_pair) : bool := corr_case (tp_a p) && corr_case (tp_b p).

Definition hyp_both_ok (p : tg_pair) : bool := hyp_gen_ok (tp_a p) && hyp_gen_ok (tp_b p).

(* placeholders, replaced below as the checkers land *)
Definition prop_same_tokens (p : tg_pair) : bool := true.
Definition prop_sorted_derives (p : tg_pair) : bool := true.
Definition prop_frame (p : tg_pair) : bool := true.
Definition prop_switches (p : tg_pair) : bool := true.
Definition prop_faithful (c : tg_case) : bool := true.
Definition hyp_coincidence_free (c : tg_case) : bool := true.
Definition prop_syn_parses (c : tg_case) : bool := true.
Definition prop_closed (c : tg_case) : bool := true.
Definition prop_subst (c : tg_case) : bool := true.
Definition hyp_has_subst (c : tg_case) : bool := true.
Definition prop_derives_exact (c : tg_case) : bool := true.
Definition hyp_has_recursive (c : tg_case) : bool := true.
Definition prop_fault_expect (c : tg_case) : bool := true.
Definition prop_wf_total (c : tg_case) : bool := true.
Definition hyp_wf (c : tg_case) : bool := true.
Definition prop_standalone (c : tg_case) : bool := true.
