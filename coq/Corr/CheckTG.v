(** Property checkers evaluated on the implementation's observed outputs (TG cases). *)
From Coq Require Import List NArith String Bool.
From V Require Import Base.Util Base.Strings Base.Result Model.Registry Model.Settings Model.Subst
  Model.TypePath Model.Derives Model.Generate Model.Emit Model.Equal Model.Builders Corr.RunTG.
Import ListNotations.
Open Scope string_scope. Open Scope list_scope.

Definition hyp_gen_ok (c : tg_case) : bool :=
  match tg_gen c with OOk _ => true | _ => false end.
