(** Correspondence and property checkers for C16 (settings builders over call histories).
    [c16_corr_*] compare the model (Model/Builders.v, through RunTG for the probe)
    with the observed behaviour; [prop_*] evaluate the specifications of
    Model/BuildersSpec.v - written independently of [apply_op] - on the
    OBSERVED data only. *)
From Coq Require Import List NArith String Bool.
From V Require Import Base.Util Base.Strings Base.Result Model.Registry Model.Settings Model.Subst
  Model.TypePath Model.Derives Model.Builders Model.BuildersSpec Corr.RunTG.
Import ListNotations.
Open Scope string_scope. Open Scope list_scope.

Record c16_case := mk_c16 {
  c_reg : registry;                               (* probe registry *)
  c_spec : sspec;                                 (* fixed switches + the history *)
  c_outs : list (option suberr);                  (* observed outcome of every call *)
  c_subs : list (list string * tokens);           (* observed [iter()], sorted by source segments *)
  c_contains : list (list string * bool);         (* observed [contains] for the probe keys *)
  c_gen : obs tokens;                             (* observed module for the probe registry *)
  c_paths : list (obs tokens);                    (* observed [resolve_type_path] per id *)
  (* per generated item: path below the root module, derive keys, attribute keys in emitted
     order - read back from the observed module by the harness with [syn] (harness/src/c16.rs
     [observe_items]), not by a Coq token reader *)
  c_items : list (list string * (list string * list string)) }.
Definition c_ops (c : c16_case) : list op := ss_ops (c_spec c).

(** ** correspondence *)
Definition c16_corr_ops (c : c16_case) : bool :=
  list_eqb (option_eqb suberr_eqb) (snd (run_ops (c_ops c))) (c_outs c).

Fixpoint insert_rule (x : list string * tokens) (l : list (list string * tokens)) :=
  match l with
  | [] => [x]
  | y :: l' => match path_compare (fst x) (fst y) with
               | Gt => y :: insert_rule x l'
               | _ => x :: l
               end
  end.
Definition render_subs (s : substitutes) : list (list string * tokens) :=
  fold_right insert_rule [] (map (fun '(k, v) => (k, print_spath (su_path v))) s).
Definition rule_eqb (a b : list string * tokens) : bool :=
  path_eqb (fst a) (fst b) && tokens_eqb (snd a) (snd b).

Definition c16_corr_subs (c : c16_case) : bool :=
  let subs := b_subs (fst (run_ops (c_ops c))) in
  list_eqb rule_eqb (render_subs subs) (c_subs c)
  && forallb (fun '(p, b) => Bool.eqb (subs_contains subs p) b) (c_contains c).

Definition c16_corr_probe (c : c16_case) : bool :=
  let t := mk_tg "c16" (c_reg c) (c_spec c) (c_outs c) (c_gen c) (c_paths c) true [] None OPanic in
  corr_gen t && corr_paths t.

(** ** property checkers on the observed data *)
Fixpoint assoc_path {A} (l : list (list string * A)) (k : list string) : option A :=
  match l with
  | [] => None
  | (k', v) :: l' => if path_eqb k' k then Some v else assoc_path l' k
  end.

(** for every probe key the observed rule is the one the three-line specification names,
    [contains] agrees with it, and every observed rule is among the probed keys *)
Definition prop_rule_for_key (c : c16_case) : bool :=
  forallb (fun '(k, b) =>
             let spec := spec_rule (c_ops c) k in
             option_eqb tokens_eqb (assoc_path (c_subs c) k)
                        (option_map (fun v => print_spath (su_path v)) spec)
             && Bool.eqb b (nonempty k && is_some spec)) (c_contains c)
  && forallb (fun '(k, _) => is_some (assoc_path (c_contains c) k)) (c_subs c).

Definition prop_rejections (c : c16_case) : bool :=
  list_eqb (option_eqb suberr_eqb) (map spec_outcome (c_ops c)) (c_outs c).

(** reachability in the registry along the edges the recursive flag follows:
    type parameters, fields, element types, compact inner (not bit store/order) *)
Definition kids (t : ty) : list N :=
  flat_map (fun p => match tp_ty p with Some i => [i] | None => [] end) (t_params t) ++
  match t_def t with
  | TDComposite fs => map f_ty fs
  | TDVariant vs => flat_map (fun v => map f_ty (v_fields v)) vs
  | TDSequence e => [e]
  | TDArray _ e => [e]
  | TDCompact e => [e]
  | TDTuple es => es
  | TDPrimitive _ => []
  | TDBitSeq _ _ => []
  end.
Fixpoint add_new (l acc : list N) : list N :=
  match l with
  | [] => acc
  | x :: l' => add_new l' (if existsb (N.eqb x) acc then acc else acc ++ [x])
  end.
Definition reach_step (r : registry) (seen : list N) : list N :=
  add_new (flat_map (fun i => match resolve r i with Some t => kids t | None => [] end) seen) seen.
Definition reachable (r : registry) (id : N) : list N :=
  Nat.iter (List.length r) (reach_step r) [id].

Definition plain_key (p : list string) : string := join " :: " p.
(** the entries whose path is written [key] (every instantiation of a generic root is a root:
    behaviour after the F13 repair of flatten_recursive_derives; before it only the first was) *)
Definition entries_of (r : registry) (key : string) : list N :=
  map fst (filter (fun e => nonempty (t_path (snd e)) && String.eqb (plain_key (t_path (snd e))) key) r).
(** some entry with path [P] is reachable from some entry whose path is written [key] *)
Definition reach_from_key (r : registry) (key : string) (P : list string) : bool :=
  existsb (fun id => existsb (fun i => match resolve r i with
                                       | Some t => path_eqb (t_path t) P
                                       | None => false
                                       end) (reachable r id)) (entries_of r key).

Fixpoint ins_str (x : string) (l : list string) : list string :=
  match l with
  | [] => [x]
  | y :: l' => match String.compare x y with
               | Lt => x :: l
               | Eq => l
               | Gt => y :: ins_str x l'
               end
  end.
Definition sorted_set (l : list string) : list string := fold_right ins_str [] l.

Definition rec_keys (ops : list op) : list string :=
  flat_map (fun o => match o with
                     | OpDerivesFor k _ true | OpAttrsFor k _ true => [k_key k]
                     | _ => []
                     end) ops.

Definition expected_keys (all : list op -> list kt) (for_key : bool -> string -> list op -> list kt)
           (ops : list op) (r : registry) (P : list string) : list string :=
  sorted_set (map fst (all ops ++ for_key false (plain_key P) ops ++
                       flat_map (fun K => if reach_from_key r K P then for_key true K ops else [])
                                (rec_keys ops))).

Definition prop_derives_union (c : c16_case) : bool :=
  match c_gen c with
  | OOk _ =>
      forallb (fun '(P, (ds, ats)) =>
                 list_eqb String.eqb ds (expected_keys spec_default_derives spec_key_derives (c_ops c) (c_reg c) P)
                 && list_eqb String.eqb ats (expected_keys spec_default_attrs spec_key_attrs (c_ops c) (c_reg c) P))
              (c_items c)
  | _ => true
  end.

(** ** hypothesis / coverage counters *)
Definition hyp_some_rejected (c : c16_case) : bool := existsb is_some (c_outs c).
Definition hyp_some_rule (c : c16_case) : bool := nonempty (c_subs c).
Definition hyp_gen_ok16 (c : c16_case) : bool :=
  match c_gen c with OOk _ => nonempty (c_items c) | _ => false end.
Definition hyp_recursive_reaches (c : c16_case) : bool :=
  match c_gen c with
  | OOk _ =>
      existsb (fun '(P, _) =>
                 existsb (fun K => negb (String.eqb K (plain_key P)) && reach_from_key (c_reg c) K P
                                   && nonempty (spec_key_derives true K (c_ops c)))
                         (rec_keys (c_ops c))) (c_items c)
  | _ => false
  end.
(** some key is successfully written at least twice *)
Definition count_writes (k : list string) (ops : list op) : nat :=
  List.length (flat_map (fun o => match o with
                                  | OpSubInsert s t => if is_some (writes s t k) then [tt] else []
                                  | OpSubExtend l => flat_map (fun '(s, t) => if is_some (writes s t k) then [tt] else [])
                                                              (ext_elems l)
                                  | _ => []
                                  end) ops).
Definition hyp_overwritten (c : c16_case) : bool :=
  existsb (fun '(k, _) => Nat.leb 2 (count_writes k (c_ops c))) (c_contains c).
