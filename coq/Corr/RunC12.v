(** Correspondence and property checkers for C12 (example SCALE values). *)
From Coq Require Import List NArith ZArith Bool String.
From V Require Import Base.Util Model.Registry Model.RngWords Model.ExampleValue.
Import ListNotations.
Open Scope N_scope.

(** observed outcome of [scale_value_from_seed]: value AST, error class
    ("Recursive" | "EmptyEnum" | "MixedFields" | "NotFound" id | "Other"), or a caught panic *)
Inductive oval :=
| OOk (v : value)
| OErr (kind : string) (id : N)
| OPanic.

Record obs := mk_obs {
  o_id : N;
  o_out : oval;
  o_det : bool;      (* the same call repeated in-process gave an equal outcome *)
  o_rt : bool }.     (* real encode_as_type/decode_as_type round trip succeeded (true for non-Ok outcomes) *)

(** one seed: the first words of its ChaCha8 stream and the observations made with it *)
Record run := mk_run { r_seed : N; r_words : list N; r_obs : list obs }.

Inductive case :=
| CReg (r : registry) (small : bool) (runs : list run)   (* [small]: the tree unfolding from the observed ids (all variants) is small enough for the path-based [safeb] *)
| CProbe (seed : N) (ws : list N) (ops : list rng_op) (res : list (list Z)).

(** ** correspondence *)
Definition outcome_matches (m : xres value) (o : oval) : bool :=
  match m, o with
  | XOk v, OOk v' => value_eqb v v'
  | XErr (XRecursive _), OErr k _ => String.eqb k "Recursive"
  | XErr XEmptyEnum, OErr k _ => String.eqb k "EmptyEnum"
  | XErr XMixedFields, OErr k _ => String.eqb k "MixedFields"
  | XErr (XNotFound i), OErr k j => String.eqb k "NotFound" && (i =? j)
  | _, _ => false
  end.

Definition for_obs (f : registry -> run -> obs -> bool) (c : case) : bool :=
  match c with
  | CReg r _ runs => forallb (fun ru => forallb (f r ru) (r_obs ru)) runs
  | CProbe _ _ _ _ => true
  end.
Definition ex_obs (f : registry -> run -> obs -> bool) (c : case) : bool :=
  match c with
  | CReg r _ runs => existsb (fun ru => existsb (f r ru) (r_obs ru)) runs
  | CProbe _ _ _ _ => false
  end.

(** the model on the supplied words = the observed value / the same error class *)
Definition corr_value : case -> bool :=
  for_obs (fun r ru o => outcome_matches (example_value r (o_id o) (r_words ru)) (o_out o)).

(** the model of rand's sampling code reproduces scripted draws on the real
    generator and consumes exactly the words the real generator consumed *)
Definition corr_rng (c : case) : bool :=
  match c with
  | CReg _ _ _ => true
  | CProbe _ ws ops res =>
      match run_script ops ws with
      | Drawn out [] => list_eqb (list_eqb Z.eqb) out res
      | _ => false
      end
  end.

(** ** model-independent reachability check, linear (grey/black colouring).
    [ce]/[cm]: also reject empty enums / mixed field lists. *)
Definition children (ce cm : bool) (d : typedef) : option (list N) :=
  match d with
  | TDComposite fs => if cm && negb (fields_uniform fs) then None else Some (map f_ty fs)
  | TDVariant vs =>
      if ce && (match vs with [] => true | _ => false end) then None
      else if cm && negb (forallb (fun v => fields_uniform (v_fields v)) vs) then None
      else Some (flat_map (fun v => map f_ty (v_fields v)) vs)
  | TDSequence e => Some [e]
  | TDArray _ e => Some [e]
  | TDTuple ts => Some ts
  | TDPrimitive _ => Some []
  | TDCompact e => Some [e]
  | TDBitSeq _ _ => Some []
  end.

Definition memb (x : N) (l : list N) : bool := existsb (N.eqb x) l.

(** returns the enlarged black set, or None when a cycle / fault is reachable *)
Fixpoint dfs (fuel : nat) (ce cm : bool) (r : registry) (grey black : list N) (id : N) : option (list N) :=
  match fuel with
  | O => None
  | S fuel' =>
      if memb id black then Some black
      else if memb id grey then None
      else
        match lookup r id with
        | None => None
        | Some t =>
            match children ce cm (t_def t) with
            | None => None
            | Some ch =>
                match fold_left (fun acc c => match acc with
                                              | None => None
                                              | Some b => dfs fuel' ce cm r (id :: grey) b c
                                              end) ch (Some black) with
                | None => None
                | Some b => Some (id :: b)
                end
            end
        end
  end.

Definition dfs_ok (ce cm : bool) (r : registry) (id : N) : bool :=
  match dfs (S (List.length r)) ce cm r [] [] id with Some _ => true | None => false end.

(** no cycle, no empty enum, no mixed fields reachable from [id] *)
Definition safe_dfs (r : registry) (id : N) : bool := dfs_ok true true r id.

(** the path-based definition used in the theorem agrees with the linear one
    (evaluated where the harness measured a small tree unfolding; the path-based one unfolds DAGs) *)
Definition corr_safe (c : case) : bool :=
  match c with
  | CReg _ true _ => for_obs (fun r _ o => Bool.eqb (safeb r (o_id o)) (safe_dfs r (o_id o))) c
  | _ => true
  end.
Definition hyp_safe_compared (c : case) : bool :=
  match c with CReg _ true _ => true | _ => false end.

(** ** the input class of the round-trip clause (DESIGN 3.1, clauses 7 and 8, on
    the types reachable from the id): compact wraps an unsigned integer or a
    single-field wrapper (transitively) of one; a bit sequence has a u8/u16/u32/u64
    store and an order type whose path ends in Lsb0/Msb0; no 256-bit integer
    primitive (no Rust type produces one, and the pinned scale-encode cannot
    encode scale-value's [u8; 32] into it -- an observation outside the class,
    counted by [hyp_u256_rt_fails]). *)
Fixpoint reach (fuel : nat) (r : registry) (seen : list N) (id : N) : list N :=
  match fuel with
  | O => seen
  | S fuel' =>
      if memb id seen then seen
      else match lookup r id with
           | None => id :: seen
           | Some t =>
               match children false false (t_def t) with
               | Some ch => fold_left (reach fuel' r) ch (id :: seen)
               | None => id :: seen
               end
           end
  end.

Definition is_unsigned (p : prim) : bool :=
  match p with PU8 | PU16 | PU32 | PU64 | PU128 => true | _ => false end.

Fixpoint compact_inner_ok (fuel : nat) (r : registry) (id : N) : bool :=
  match fuel with
  | O => false
  | S fuel' =>
      match lookup r id with
      | Some t =>
          match t_def t with
          | TDPrimitive p => is_unsigned p
          | TDComposite [f] => compact_inner_ok fuel' r (f_ty f)
          | TDTuple [e] => compact_inner_ok fuel' r e
          | _ => false
          end
      | None => false
      end
  end.

Definition type_in_class (r : registry) (id : N) : bool :=
  match lookup r id with
  | None => false
  | Some t =>
      match t_def t with
      | TDCompact e => compact_inner_ok (S (List.length r)) r e
      | TDBitSeq s o =>
          match lookup r s with
          | Some ts => match t_def ts with
                       | TDPrimitive (PU8 | PU16 | PU32 | PU64) => true
                       | _ => false
                       end
          | None => false
          end &&
          match lookup r o with
          | Some t_o =>
              match t_def t_o, path_ident (t_path t_o) with
              | TDComposite [], Some n => String.eqb n "Lsb0" || String.eqb n "Msb0"
              | _, _ => false
              end
          | None => false
          end
      | TDPrimitive (PU256 | PI256) => false
      | _ => true
      end
  end.

Definition in_class (r : registry) (id : N) : bool :=
  forallb (type_in_class r) (reach (S (S (List.length r))) r [] id).

(** ** property checkers, evaluated on the OBSERVED outputs *)
Definition prop_typed : case -> bool :=
  for_obs (fun r _ o => match o_out o with OOk v => has_typeb r (o_id o) v | _ => true end).

Definition prop_roundtrip : case -> bool :=
  for_obs (fun r _ o => match o_out o with
                        | OOk _ => if in_class r (o_id o) then o_rt o else true
                        | _ => true
                        end).

Definition prop_deterministic : case -> bool := for_obs (fun _ _ o => o_det o).

Definition prop_no_panic : case -> bool :=
  for_obs (fun _ _ o => match o_out o with OPanic => false | _ => true end).

Definition prop_returns : case -> bool :=
  for_obs (fun r _ o =>
    if safe_dfs r (o_id o) then match o_out o with OOk _ => true | _ => false end else true).

(** ** classifier of known finding F10: every failed round trip of the case is
    on a value that contains a [char] (and there is one) *)
Fixpoint value_has_char (v : value) : bool :=
  let comp (c : composite value) : bool :=
    match c with
    | CNamed l => (fix go (l : list (string * value)) : bool :=
                     match l with [] => false | (_, x) :: l' => value_has_char x || go l' end) l
    | CUnnamed l => (fix go (l : list value) : bool :=
                       match l with [] => false | x :: l' => value_has_char x || go l' end) l
    end in
  match v with
  | VComposite c => comp c
  | VVariant _ c => comp c
  | VPrim (VChar _) => true
  | VPrim _ => false
  | VBits _ => false
  end.

Definition rt_failed (o : obs) : bool :=
  match o_out o with OOk _ => negb (o_rt o) | _ => false end.

Definition known_F10 (c : case) : bool :=
  ex_obs (fun r _ o => rt_failed o && in_class r (o_id o)) c &&
  for_obs (fun r _ o =>
    if rt_failed o && in_class r (o_id o) then match o_out o with OOk v => value_has_char v | _ => false end else true) c.

(** ** hypothesis hit counters *)
Definition hyp_closed (c : case) : bool :=
  match c with CReg r _ _ => closed_reg r && ids_consistent r | _ => false end.
Definition hyp_cyclic : case -> bool :=
  ex_obs (fun r _ o => (o_id o <? N.of_nat (List.length r)) && closed_reg r && negb (dfs_ok false false r (o_id o))).
Definition hyp_empty_enum : case -> bool :=
  ex_obs (fun r _ o => dfs_ok false false r (o_id o) && negb (dfs_ok true false r (o_id o))).
Definition hyp_safe : case -> bool := ex_obs (fun r _ o => safe_dfs r (o_id o)).
Definition hyp_ok : case -> bool :=
  ex_obs (fun _ _ o => match o_out o with OOk _ => true | _ => false end).
Definition hyp_err : case -> bool :=
  ex_obs (fun _ _ o => match o_out o with OErr _ _ => true | _ => false end).
Definition hyp_value_has_char : case -> bool :=
  ex_obs (fun _ _ o => match o_out o with OOk v => value_has_char v | _ => false end).

Fixpoint value_has_256 (v : value) : bool :=
  let comp (c : composite value) : bool :=
    match c with
    | CNamed l => (fix go (l : list (string * value)) : bool :=
                     match l with [] => false | (_, x) :: l' => value_has_256 x || go l' end) l
    | CUnnamed l => (fix go (l : list value) : bool :=
                       match l with [] => false | x :: l' => value_has_256 x || go l' end) l
    end in
  match v with
  | VComposite c => comp c
  | VVariant _ c => comp c
  | VPrim (VU256 _) | VPrim (VI256 _) => true
  | VPrim _ => false
  | VBits _ => false
  end.
Definition hyp_in_class : case -> bool :=
  ex_obs (fun r _ o => match o_out o with OOk _ => in_class r (o_id o) | _ => false end).
Definition hyp_u256_rt_fails : case -> bool :=
  ex_obs (fun _ _ o => match o_out o with OOk v => value_has_256 v && negb (o_rt o) | _ => false end).
(** round trip failed outside the class on a value without char and without 256-bit ints
    (compact of a non-integer, bit sequence over an arbitrary store/order id) *)
Definition hyp_other_rt_fails_outside_class : case -> bool :=
  ex_obs (fun r _ o => match o_out o with
                       | OOk v => negb (o_rt o) && negb (in_class r (o_id o)) && negb (value_has_256 v) && negb (value_has_char v)
                       | _ => false end).
