(** C07 - type substitution is complete and parameter-correct (statements only). *)
From Coq Require Import List NArith String Bool.
From V Require Import Base.Strings Base.Result Model.Registry Model.Settings Model.Subst
  Model.TypePath Model.Derives Model.Generate Model.Emit Model.Equal Proofs.GenProofs Proofs.SortDedup.
Import ListNotations.

Theorem C07_never_defined :
  forall r s teq m p v,
    generate r s teq = Ok m -> items_get m p = Some v -> subs_contains (s_subs s) p = false.
Proof. exact generate_never_defines_substituted. Qed.
Print Assumptions C07_never_defined.

Theorem C07_passthrough :
  forall s path params sub,
    subs_get (s_subs s) path = Some sub -> su_map sub = PassThrough ->
    for_path_with_params s path params = Some (Ok (TPath (print_spath (su_path sub)) params)).
Proof. exact for_path_passthrough. Qed.
Print Assumptions C07_passthrough.

(** ** completeness: a substituted path is never referenced (Proofs/SubstSpec.v, corollaries of
    [C02_resolved_nodes]).  [root_fresh s] (Proofs/ClosedProofs.v, DESIGN 3.2): the root ident
    is not [":"], neither the alloc path nor a substitute target starts with it. *)
From V Require Import Model.WellFormed Model.SubstSpec Proofs.ClosedProofs Proofs.SubstSpec.

(** in every resolved type path (field or not, any parent parameters, any depth), a [Path] node
    whose first token is the root ident spells [root :: p] for a path [p], and no [p] it spells
    has a substitution rule *)
Theorem C07_never_referenced :
  forall r s, root_fresh s ->
  forall fuel id is_field parents orig t,
  resolve_rec r s fuel id is_field parents orig = Ok t ->
  forall ptoks params, In (TPath ptoks params) (subpaths t) ->
  hd_error ptoks = Some (s_root s) ->
  (exists p, ptoks = rel_path (s_root s :: p)) /\
  (forall p, ptoks = rel_path (s_root s :: p) -> subs_get (s_subs s) p = None).
Proof. exact never_referenced_resolved. Qed.
Print Assumptions C07_never_referenced.

(** the same for every field type path of every generated item *)
Theorem C07_never_referenced_items :
  forall r s teq m,
  root_fresh s -> generate r s teq = Ok m ->
  forall p0 id ir, items_get m p0 = Some (id, ir) ->
  forall f, In f (kind_fields (ti_kind ir)) ->
  forall ptoks params, In (TPath ptoks params) (subpaths (fi_path f)) ->
  hd_error ptoks = Some (s_root s) ->
  (exists p, ptoks = rel_path (s_root s :: p)) /\
  (forall p, ptoks = rel_path (s_root s :: p) -> subs_get (s_subs s) p = None).
Proof. exact never_referenced_items. Qed.
Print Assumptions C07_never_referenced_items.

(** ** parameter correctness: the structural replacement [replace_spath] (the model of
    [replace_path_params_recursively]) equals the token-level specification [subst_spec]
    (Model/SubstSpec.v: a token equal to a source parameter name, not preceded by [::] and not
    followed by [<] or [::], is replaced by the resolved argument; every other token is
    unchanged), for every replacement list and every target, under four decidable side
    conditions on the target ([spath_gtype p] = the target as a type path):
    (i)   no name inside a non-path generic argument (tuple, array, reference ...: finding F5,
          [C07_nonpath_args_refuted]),
    (ii)  no name is one of the tokens [: < > ,] the printer emits itself,
    (iii) no name inside parenthesised arguments ([Fn(A) -> B]),
    (iv)  a name used as the first segment of a path without leading [::] is followed by [<]
          or [::], unless the path is a generic argument that is exactly the bare ident.
    Each of (i)-(iv) is necessary ([C07_nonpath_args_refuted], [C07_side_conditions_needed]). *)
Theorem C07_specified :
  forall (repl : list (string * tokens)) (p : spath),
  nonpath_mentions (map fst repl) (spath_gtype p) = false ->
  names_not_punct (map fst repl) = true ->
  paren_mentions (map fst repl) (spath_gtype p) = false ->
  heads_ok (map fst repl) false (spath_gtype p) = true ->
  print_spath (replace_spath repl p) = subst_spec repl "" (print_spath p).
Proof. exact replace_is_spec. Qed.
Print Assumptions C07_specified.

(** what a rule with declared generics returns: the target with the specification applied,
    where [names] pairs each source parameter name whose index is below the number of resolved
    arguments ([applicable m params], in the order of the rule; [subst_spec] takes the first
    match) with the tokens of the corresponding resolved argument; no own arguments *)
Theorem C07_specified_resolved :
  forall s path params sub m names,
  subs_get (s_subs s) path = Some sub -> su_map sub = Specified m ->
  Forall2 (fun (ni : string * nat) (nt : string * tokens) =>
             fst nt = fst ni /\
             exists p, nth_error params (snd ni) = Some p /\
                       tp_tokens (alloc_tokens (s_alloc s)) p = Ok (snd nt))
          (applicable m params) names ->
  spec_applicable (map fst names) (su_path sub) = true ->
  for_path_with_params s path params =
  Some (Ok (TPath (subst_spec names "" (print_spath (su_path sub))) [])).
Proof. exact specified_resolved. Qed.
Print Assumptions C07_specified_resolved.

(** with no applicable name (fewer resolved arguments than every index) the target is unchanged *)
Theorem C07_specified_no_names :
  forall s path params sub m,
  subs_get (s_subs s) path = Some sub -> su_map sub = Specified m ->
  applicable m params = [] ->
  for_path_with_params s path params = Some (Ok (TPath (print_spath (su_path sub)) [])).
Proof. exact specified_no_names. Qed.
Print Assumptions C07_specified_no_names.

(** [R] "at any depth" is false for names nested in non-path arguments (finding F5): with
    [o::Bar<A,B> => ::x::Baz<::y::Q<(A, B)>>] all other side conditions hold, the structural
    replacement leaves the target unchanged and differs from the specification *)
Theorem C07_nonpath_args_refuted :
  exists repl p,
    names_not_punct (map fst repl) = true /\
    paren_mentions (map fst repl) (spath_gtype p) = false /\
    heads_ok (map fst repl) false (spath_gtype p) = true /\
    nonpath_mentions (map fst repl) (spath_gtype p) = true /\
    print_spath (replace_spath repl p) = print_spath p /\
    print_spath (replace_spath repl p) <> subst_spec repl "" (print_spath p).
Proof. exact nonpath_args_refuted. Qed.
Print Assumptions C07_nonpath_args_refuted.

(** the hypotheses of [C07_specified] hold on a target with nested, repeated, guarded
    ([A<B>], [B::A]) and unknown ([C]) names, on which the replacement is not the identity *)
Theorem C07_specified_nonvacuous :
  spec_applicable (map fst f5_repl) ex_target = true /\
  print_spath (replace_spath f5_repl ex_target) <> print_spath ex_target.
Proof. exact ex_spec_applicable. Qed.
Print Assumptions C07_specified_nonvacuous.

(** each remaining side condition is necessary: counterexamples to the equation when exactly
    that condition fails *)
Theorem C07_side_conditions_needed :
  (* (iii) a name inside parenthesised arguments *)
  (let p := mk_spath false [("x", AParen ["("; "A"; ")"])] in
   print_spath (replace_spath f5_repl p) <> subst_spec f5_repl "" (print_spath p)) /\
  (* (iv) the whole target is a name; [A<>], a [<A>]-qualified ident, [A(..)] as arguments *)
  (let p := mk_spath false [("A", ANone)] in
   print_spath (replace_spath f5_repl p) <> subst_spec f5_repl "" (print_spath p)) /\
  (let p := mk_spath false [("x", AAngle [GType (GTPath false false [("A", AAngle [])])])] in
   print_spath (replace_spath f5_repl p) <> subst_spec f5_repl "" (print_spath p)) /\
  (let p := mk_spath false [("x", AAngle [GType (GTPath true false [("A", ANone)])])] in
   print_spath (replace_spath f5_repl p) <> subst_spec f5_repl "" (print_spath p)) /\
  (let p := mk_spath false [("x", AAngle [GType (GTPath false false [("A", AParen ["("; ")"])])])] in
   print_spath (replace_spath f5_repl p) <> subst_spec f5_repl "" (print_spath p)) /\
  (* (ii) a punctuation token as a name *)
  (let p := mk_spath false [("x", AAngle [GType (GTPath false false [("y", ANone)]);
                                           GType (GTPath false false [("z", ANone)])])] in
   print_spath (replace_spath [(",", ["u8"])] p) <> subst_spec [(",", ["u8"])] "" (print_spath p)).
Proof. exact side_conditions_needed. Qed.
Print Assumptions C07_side_conditions_needed.

(** the parser outcomes of the rule (PassThrough iff both argument lists are empty, the
    documented rejections) are pinned as [C16_rejections_parse] / [C16_rejections_kinds]. *)
