(** C07 - type substitution is complete and parameter-correct (statements only). *)
From Coq Require Import List NArith String Bool.
From V Require Import Base.Strings Base.Result Model.Registry Model.Settings Model.Subst
  Model.TypePath Model.Derives Model.Generate Model.Emit Model.Equal Proofs.GenProofs Proofs.SortDedup.
Import ListNotations.

Theorem C07_never_defined :
  forall r s teq m p v,
    generate r s teq = Ok m -> items_get m p = Some v -> subs_contains (s_subs s) p = false.
Proof. exact generate_never_defines_substituted. Qed.
Print Assumptions C07_never_defined.

Theorem C07_passthrough :
  forall s path params sub,
    subs_get (s_subs s) path = Some sub -> su_map sub = PassThrough ->
    for_path_with_params s path params = Some (Ok (TPath (print_spath (su_path sub)) params)).
Proof. exact for_path_passthrough. Qed.
Print Assumptions C07_passthrough.
