(** C18 - standalone structs built from a field list (statements only). *)
From Coq Require Import List NArith String Bool.
From V Require Import Base.Strings Base.Result Model.Registry Model.Settings Model.Subst
  Model.TypePath Model.Derives Model.Generate Model.Emit Model.Equal Proofs.GenProofs Proofs.SortDedup.
Import ListNotations.

(** for a type emitted without generic parameters, the body of its item is literally what the
    public API builds from the field list with empty type parameters *)
Theorem C18_same_fields :
  forall r s t flat ir fs,
    params_from_scale_info (t_params t) = [] -> t_def t = TDComposite fs ->
    create_type_ir r s t flat = Ok (Some ir) ->
    exists c, ti_kind ir = KStruct c /\ create_composite_ir_kind r s fs [] [] = Ok (ci_kind c, []) /\
              ti_params ir = [] /\ ti_unused ir = [].
Proof. exact struct_item_fields_standalone. Qed.
Print Assumptions C18_same_fields.

Theorem C18_derives :
  forall s c,
    ti_derives (upcast_composite s c) =
    if could_derive_as_compact (ci_kind c) then add_as_compact s (dr_default (s_dreg s))
    else dr_default (s_dreg s).
Proof. exact upcast_derives. Qed.
Print Assumptions C18_derives.

Theorem C18_shape :
  forall s c,
    ti_params (upcast_composite s c) = [] /\ ti_unused (upcast_composite s c) = [] /\
    ti_kind (upcast_composite s c) = KStruct c /\ ti_codec (upcast_composite s c) = s_codec s.
Proof. exact upcast_shape. Qed.
Print Assumptions C18_shape.

(** ** wire fidelity of standalone structs (definitions: Model/Shape.v) *)
From V Require Import Model.Shape Proofs.FidelityBase Proofs.Fidelity Proofs.FidelityGen.

(** the analogue of [C18_same_fields] for enums: every variant body of the item of a
    parameter-free enum is literally what the public API builds from the variant's field
    list with empty type parameters (names and indices as recorded) *)
Theorem C18_variant_fields :
  forall r s t flat ir vs,
    params_from_scale_info (t_params t) = [] -> t_def t = TDVariant vs ->
    create_type_ir r s t flat = Ok (Some ir) ->
    exists name docs l,
      ti_kind ir = KEnum name docs l /\ ti_params ir = [] /\
      Forall2 (fun v x => fst x = v_index v /\ ci_name (snd x) = v_name v /\
                          create_composite_ir_kind r s (v_fields v) [] [] = Ok (ci_kind (snd x), []))
              vs l.
Proof. exact enum_item_variants_standalone. Qed.
Print Assumptions C18_variant_fields.

(** the standalone struct built from ANY field list with empty type parameters, read against
    the generated items, is the [SStruct] of the registry field list: same names, order,
    boxed flags, and field types of the registry shape at every depth *)
Theorem C18_faithful :
  forall r s teq m,
    skeleton_consistent r s -> root_fresh s -> generate r s teq = Ok m ->
    forall fs k u name docs n,
      create_composite_ir_kind r s fs [] [] = Ok (k, u) ->
      item_shape m s n (upcast_composite s (mk_ci name k docs)) [] =
      SStruct (map (field_shape_reg r s n) fs).
Proof. exact standalone_faithful. Qed.
Print Assumptions C18_faithful.

(** ... which is the body the item of a parameter-free entry has: its struct body, resp. each of
    its variant bodies (with the recorded name and index), is the same [SStruct] field list *)
Theorem C18_item_body :
  forall r s teq m,
    skeleton_consistent r s -> root_fresh s -> generate r s teq = Ok m ->
    forall t flat ir n,
      params_from_scale_info (t_params t) = [] ->
      create_type_ir r s t flat = Ok (Some ir) ->
      match t_def t with
      | TDComposite fs => item_shape m s n ir [] = SStruct (map (field_shape_reg r s n) fs)
      | TDVariant vs =>
          item_shape m s n ir [] =
          SEnum (map (fun v => (v_name v, v_index v, map (field_shape_reg r s n) (v_fields v))) vs)
      | _ => True
      end.
Proof. exact param_free_item_body. Qed.
Print Assumptions C18_item_body.

(** ** the byte-level sentence: "its encoding equals the variant's payload"
    (codec: Model/Codec.v, by recursion on the shape over abstract primitive codecs [P];
    see Properties/C01.v.  No hypothesis on [P] is needed here.) *)
From V Require Import Model.Codec Model.CodecInstance Model.CodecExample
  Proofs.CodecProofs Proofs.CodecInstanceProofs Proofs.CodecExamples.

(** on shapes: the enum codec at the index of a variant = the index byte followed by the
    struct codec of that variant's field list *)
Theorem C18_enum_payload :
  forall (pv bv ov : Type) (P : prims pv bv ov)
         (vs : list (string * N * list fshape)) nm i fs,
    In (nm, i, fs) vs -> NoDup (map (fun v => snd (fst v)) vs) ->
    (forall vals,
        encode P (SEnum vs) (VEnum i vals) =
        match encode P (SStruct fs) (VStruct vals) with
        | Some e => Some (i :: e)
        | None => None
        end) /\
    (forall b,
        decode P (SEnum vs) (i :: b) =
        match decode P (SStruct fs) b with
        | Some (VStruct vals, rest) => Some (VEnum i vals, rest)
        | _ => None
        end).
Proof. exact (@enum_payload). Qed.
Print Assumptions C18_enum_payload.

(** for an enum entry [t] without non-skipped parameters whose variant indices are pairwise
    distinct, its item [ir], one of its variants [v], and the standalone struct built
    through the public API from [v]'s field list (any name / docs): the standalone struct,
    read against the generated items, is the [SStruct] of the registry field list, and
    - encoding the enum value [VEnum (v_index v) vals] with the item = the index byte followed
      by the encoding of [VStruct vals] with the standalone struct (both fail together);
    - decoding [v_index v :: b] with the item = decoding [b] with the standalone struct
      (same field values, same remainder; both fail together).
    I.e. encoding of the enum value minus the index byte = encoding of the standalone struct *)
Theorem C18_payload :
  forall (pv bv ov : Type) (P : prims pv bv ov) r s teq m,
    skeleton_consistent r s -> root_fresh s -> generate r s teq = Ok m ->
    forall t flat ir vs v k u name docs n,
      params_from_scale_info (t_params t) = [] ->
      create_type_ir r s t flat = Ok (Some ir) ->
      t_def t = TDVariant vs -> In v vs -> NoDup (map v_index vs) ->
      create_composite_ir_kind r s (v_fields v) [] [] = Ok (k, u) ->
      let enum_sh := item_shape m s n ir [] in
      let struct_sh := item_shape m s n (upcast_composite s (mk_ci name k docs)) [] in
      struct_sh = SStruct (map (field_shape_reg r s n) (v_fields v)) /\
      (forall vals,
          encode P enum_sh (VEnum (v_index v) vals) =
          match encode P struct_sh (VStruct vals) with
          | Some e => Some (v_index v :: e)
          | None => None
          end) /\
      (forall b,
          decode P enum_sh (v_index v :: b) =
          match decode P struct_sh b with
          | Some (VStruct vals, rest) => Some (VEnum (v_index v) vals, rest)
          | _ => None
          end).
Proof. exact (@standalone_payload). Qed.
Print Assumptions C18_payload.

(** the same against the enum type AS NAMED by the generator ([resolve_type_path id], read in
    the generated module one level deeper than the fields): for ANY item-eligible (not
    substituted, namespaced, not Cow) enum entry - generic or not - the generated enum encodes
    the variant as the index byte followed by what the standalone struct (built from the
    variant's field list with no parent parameters) encodes, and decodes accordingly *)
Theorem C18_payload_named :
  forall (pv bv ov : Type) (P : prims pv bv ov) r s teq m,
    skeleton_consistent r s -> root_fresh s -> generate r s teq = Ok m ->
    forall id X t vs v k u name docs n,
      resolve r id = Some X -> item_eligible s X = true ->
      path_ident (t_path X) <> Some "Cow"%string ->
      resolve_type_path r s id = Ok t ->
      t_def X = TDVariant vs -> In v vs -> NoDup (map v_index vs) ->
      create_composite_ir_kind r s (v_fields v) [] [] = Ok (k, u) ->
      let enum_sh := shape_rust m s (S n) t in
      let struct_sh := item_shape m s n (upcast_composite s (mk_ci name k docs)) [] in
      (forall vals,
          encode P enum_sh (VEnum (v_index v) vals) =
          match encode P struct_sh (VStruct vals) with
          | Some e => Some (v_index v :: e)
          | None => None
          end) /\
      (forall b,
          decode P enum_sh (v_index v :: b) =
          match decode P struct_sh b with
          | Some (VStruct vals, rest) => Some (VEnum (v_index v) vals, rest)
          | _ => None
          end).
Proof. exact (@standalone_payload_named). Qed.
Print Assumptions C18_payload_named.

(** struct entries: the standalone struct built from the field list of a parameter-free
    struct has the decoder and the encoder of the struct's own item *)
Theorem C18_struct_codec :
  forall (pv bv ov : Type) (P : prims pv bv ov) r s teq m,
    skeleton_consistent r s -> root_fresh s -> generate r s teq = Ok m ->
    forall t flat ir fs k u name docs n,
      params_from_scale_info (t_params t) = [] ->
      create_type_ir r s t flat = Ok (Some ir) ->
      t_def t = TDComposite fs ->
      create_composite_ir_kind r s fs [] [] = Ok (k, u) ->
      let struct_sh := item_shape m s n (upcast_composite s (mk_ci name k docs)) [] in
      decode P (item_shape m s n ir []) = decode P struct_sh /\
      encode P (item_shape m s n ir []) = encode P struct_sh.
Proof. exact (@standalone_struct_codec). Qed.
Print Assumptions C18_struct_codec.

(** real bytes (finite computation, concrete primitive codecs): the standalone struct built
    from the fields of variant C (index 5) of the example enum [types::a::E] encodes
    { x: 70000 (compact), y: true } to C2 45 04 00 01, the enum item encodes the variant to
    05 C2 45 04 00 01, and both decode back *)
Theorem C18_payload_example :
  item_shape cx_items cx_settings 3 cx_standalone [] =
  SStruct [(Some "x", false, SCompact (SPrim PU32)); (Some "y", false, SPrim PBool)]%string /\
  cx_payload = [194; 69; 4; 0; 1]%N /\
  encode iprims (item_shape cx_items cx_settings 3 cx_standalone [])
         (VStruct [VPrim 70000; VPrim 1]%N) = Some cx_payload /\
  encode iprims (shape_rust cx_items cx_settings 4 (cx_path 5))
         (VEnum 5 [VPrim 70000; VPrim 1]%N) = Some (5%N :: cx_payload) /\
  decode iprims (item_shape cx_items cx_settings 3 cx_standalone []) cx_payload =
  Some (VStruct [VPrim 70000; VPrim 1]%N, []) /\
  decode iprims (shape_rust cx_items cx_settings 4 (cx_path 5)) (5%N :: cx_payload) =
  Some (VEnum 5 [VPrim 70000; VPrim 1]%N, []).
Proof. exact (conj cx_standalone_shape (conj eq_refl cx_payload_bytes)). Qed.
Print Assumptions C18_payload_example.

(** ... and for EVERY list of field values, by [C18_payload_named] (whose hypotheses are
    therefore satisfiable, with the concrete primitive codecs) *)
Theorem C18_payload_example_all :
  forall vals,
    encode iprims (shape_rust cx_items cx_settings 4 (cx_path 5)) (VEnum 5 vals) =
    match encode iprims (item_shape cx_items cx_settings 3 cx_standalone []) (VStruct vals) with
    | Some e => Some (5%N :: e)
    | None => None
    end.
Proof. exact cx_payload_by_theorem. Qed.
Print Assumptions C18_payload_example_all.
