(** C10 - documented failure conditions are errors, not panics (statements only). *)
From Coq Require Import List NArith String Bool.
From V Require Import Base.Strings Base.Result Model.Registry Model.Settings Model.Subst
  Model.TypePath Model.Derives Model.Generate Model.Emit Model.Equal Model.WellFormed
  Proofs.GenProofs Proofs.SortDedup Proofs.ResolveTotal Proofs.GenTotal.
Import ListNotations.

(** a registry whose ids do not equal their positions is rejected with the id-mismatch error
    naming the first offending entry, by generation and by de-duplication, before anything else *)
Theorem C10_ids_generate :
  forall r s teq g e, first_bad r = Some (g, e) -> generate r s teq = Err (EIdsInvalid g e).
Proof. exact generate_ids_invalid. Qed.
Print Assumptions C10_ids_generate.

Theorem C10_ids_dedup :
  forall r g e, first_bad r = Some (g, e) -> ensure_unique r = Err (EIdsInvalid g e).
Proof. exact ensure_unique_ids_invalid. Qed.
Print Assumptions C10_ids_dedup.

Theorem C10_ids_iff : forall r, first_bad r = None <-> ids_consistent r = true.
Proof. exact first_bad_none_iff. Qed.
Print Assumptions C10_ids_iff.

(** ** termination and totality of path resolution (fuel sufficiency).
    [resolvable r s rank] (Model/WellFormed.v) = the registry is closed (every referenced id is
    [< length r]); [rank] strictly decreases along the non-field edges (typed type parameters,
    sequence / array / tuple elements, compact inner, bit store / order) and is [< length r] on
    valid ids; every entry satisfies [resolvable_entryb] (a last path segment ["Cow"] comes with a
    typed first parameter; Composite / Variant entries have a >= 2 segment path of lexical
    identifiers or a 1 segment path from [prelude_table]; no U256 / I256); the settings have a
    compact (bits) path whenever a Compact (BitSequence) entry exists; the inner type of every
    Compact entry - after the one-level Cow look-through of the resolver - is neither a Tuple nor
    an Array ([compact_inner_ok_at], boolean [compact_inner_okb] in [wf_regb]: a compact FIELD
    renders its inner type with [parse_quote!( #inner )] into a [syn::TypePath], which panics on
    [(..)] / [[..; n]]).
    Conclusion: with the fuel the model starts from, resolution of every valid id - as a field
    or not, under any parent parameters - is [Ok] (never [EOutOfFuel], [Panic] or another
    error), and printing the resulting path is [Ok] as well. *)
Theorem C10_resolve_total :
  forall r s rank, resolvable r s rank ->
  forall id, in_reg r id -> forall parents orig is_field,
  exists t, resolve_rec r s (fuel0 r) id is_field parents orig = Ok t /\
            exists toks, tp_tokens (alloc_tokens (s_alloc s)) t = Ok toks.
Proof. exact resolve_total. Qed.
Print Assumptions C10_resolve_total.

(** fuel sufficiency proper: any fuel above the rank of the id is enough, and the result
    contains no 256-bit primitive *)
Theorem C10_resolve_fuel :
  forall r s rank, resolvable r s rank ->
  forall fuel id is_field parents orig, in_reg r id -> rank id < fuel ->
  exists t, resolve_rec r s fuel id is_field parents orig = Ok t /\ no256 t = true.
Proof. exact resolve_rec_total. Qed.
Print Assumptions C10_resolve_fuel.

(** the invariant that makes printing total: [tokenizable t] = no 256-bit primitive and no
    compact field whose inner path is a tuple / an array.  It is exactly the class of paths on
    which [tp_tokens] is [Ok], resolution results have it, and it implies [no256]. *)
Theorem C10_tp_tokens_ok_iff :
  forall alloc t, (exists toks, tp_tokens alloc t = Ok toks) <-> tokenizable t = true.
Proof.
  intros alloc t. split.
  - intros (toks & H). exact (tp_tokens_ok_inv alloc t toks H).
  - exact (tp_tokens_ok alloc t).
Qed.
Print Assumptions C10_tp_tokens_ok_iff.

Theorem C10_resolve_fuel_tokenizable :
  forall r s rank, resolvable r s rank ->
  forall fuel id is_field parents orig, in_reg r id -> rank id < fuel ->
  exists t, resolve_rec r s fuel id is_field parents orig = Ok t /\ tokenizable t = true.
Proof. exact resolve_rec_tokenizable. Qed.
Print Assumptions C10_resolve_fuel_tokenizable.

Theorem C10_tokenizable_no256 : forall t, tokenizable t = true -> no256 t = true.
Proof. exact tokenizable_no256. Qed.
Print Assumptions C10_tokenizable_no256.

(** the boolean acyclicity check evaluated on every generated case constructs a rank function *)
Theorem C10_rank_ok_sound : forall r, rank_ok r = true -> exists rank, ranked r rank.
Proof. exact rank_ok_sound. Qed.
Print Assumptions C10_rank_ok_sound.

(** the run-time hypothesis ([hyp_wf] = [wf_regb && supportedb]) implies the Prop class *)
Theorem C10_wf_generable :
  forall r s, wf_regb r = true -> supportedb r s = true -> exists rank, generable r s rank.
Proof. exact wf_generable. Qed.
Print Assumptions C10_wf_generable.

Theorem C10_resolve_total_wf :
  forall r s, wf_regb r = true -> supportedb r s = true ->
  forall id, in_reg r id -> forall parents orig is_field,
  exists t, resolve_rec r s (fuel0 r) id is_field parents orig = Ok t /\
            exists toks, tp_tokens (alloc_tokens (s_alloc s)) t = Ok toks.
Proof. exact resolve_total_wf. Qed.
Print Assumptions C10_resolve_total_wf.

(** ** totality of generation.  [generable r s rank] = ids equal positions, [resolvable], every
    Composite / Variant entry has a non-empty path of [ident_okb] segments, [ident_okb] field and
    variant names and all-named-or-all-unnamed field lists ([item_entryb]), every path segment of
    every entry is [ident_okb] ([flat_entryb], needed by the recursive-derive flattening). *)
Theorem C10_create_type_ir_total :
  forall r s rank, generable r s rank -> forall id t flat, resolve r id = Some t ->
  exists o, create_type_ir r s t flat = Ok o /\ forall ir, o = Some ir -> ir_no256 ir.
Proof. exact create_type_ir_total_pinned. Qed.
Print Assumptions C10_create_type_ir_total.

Theorem C10_create_type_ir_total_tokenizable :
  forall r s rank, generable r s rank -> forall id t flat, resolve r id = Some t ->
  exists o, create_type_ir r s t flat = Ok o /\ forall ir, o = Some ir -> ir_tokenizable ir.
Proof. exact create_type_ir_total_tokenizable. Qed.
Print Assumptions C10_create_type_ir_total_tokenizable.

(** [flatten_recursive_derives] ([collect_type_ids] with fuel [S (length r)]) terminates *)
Theorem C10_flatten_total :
  forall dr r, ids_consistent r = true -> closed r -> entries_ok flat_entryb r ->
  exists flat, flatten dr r = Ok flat.
Proof. exact flatten_total. Qed.
Print Assumptions C10_flatten_total.

(** [types_equal] neither panics nor runs out of fuel on a closed registry *)
Theorem C10_types_equal_total :
  forall r, closed r -> forall a b, in_reg r a -> in_reg r b -> exists x, types_equal r a b = Ok x.
Proof. exact types_equal_total. Qed.
Print Assumptions C10_types_equal_total.

(** generation is [Ok] or the duplicate-path error - never a panic, fuel exhaustion or another
    error - and an [Ok] result is emitted without failure *)
Theorem C10_total :
  forall r s rank, generable r s rank ->
  (exists m, generate r s (types_equal r) = Ok m /\ exists toks, emit_module s m = Ok toks) \/
  (exists p, generate r s (types_equal r) = Err (EDuplicatePath p)).
Proof. exact generate_total_types_equal. Qed.
Print Assumptions C10_total.

Theorem C10_total_wf :
  forall r s, wf_regb r = true -> supportedb r s = true ->
  (exists m, generate r s (types_equal r) = Ok m /\ exists toks, emit_module s m = Ok toks) \/
  (exists p, generate r s (types_equal r) = Err (EDuplicatePath p)).
Proof. exact generate_total_wf. Qed.
Print Assumptions C10_total_wf.

(** ** single faults *)
(** a struct mixing named and unnamed fields (name fine) is rejected with [InvalidFields] *)
Theorem C10_fault_mixed :
  forall r s t flat fs nm,
  t_def t = TDComposite fs -> path_ident (t_path t) = Some nm -> ident_okb nm = true ->
  all_named fs || all_unnamed fs = false ->
  create_type_ir r s t flat = Err EInvalidFields.
Proof. exact fault_mixed_struct. Qed.
Print Assumptions C10_fault_mixed.

(** [variants_ir] (Proofs/GenTotal.v) is the variant loop of [create_type_ir], named *)
Theorem C10_create_type_ir_unfold :
  forall r s t flat,
  create_type_ir r s t flat =
  if negb (is_composite_or_variant (t_def t)) then Ok None
  else
    let params := params_from_scale_info (t_params t) in
    match path_ident (t_path t) with
    | None => Panic "Structs and enums should have a name"
    | Some nm =>
      let* name := parse_ident nm in
      let docs := docs_from_scale_info s (t_docs t) in
      let* kcu :=
        match t_def t with
        | TDComposite fs =>
            let* ku := create_composite_ir_kind r s fs params params in
            Ok (KStruct (mk_ci name (fst ku) docs), could_derive_as_compact (fst ku), snd ku)
        | TDVariant vs =>
            let* vu := variants_ir r s params vs params in
            Ok (KEnum name docs (fst vu), false, snd vu)
        | _ => Panic "unreachable"
        end in
      let '(kind, cdac, unused) := kcu in
      let* d := resolve_derives_for_type flat t in
      let d := if cdac then add_as_compact s d else d in
      Ok (Some (mk_ti params unused d (s_codec s) kind))
    end.
Proof. exact create_type_ir_eq. Qed.
Print Assumptions C10_create_type_ir_unfold.

(** an enum whose variants before [v] are fine and whose variant [v] mixes named and unnamed
    fields is rejected with [InvalidFields] *)
Theorem C10_fault_mixed_variant :
  forall r s t flat vs1 v vs2 nm l1 u1,
  t_def t = TDVariant (vs1 ++ v :: vs2) -> path_ident (t_path t) = Some nm -> ident_okb nm = true ->
  variants_ir r s (params_from_scale_info (t_params t)) vs1 (params_from_scale_info (t_params t))
    = Ok (l1, u1) ->
  ident_okb (v_name v) = true -> all_named (v_fields v) || all_unnamed (v_fields v) = false ->
  create_type_ir r s t flat = Err EInvalidFields.
Proof. exact fault_mixed_variant. Qed.
Print Assumptions C10_fault_mixed_variant.

(** a Compact type whose parameters and inner type resolve, without a compact path *)
Theorem C10_fault_compact :
  forall r s n id is_field parents orig t e ps i,
  find_parent parents id orig = None -> resolve r id = Some t ->
  path_ident (t_path t) <> Some "Cow"%string ->
  mapM (fun c => resolve_rec r s n c false parents None) (param_ids t) = Ok ps ->
  t_def t = TDCompact e -> resolve_rec r s n e false parents None = Ok i ->
  s_compact s = None ->
  resolve_rec r s (S n) id is_field parents orig = Err ECompactPathNone.
Proof. exact fault_compact. Qed.
Print Assumptions C10_fault_compact.

(** a BitSequence without a bits path: reported before store / order are looked at *)
Theorem C10_fault_bits :
  forall r s n id is_field parents orig t store order ps,
  find_parent parents id orig = None -> resolve r id = Some t ->
  path_ident (t_path t) <> Some "Cow"%string ->
  mapM (fun c => resolve_rec r s n c false parents None) (param_ids t) = Ok ps ->
  t_def t = TDBitSeq store order -> s_bits s = None ->
  resolve_rec r s (S n) id is_field parents orig = Err EBitsPathNone.
Proof. exact fault_bits. Qed.
Print Assumptions C10_fault_bits.

(** a reference to a missing id is [TypeNotFound id], at any position resolution reaches *)
Theorem C10_fault_missing :
  forall r s n id is_field parents orig,
  resolve r id = None -> find_parent parents id orig = None ->
  resolve_rec r s (S n) id is_field parents orig = Err (ETypeNotFound id).
Proof. exact fault_missing. Qed.
Print Assumptions C10_fault_missing.

(** ** the missing-id clause, globally (Model/MissingId.v, Proofs/MissingId*.v).
    [C10_fault_missing] above is local: one resolver step at the missing id itself.  The clause of
    the property - "a reference to a missing id [is rejected] with the type-not-found error naming
    that id ... at every possible site" - is about whole calls on a registry that is well-formed
    EXCEPT for such references.

    The class: [resolvable_but r s rank m] = [resolvable r s rank] (the class of
    [C10_resolve_total]) with "closed" replaced by "every referenced id is an id of the registry
    or [m]", [m] not an id of the registry ([rank] still decreases along every non-field edge,
    the edges to [m] included; same entry clauses; supported settings: compact / bits paths
    present).  [generable_but] adds what [generable] adds.  Any number of references to [m], at
    any site (type parameter, Cow inner, sequence / array / tuple element, compact inner, bit
    store / order, struct or variant field).

    The reachability: [reaches_missing r parents id orig m'] (inductive, mirrors [resolve_rec]):
    the call for [id] under the parent parameters [parents] and recorded name [orig] reaches a
    reference to the unresolvable id [m'] - a position answered by a parent parameter is not
    expanded; [Cow] is looked through once; then the typed parameters and the structural children
    of the entry; NOT the fields of a Composite / Variant entry. *)
From V Require Model.Renumber Model.MissingId Proofs.MissingId Proofs.MissingIdGuard Proofs.MissingIdGen
  Proofs.MissingIdDescent Proofs.ExamplesMissingId Corr.CheckTG.

(** [resolve_type_path] at every id of the registry (and at [m] itself): [TypeNotFound m] iff the
    descent reaches a reference to [m], [Ok] (with printable result) otherwise - never a panic,
    fuel exhaustion or another error.  All failures being the same one, the order of the descent
    is immaterial. *)
Theorem C10_missing_id_resolve :
  forall r s rank m, V.Model.MissingId.resolvable_but r s rank m ->
  forall id, in_reg r id \/ id = m ->
    (V.Model.MissingId.reaches_missing r [] id None m ->
     resolve_type_path r s id = Err (ETypeNotFound m)) /\
    (~ V.Model.MissingId.reaches_missing r [] id None m ->
     exists t, resolve_type_path r s id = Ok t /\
               exists toks, tp_tokens (alloc_tokens (s_alloc s)) t = Ok toks).
Proof. exact V.Proofs.MissingId.missing_id_resolve. Qed.
Print Assumptions C10_missing_id_resolve.

(** the same at every site of a nested call: any parent parameters, any recorded name, as a field
    or not ([resolve_field_type_path] is the instance [is_field = true]) *)
Theorem C10_missing_id_resolve_at_site :
  forall r s rank m, V.Model.MissingId.resolvable_but r s rank m ->
  forall id is_field parents orig, in_reg r id \/ id = m ->
    (V.Model.MissingId.reaches_missing r parents id orig m ->
     resolve_rec r s (fuel0 r) id is_field parents orig = Err (ETypeNotFound m)) /\
    (~ V.Model.MissingId.reaches_missing r parents id orig m ->
     exists t, resolve_rec r s (fuel0 r) id is_field parents orig = Ok t /\
               exists toks, tp_tokens (alloc_tokens (s_alloc s)) t = Ok toks).
Proof. exact V.Proofs.MissingId.missing_id_resolve_rec. Qed.
Print Assumptions C10_missing_id_resolve_at_site.

(** nothing but [m] can be reached *)
Theorem C10_reaches_only_missing :
  forall r s rank m, V.Model.MissingId.resolvable_but r s rank m ->
  forall parents id orig m', in_reg r id \/ id = m ->
    V.Model.MissingId.reaches_missing r parents id orig m' -> m' = m.
Proof. exact V.Proofs.MissingId.reaches_missing_is_m. Qed.
Print Assumptions C10_reaches_only_missing.

(** generation (the property's quantifier: unique item paths, no recursive derives; any
    comparison function - it is never consulted): [TypeNotFound m] iff a field of some
    item-eligible entry ([item_entry], Model/Renumber.v: not substituted, namespaced, Composite /
    Variant) reaches [m] - resolved under the entry's own typed parameters with the field's
    recorded type name, [entry_reaches_missing] - and [Ok] otherwise, and the [Ok] result is
    emitted without failure (as in [C10_total]).  No "first failing entry" is needed: every
    failure is the same one. *)
Theorem C10_missing_id_generate :
  forall r s rank m, V.Model.MissingId.generable_but r s rank m ->
  forall teq, V.Model.Renumber.unique_item_paths r s -> dr_recursive (s_dreg s) = [] ->
    ((exists e, In e r /\ V.Model.Renumber.item_entry s (snd e) = true /\
                V.Model.MissingId.entry_reaches_missing r (snd e) m) ->
     generate r s teq = Err (ETypeNotFound m)) /\
    (~ (exists e, In e r /\ V.Model.Renumber.item_entry s (snd e) = true /\
                  V.Model.MissingId.entry_reaches_missing r (snd e) m) ->
     exists items, generate r s teq = Ok items /\ exists toks, emit_module s items = Ok toks).
Proof. exact V.Proofs.MissingIdGen.missing_id_generate. Qed.
Print Assumptions C10_missing_id_generate.

(** the run-time guard of [prop_missing_id_paths] (Corr/CheckTG.v, [descent_base_ok]: the REPAIRED
    registry - every dangling reference redirected to a fresh [u8] entry - is well-formed) puts
    the registry into the class, provided all dangling references name one id *)
Theorem C10_missing_id_guard_sound :
  forall r s m,
    wf_regb (V.Corr.CheckTG.repair_reg r) = true -> supportedb r s = true ->
    (forall c, In c (V.Corr.CheckTG.dangling_refs r) -> c = m) -> ~ in_reg r m ->
    ids_consistent r = true ->
    exists rank, V.Model.MissingId.generable_but r s rank m.
Proof. exact V.Proofs.MissingIdGuard.guard_generable_but. Qed.
Print Assumptions C10_missing_id_guard_sound.

(** the independent descent of the run-time checkers is a correct worklist closure, for ANY
    registry and settings: when [descent_rounds] answers [Some fails], [fails] is exactly the set
    of failures [descent_step] raises at the ids reachable from the root along its edges *)
Theorem C10_descent_rounds_closure :
  forall r s n id fails,
    V.Corr.CheckTG.descent_rounds n r s [] [] [id] [] = Some fails ->
    forall f, In f fails <->
              exists v, V.Proofs.MissingIdDescent.dreach r s id v /\ V.Proofs.MissingIdDescent.dfails r s v f.
Proof. exact V.Proofs.MissingIdDescent.descent_rounds_spec. Qed.
Print Assumptions C10_descent_rounds_closure.

(** ... on the class it computes [reaches_missing]: only [FMissing m] is collected, and something
    is collected iff the root reaches [m] *)
Theorem C10_descent_computes_reaches :
  forall r s rank m, V.Model.MissingId.resolvable_but r s rank m ->
  forall n id fails, in_reg r id \/ id = m ->
    V.Corr.CheckTG.descent_rounds n r s [] [] [id] [] = Some fails ->
    (forall f, In f fails -> f = V.Corr.CheckTG.FMissing m) /\
    (fails <> [] <-> V.Model.MissingId.reaches_missing r [] id None m).
Proof. exact V.Proofs.MissingIdDescent.descent_rounds_reaches. Qed.
Print Assumptions C10_descent_computes_reaches.

(** ... hence the checker's verdict IS the model's outcome: what [prop_missing_id_paths] demands of
    the observed [resolve_type_path] holds of the model's ([DUnsure] = round budget exhausted:
    nothing is claimed) *)
Theorem C10_path_verdict_model :
  forall r s rank m, V.Model.MissingId.resolvable_but r s rank m ->
  forall id, in_reg r id \/ id = m ->
    match V.Corr.CheckTG.path_verdict r s id with
    | V.Corr.CheckTG.DClean =>
        ~ V.Model.MissingId.reaches_missing r [] id None m /\ exists t, resolve_type_path r s id = Ok t
    | V.Corr.CheckTG.DFail f =>
        f = V.Corr.CheckTG.FMissing m /\ V.Model.MissingId.reaches_missing r [] id None m /\
        resolve_type_path r s id = Err (ETypeNotFound m)
    | V.Corr.CheckTG.DUnsure => True
    end.
Proof. exact V.Proofs.MissingIdDescent.path_verdict_model. Qed.
Print Assumptions C10_path_verdict_model.

(** non-vacuity: a::S { x: Vec<#7>, y: u8 }, Vec<#7>, u8, a::T { y: u8 }, (u8, Vec<#7>); ids 0 - 4, the
    id 7 is missing.  The tuple reaches it (error, checker verdict [DFail (FMissing 7)]); the
    struct a::S does not as a PATH (clean) but generation resolves its field and fails. *)
Theorem C10_missing_id_example :
  exists r s m rank,
    V.Model.MissingId.generable_but r s rank m /\ V.Model.Renumber.unique_item_paths r s /\
    dr_recursive (s_dreg s) = [] /\
    V.Model.MissingId.reaches_missing r [] 4 None m /\
    resolve_type_path r s 4 = Err (ETypeNotFound m) /\
    V.Corr.CheckTG.path_verdict r s 4 = V.Corr.CheckTG.DFail (V.Corr.CheckTG.FMissing m) /\
    ~ V.Model.MissingId.reaches_missing r [] 0 None m /\
    (exists t, resolve_type_path r s 0 = Ok t) /\
    V.Corr.CheckTG.path_verdict r s 0 = V.Corr.CheckTG.DClean /\
    (exists e, In e r /\ V.Model.Renumber.item_entry s (snd e) = true /\
               V.Model.MissingId.entry_reaches_missing r (snd e) m) /\
    generate r s (types_equal r) = Err (ETypeNotFound m).
Proof. exact V.Proofs.ExamplesMissingId.missing_id_example. Qed.
Print Assumptions C10_missing_id_example.

(** the other two verdicts of the run-time checkers (Proofs/MissingIdVerdicts.v).
    [field_verdict r s t f]: the closure below the field's root with the ids of the entry's typed
    parameters as stop list (a position answered by a parent parameter is not expanded; at the root
    the recorded type name must match as well).  It is the outcome of the model's
    [resolve_field_type_path] at that field, [freach] = the field reaches [m] under the entry's
    parameters ([reaches_missing r (params_from_scale_info (t_params t)) (f_ty f) (f_type_name f) m]) *)
From V Require Proofs.MissingIdVerdicts.

Theorem C10_field_verdict_model :
  forall r s rank m, V.Model.MissingId.generable_but r s rank m ->
  forall t f, in_reg r (f_ty f) \/ f_ty f = m ->
    match V.Corr.CheckTG.field_verdict r s t f with
    | V.Corr.CheckTG.DClean =>
        ~ V.Proofs.MissingIdGen.freach r m (params_from_scale_info (t_params t)) f /\
        exists p, resolve_field_type_path r s (f_ty f) (params_from_scale_info (t_params t))
                                          (f_type_name f) = Ok p
    | V.Corr.CheckTG.DFail x =>
        x = V.Corr.CheckTG.FMissing m /\
        V.Proofs.MissingIdGen.freach r m (params_from_scale_info (t_params t)) f /\
        resolve_field_type_path r s (f_ty f) (params_from_scale_info (t_params t))
                                (f_type_name f) = Err (ETypeNotFound m)
    | V.Corr.CheckTG.DUnsure => True
    end.
Proof. exact V.Proofs.MissingIdVerdicts.field_verdict_model. Qed.
Print Assumptions C10_field_verdict_model.

(** [gen_verdict]: entries in registry order, fields in field order, the first field that is not
    clean decides.  With unique item paths and no recursive derives it is the outcome of the model's
    [generate] (any comparison function) *)
Theorem C10_gen_verdict_model :
  forall r s rank m, V.Model.MissingId.generable_but r s rank m ->
  forall teq, V.Model.Renumber.unique_item_paths r s -> dr_recursive (s_dreg s) = [] ->
    match fst (V.Corr.CheckTG.gen_verdict r s) with
    | V.Corr.CheckTG.DClean =>
        exists items, generate r s teq = Ok items /\ exists toks, emit_module s items = Ok toks
    | V.Corr.CheckTG.DFail x =>
        x = V.Corr.CheckTG.FMissing m /\ generate r s teq = Err (ETypeNotFound m)
    | V.Corr.CheckTG.DUnsure => True
    end.
Proof. exact V.Proofs.MissingIdVerdicts.gen_verdict_model. Qed.
Print Assumptions C10_gen_verdict_model.

(** on the example registry of [C10_missing_id_example] the generation verdict is a definite one *)
Theorem C10_gen_verdict_example :
  V.Corr.CheckTG.gen_verdict V.Proofs.MissingIdGuard.missing_ex_reg V.Model.ExamplesTG.ex_set =
  (V.Corr.CheckTG.DFail (V.Corr.CheckTG.FMissing 7), false).
Proof. exact V.Proofs.ExamplesMissingId.missing_ex_gen_verdict. Qed.
Print Assumptions C10_gen_verdict_example.

(** the round budget [descent_budget] always suffices (every round expands at least one new id,
    all of them the root or referenced ids), so on the class the verdicts are DEFINITE: never
    [DUnsure].  The path verdict together with the model's outcome: *)
Theorem C10_path_verdict_definite :
  forall r s rank m, V.Model.MissingId.generable_but r s rank m ->
  forall id, in_reg r id \/ id = m ->
    (V.Corr.CheckTG.path_verdict r s id = V.Corr.CheckTG.DClean /\
     exists t, resolve_type_path r s id = Ok t) \/
    (V.Corr.CheckTG.path_verdict r s id = V.Corr.CheckTG.DFail (V.Corr.CheckTG.FMissing m) /\
     resolve_type_path r s id = Err (ETypeNotFound m)).
Proof. exact V.Proofs.MissingIdVerdicts.path_verdict_definite. Qed.
Print Assumptions C10_path_verdict_definite.

Theorem C10_field_verdict_definite :
  forall r s rank m, V.Model.MissingId.generable_but r s rank m ->
  forall t f, in_reg r (f_ty f) \/ f_ty f = m ->
    V.Corr.CheckTG.field_verdict r s t f = V.Corr.CheckTG.DClean \/
    V.Corr.CheckTG.field_verdict r s t f = V.Corr.CheckTG.DFail (V.Corr.CheckTG.FMissing m).
Proof. exact V.Proofs.MissingIdVerdicts.field_verdict_definite. Qed.
Print Assumptions C10_field_verdict_definite.

(** the whole claim of the run-time checker [prop_missing_id_paths] (every [resolve_type_path]
    outcome and the generation outcome against the independent descent) evaluated on the MODEL's
    own outcomes is [true]: for a case whose recorded outcomes are the model's ([corr_paths],
    [corr_gen]) on a registry of the class, with unique item paths and no recursive derives (the
    property's quantifier).  So what the checker demands of the implementation is a consequence of
    the theorems above plus the behavioural correspondence. *)
From V Require Corr.RunTG.

Theorem C10_checker_on_model :
  forall (c : V.Corr.RunTG.tg_case) rank m,
    V.Model.MissingId.generable_but (V.Corr.RunTG.tg_reg c)
      (V.Corr.RunTG.settings_of (V.Corr.RunTG.tg_spec c)) rank m ->
    V.Model.Renumber.unique_item_paths (V.Corr.RunTG.tg_reg c)
      (V.Corr.RunTG.settings_of (V.Corr.RunTG.tg_spec c)) ->
    dr_recursive (s_dreg (V.Corr.RunTG.settings_of (V.Corr.RunTG.tg_spec c))) = [] ->
    V.Corr.RunTG.tg_paths c =
      map (fun i => V.Corr.RunTG.obs_of
                      (V.Corr.RunTG.model_path (V.Corr.RunTG.tg_reg c)
                         (V.Corr.RunTG.settings_of (V.Corr.RunTG.tg_spec c)) i))
          (V.Corr.RunTG.ids_of (V.Corr.RunTG.tg_reg c)) ->
    V.Corr.RunTG.tg_gen c =
      V.Corr.RunTG.obs_of (V.Corr.RunTG.model_gen (V.Corr.RunTG.tg_reg c)
                             (V.Corr.RunTG.settings_of (V.Corr.RunTG.tg_spec c))) ->
    V.Corr.CheckTG.prop_missing_id_paths c = true.
Proof. exact V.Proofs.MissingIdVerdicts.prop_missing_id_paths_on_model. Qed.
Print Assumptions C10_checker_on_model.
