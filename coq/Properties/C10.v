(** C10 - documented failure conditions are errors, not panics (statements only). *)
From Coq Require Import List NArith String Bool.
From V Require Import Base.Strings Base.Result Model.Registry Model.Settings Model.Subst
  Model.TypePath Model.Derives Model.Generate Model.Emit Model.Equal Proofs.GenProofs Proofs.SortDedup.
Import ListNotations.

(** a registry whose ids do not equal their positions is rejected with the id-mismatch error
    naming the first offending entry, by generation and by de-duplication, before anything else *)
Theorem C10_ids_generate :
  forall r s teq g e, first_bad r = Some (g, e) -> generate r s teq = Err (EIdsInvalid g e).
Proof. exact generate_ids_invalid. Qed.
Print Assumptions C10_ids_generate.

Theorem C10_ids_dedup :
  forall r g e, first_bad r = Some (g, e) -> ensure_unique r = Err (EIdsInvalid g e).
Proof. exact ensure_unique_ids_invalid. Qed.
Print Assumptions C10_ids_dedup.

Theorem C10_ids_iff : forall r, first_bad r = None <-> ids_consistent r = true.
Proof. exact first_bad_none_iff. Qed.
Print Assumptions C10_ids_iff.
