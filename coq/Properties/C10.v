(** C10 - documented failure conditions are errors, not panics (statements only). *)
From Coq Require Import List NArith String Bool.
From V Require Import Base.Strings Base.Result Model.Registry Model.Settings Model.Subst
  Model.TypePath Model.Derives Model.Generate Model.Emit Model.Equal Model.WellFormed
  Proofs.GenProofs Proofs.SortDedup Proofs.ResolveTotal Proofs.GenTotal.
Import ListNotations.

(** a registry whose ids do not equal their positions is rejected with the id-mismatch error
    naming the first offending entry, by generation and by de-duplication, before anything else *)
Theorem C10_ids_generate :
  forall r s teq g e, first_bad r = Some (g, e) -> generate r s teq = Err (EIdsInvalid g e).
Proof. exact generate_ids_invalid. Qed.
Print Assumptions C10_ids_generate.

Theorem C10_ids_dedup :
  forall r g e, first_bad r = Some (g, e) -> ensure_unique r = Err (EIdsInvalid g e).
Proof. exact ensure_unique_ids_invalid. Qed.
Print Assumptions C10_ids_dedup.

Theorem C10_ids_iff : forall r, first_bad r = None <-> ids_consistent r = true.
Proof. exact first_bad_none_iff. Qed.
Print Assumptions C10_ids_iff.

(** ** termination and totality of path resolution (fuel sufficiency).
    [resolvable r s rank] (Model/WellFormed.v) = the registry is closed (every referenced id is
    [< length r]); [rank] strictly decreases along the non-field edges (typed type parameters,
    sequence / array / tuple elements, compact inner, bit store / order) and is [< length r] on
    valid ids; every entry satisfies [resolvable_entryb] (a last path segment ["Cow"] comes with a
    typed first parameter; Composite / Variant entries have a >= 2 segment path of lexical
    identifiers or a 1 segment path from [prelude_table]; no U256 / I256); the settings have a
    compact (bits) path whenever a Compact (BitSequence) entry exists; the inner type of every
    Compact entry - after the one-level Cow look-through of the resolver - is neither a Tuple nor
    an Array ([compact_inner_ok_at], boolean [compact_inner_okb] in [wf_regb]: a compact FIELD
    renders its inner type with [parse_quote!( #inner )] into a [syn::TypePath], which panics on
    [(..)] / [[..; n]]).
    Conclusion: with the fuel the model starts from, resolution of every valid id - as a field
    or not, under any parent parameters - is [Ok] (never [EOutOfFuel], [Panic] or another
    error), and printing the resulting path is [Ok] as well. *)
Theorem C10_resolve_total :
  forall r s rank, resolvable r s rank ->
  forall id, in_reg r id -> forall parents orig is_field,
  exists t, resolve_rec r s (fuel0 r) id is_field parents orig = Ok t /\
            exists toks, tp_tokens (alloc_tokens (s_alloc s)) t = Ok toks.
Proof. exact resolve_total. Qed.
Print Assumptions C10_resolve_total.

(** fuel sufficiency proper: any fuel above the rank of the id is enough, and the result
    contains no 256-bit primitive *)
Theorem C10_resolve_fuel :
  forall r s rank, resolvable r s rank ->
  forall fuel id is_field parents orig, in_reg r id -> rank id < fuel ->
  exists t, resolve_rec r s fuel id is_field parents orig = Ok t /\ no256 t = true.
Proof. exact resolve_rec_total. Qed.
Print Assumptions C10_resolve_fuel.

(** the invariant that makes printing total: [tokenizable t] = no 256-bit primitive and no
    compact field whose inner path is a tuple / an array.  It is exactly the class of paths on
    which [tp_tokens] is [Ok], resolution results have it, and it implies [no256]. *)
Theorem C10_tp_tokens_ok_iff :
  forall alloc t, (exists toks, tp_tokens alloc t = Ok toks) <-> tokenizable t = true.
Proof.
  intros alloc t. split.
  - intros (toks & H). exact (tp_tokens_ok_inv alloc t toks H).
  - exact (tp_tokens_ok alloc t).
Qed.
Print Assumptions C10_tp_tokens_ok_iff.

Theorem C10_resolve_fuel_tokenizable :
  forall r s rank, resolvable r s rank ->
  forall fuel id is_field parents orig, in_reg r id -> rank id < fuel ->
  exists t, resolve_rec r s fuel id is_field parents orig = Ok t /\ tokenizable t = true.
Proof. exact resolve_rec_tokenizable. Qed.
Print Assumptions C10_resolve_fuel_tokenizable.

Theorem C10_tokenizable_no256 : forall t, tokenizable t = true -> no256 t = true.
Proof. exact tokenizable_no256. Qed.
Print Assumptions C10_tokenizable_no256.

(** the boolean acyclicity check evaluated on every generated case constructs a rank function *)
Theorem C10_rank_ok_sound : forall r, rank_ok r = true -> exists rank, ranked r rank.
Proof. exact rank_ok_sound. Qed.
Print Assumptions C10_rank_ok_sound.

(** the run-time hypothesis ([hyp_wf] = [wf_regb && supportedb]) implies the Prop class *)
Theorem C10_wf_generable :
  forall r s, wf_regb r = true -> supportedb r s = true -> exists rank, generable r s rank.
Proof. exact wf_generable. Qed.
Print Assumptions C10_wf_generable.

Theorem C10_resolve_total_wf :
  forall r s, wf_regb r = true -> supportedb r s = true ->
  forall id, in_reg r id -> forall parents orig is_field,
  exists t, resolve_rec r s (fuel0 r) id is_field parents orig = Ok t /\
            exists toks, tp_tokens (alloc_tokens (s_alloc s)) t = Ok toks.
Proof. exact resolve_total_wf. Qed.
Print Assumptions C10_resolve_total_wf.

(** ** totality of generation.  [generable r s rank] = ids equal positions, [resolvable], every
    Composite / Variant entry has a non-empty path of [ident_okb] segments, [ident_okb] field and
    variant names and all-named-or-all-unnamed field lists ([item_entryb]), every path segment of
    every entry is [ident_okb] ([flat_entryb], needed by the recursive-derive flattening). *)
Theorem C10_create_type_ir_total :
  forall r s rank, generable r s rank -> forall id t flat, resolve r id = Some t ->
  exists o, create_type_ir r s t flat = Ok o /\ forall ir, o = Some ir -> ir_no256 ir.
Proof. exact create_type_ir_total_pinned. Qed.
Print Assumptions C10_create_type_ir_total.

Theorem C10_create_type_ir_total_tokenizable :
  forall r s rank, generable r s rank -> forall id t flat, resolve r id = Some t ->
  exists o, create_type_ir r s t flat = Ok o /\ forall ir, o = Some ir -> ir_tokenizable ir.
Proof. exact create_type_ir_total_tokenizable. Qed.
Print Assumptions C10_create_type_ir_total_tokenizable.

(** [flatten_recursive_derives] ([collect_type_ids] with fuel [S (length r)]) terminates *)
Theorem C10_flatten_total :
  forall dr r, ids_consistent r = true -> closed r -> entries_ok flat_entryb r ->
  exists flat, flatten dr r = Ok flat.
Proof. exact flatten_total. Qed.
Print Assumptions C10_flatten_total.

(** [types_equal] neither panics nor runs out of fuel on a closed registry *)
Theorem C10_types_equal_total :
  forall r, closed r -> forall a b, in_reg r a -> in_reg r b -> exists x, types_equal r a b = Ok x.
Proof. exact types_equal_total. Qed.
Print Assumptions C10_types_equal_total.

(** generation is [Ok] or the duplicate-path error - never a panic, fuel exhaustion or another
    error - and an [Ok] result is emitted without failure *)
Theorem C10_total :
  forall r s rank, generable r s rank ->
  (exists m, generate r s (types_equal r) = Ok m /\ exists toks, emit_module s m = Ok toks) \/
  (exists p, generate r s (types_equal r) = Err (EDuplicatePath p)).
Proof. exact generate_total_types_equal. Qed.
Print Assumptions C10_total.

Theorem C10_total_wf :
  forall r s, wf_regb r = true -> supportedb r s = true ->
  (exists m, generate r s (types_equal r) = Ok m /\ exists toks, emit_module s m = Ok toks) \/
  (exists p, generate r s (types_equal r) = Err (EDuplicatePath p)).
Proof. exact generate_total_wf. Qed.
Print Assumptions C10_total_wf.

(** ** single faults *)
(** a struct mixing named and unnamed fields (name fine) is rejected with [InvalidFields] *)
Theorem C10_fault_mixed :
  forall r s t flat fs nm,
  t_def t = TDComposite fs -> path_ident (t_path t) = Some nm -> ident_okb nm = true ->
  all_named fs || all_unnamed fs = false ->
  create_type_ir r s t flat = Err EInvalidFields.
Proof. exact fault_mixed_struct. Qed.
Print Assumptions C10_fault_mixed.

(** [variants_ir] (Proofs/GenTotal.v) is the variant loop of [create_type_ir], named *)
Theorem C10_create_type_ir_unfold :
  forall r s t flat,
  create_type_ir r s t flat =
  if negb (is_composite_or_variant (t_def t)) then Ok None
  else
    let params := params_from_scale_info (t_params t) in
    match path_ident (t_path t) with
    | None => Panic "Structs and enums should have a name"
    | Some nm =>
      let* name := parse_ident nm in
      let docs := docs_from_scale_info s (t_docs t) in
      let* kcu :=
        match t_def t with
        | TDComposite fs =>
            let* ku := create_composite_ir_kind r s fs params params in
            Ok (KStruct (mk_ci name (fst ku) docs), could_derive_as_compact (fst ku), snd ku)
        | TDVariant vs =>
            let* vu := variants_ir r s params vs params in
            Ok (KEnum name docs (fst vu), false, snd vu)
        | _ => Panic "unreachable"
        end in
      let '(kind, cdac, unused) := kcu in
      let* d := resolve_derives_for_type flat t in
      let d := if cdac then add_as_compact s d else d in
      Ok (Some (mk_ti params unused d (s_codec s) kind))
    end.
Proof. exact create_type_ir_eq. Qed.
Print Assumptions C10_create_type_ir_unfold.

(** an enum whose variants before [v] are fine and whose variant [v] mixes named and unnamed
    fields is rejected with [InvalidFields] *)
Theorem C10_fault_mixed_variant :
  forall r s t flat vs1 v vs2 nm l1 u1,
  t_def t = TDVariant (vs1 ++ v :: vs2) -> path_ident (t_path t) = Some nm -> ident_okb nm = true ->
  variants_ir r s (params_from_scale_info (t_params t)) vs1 (params_from_scale_info (t_params t))
    = Ok (l1, u1) ->
  ident_okb (v_name v) = true -> all_named (v_fields v) || all_unnamed (v_fields v) = false ->
  create_type_ir r s t flat = Err EInvalidFields.
Proof. exact fault_mixed_variant. Qed.
Print Assumptions C10_fault_mixed_variant.

(** a Compact type whose parameters and inner type resolve, without a compact path *)
Theorem C10_fault_compact :
  forall r s n id is_field parents orig t e ps i,
  find_parent parents id orig = None -> resolve r id = Some t ->
  path_ident (t_path t) <> Some "Cow"%string ->
  mapM (fun c => resolve_rec r s n c false parents None) (param_ids t) = Ok ps ->
  t_def t = TDCompact e -> resolve_rec r s n e false parents None = Ok i ->
  s_compact s = None ->
  resolve_rec r s (S n) id is_field parents orig = Err ECompactPathNone.
Proof. exact fault_compact. Qed.
Print Assumptions C10_fault_compact.

(** a BitSequence without a bits path: reported before store / order are looked at *)
Theorem C10_fault_bits :
  forall r s n id is_field parents orig t store order ps,
  find_parent parents id orig = None -> resolve r id = Some t ->
  path_ident (t_path t) <> Some "Cow"%string ->
  mapM (fun c => resolve_rec r s n c false parents None) (param_ids t) = Ok ps ->
  t_def t = TDBitSeq store order -> s_bits s = None ->
  resolve_rec r s (S n) id is_field parents orig = Err EBitsPathNone.
Proof. exact fault_bits. Qed.
Print Assumptions C10_fault_bits.

(** a reference to a missing id is [TypeNotFound id], at any position resolution reaches *)
Theorem C10_fault_missing :
  forall r s n id is_field parents orig,
  resolve r id = None -> find_parent parents id orig = None ->
  resolve_rec r s (S n) id is_field parents orig = Err (ETypeNotFound id).
Proof. exact fault_missing. Qed.
Print Assumptions C10_fault_missing.
