(** C04 - path de-duplication contract (statements only; proofs in Proofs/DedupProofs.v).

    Full statement of the property: after [ensure_unique] only the final path segment of
    types that shared a path with a differently shaped type has changed; generation no longer
    fails with the duplicate-path error; instantiations of one generic definition still share
    a path; a second run changes nothing; new names are old ++ 1..k in order of first appearance.
    Sufficiency and idempotence are REFUTED on the faithful model (findings F4, F12: see
    [C04_sufficient_refuted] below); frame, numbering and error clauses are proved. *)
From Coq Require Import List NArith String Bool.
From V Require Import Base.Strings Base.Result Model.Registry Model.Derives Model.Equal
  Model.DedupSpec Proofs.GenProofs Proofs.DedupProofs Proofs.DedupGroups.
Import ListNotations.
Open Scope string_scope.

(** frame: same length and, per position, same id, parameters, definition, docs; the path is
    unchanged or only its last segment became old ++ decimal n *)
Theorem C04_frame : forall r r', ensure_unique r = Ok r' -> Forall2 entry_frame r r'.
Proof. exact ensure_unique_frame. Qed.
Print Assumptions C04_frame.

Theorem C04_namespace_untouched :
  forall p n, p <> [] -> namespace (rename_last p n) = namespace p.
Proof. exact rename_last_namespace. Qed.
Print Assumptions C04_namespace_untouched.

Theorem C04_new_name : forall p n, last (rename_last p n) "" = String.append (last p "") (N_to_string n).
Proof. exact rename_last_last. Qed.
Print Assumptions C04_new_name.

(** numbering: the suffix of an entry is the 1-based position of its shape group among the
    groups (in order of first appearance) of a path with at least two groups *)
Theorem C04_numbering :
  forall m i n, suffix_for m i = Some n ->
    exists p gs, In (p, gs) m /\ (2 <= List.length gs)%nat /\ group_index i gs 1%N = Some n.
Proof. exact suffix_for_spec. Qed.
Print Assumptions C04_numbering.

Theorem C04_numbering_from_one : forall m i n, suffix_for m i = Some n -> (1 <= n)%N.
Proof. exact suffix_for_ge_1. Qed.
Print Assumptions C04_numbering_from_one.

(** minimality: families forming a single shape group are untouched *)
Theorem C04_single_group_untouched :
  forall m i, (forall p gs, In (p, gs) m -> (List.length gs <= 1)%nat) -> suffix_for m i = None.
Proof. exact suffix_for_single. Qed.
Print Assumptions C04_single_group_untouched.

(** error: inconsistent ids are rejected first *)
Theorem C04_error :
  forall r g e, first_bad r = Some (g, e) -> ensure_unique r = Err (EIdsInvalid g e).
Proof. exact ensure_unique_ids_invalid. Qed.
Print Assumptions C04_error.

(** ** refutation of sufficiency / idempotence on the faithful model (finding F4):
    a::Foo(u8), a::Foo(u16), a::Foo1(u32) *)
Definition f4_reg : registry :=
  [ (0%N, mk_ty ["a"; "Foo"] [] (TDComposite [mk_field None 3%N None []]) []);
    (1%N, mk_ty ["a"; "Foo"] [] (TDComposite [mk_field None 4%N None []]) []);
    (2%N, mk_ty ["a"; "Foo1"] [] (TDComposite [mk_field None 5%N None []]) []);
    (3%N, mk_ty [] [] (TDPrimitive PU8) []);
    (4%N, mk_ty [] [] (TDPrimitive PU16) []);
    (5%N, mk_ty [] [] (TDPrimitive PU32) []) ].

Definition paths_of (r : registry) := map (fun e => t_path (snd e)) r.

Theorem C04_idempotent_refuted :
  exists r r1 r2, ensure_unique r = Ok r1 /\ ensure_unique r1 = Ok r2 /\ paths_of r1 <> paths_of r2.
Proof.
  exists f4_reg. eexists. eexists.
  split; [vm_compute; reflexivity|]. split; [vm_compute; reflexivity|].
  vm_compute. discriminate.
Qed.
Print Assumptions C04_idempotent_refuted.

(** after the pass two differently shaped types share the path a::Foo1 *)
Theorem C04_sufficient_refuted :
  exists r r1, ensure_unique r = Ok r1 /\
    exists i j ti tj, i <> j /\ nth_error r1 i = Some ti /\ nth_error r1 j = Some tj /\
      t_path (snd ti) = t_path (snd tj) /\ types_equal_res r1 (fst ti) (fst tj) = Ok false.
Proof.
  exists f4_reg. eexists. split; [vm_compute; reflexivity|].
  exists 0%nat, 2%nat. eexists. eexists. repeat split; try (vm_compute; reflexivity). discriminate.
Qed.
Print Assumptions C04_sufficient_refuted.

(** *** the clauses above tied to the registry: [m] is THE groups map of the pass
    (characterised by C03_dedup_groups); positions are list positions of [r] / [r']. *)

(** minimality: the path of an entry changes iff it is namespaced and its path family was
    split into at least two groups *)
Theorem C04_minimal :
  forall r r', ensure_unique r = Ok r' ->
  exists m, build_groups r = Ok m /\
    forall n e e', nth_error r n = Some e -> nth_error r' n = Some e' ->
      (t_path (snd e') <> t_path (snd e) <->
       namespace (t_path (snd e)) <> [] /\
       exists gs, In (t_path (snd e), gs) m /\ (2 <= List.length gs)%nat).
Proof. exact ensure_unique_minimal. Qed.
Print Assumptions C04_minimal.

(** ... and then the new path is the old one with the 1-based index of the entry's group
    appended to the last segment *)
Theorem C04_renamed_path :
  forall r r', ensure_unique r = Ok r' ->
  exists m, build_groups r = Ok m /\
    forall n e e' gs, nth_error r n = Some e -> nth_error r' n = Some e' ->
      namespace (t_path (snd e)) <> [] -> In (t_path (snd e), gs) m -> (2 <= List.length gs)%nat ->
      exists k, group_index (N.of_nat n) gs 1%N = Some k /\
                t_path (snd e') = rename_last (t_path (snd e)) k.
Proof. exact ensure_unique_renamed_path. Qed.
Print Assumptions C04_renamed_path.

(** the new path of every position, all cases at once *)
Theorem C04_new_path_cases :
  forall r r', ensure_unique r = Ok r' ->
  exists m, build_groups r = Ok m /\
    forall n e e', nth_error r n = Some e -> nth_error r' n = Some e' ->
      (namespace (t_path (snd e)) = [] /\ t_path (snd e') = t_path (snd e)) \/
      (namespace (t_path (snd e)) <> [] /\
       exists gs, In (t_path (snd e), gs) m /\
         ((List.length gs < 2)%nat /\ t_path (snd e') = t_path (snd e) \/
          (2 <= List.length gs)%nat /\
          exists k, group_index (N.of_nat n) gs 1%N = Some k /\
                    t_path (snd e') = rename_last (t_path (snd e)) k)).
Proof. exact ensure_unique_path. Qed.
Print Assumptions C04_new_path_cases.

(** two entries that shared a namespaced path share one after the pass iff they are members of
    one group *)
Theorem C04_same_group_iff_same_path :
  forall r r', ensure_unique r = Ok r' ->
  exists m, build_groups r = Ok m /\
    forall i j ei ej ei' ej',
      nth_error r i = Some ei -> nth_error r j = Some ej ->
      nth_error r' i = Some ei' -> nth_error r' j = Some ej' ->
      t_path (snd ei) = t_path (snd ej) -> namespace (t_path (snd ei)) <> [] ->
      (t_path (snd ei') = t_path (snd ej') <->
       exists gs g, In (t_path (snd ei), gs) m /\ In g gs /\ In (N.of_nat i) g /\ In (N.of_nat j) g).
Proof. exact ensure_unique_same_group_iff. Qed.
Print Assumptions C04_same_group_iff_same_path.

Theorem C04_same_group_same_path :
  forall r r' m i j ei ej ei' ej' gs g,
    ensure_unique r = Ok r' -> build_groups r = Ok m ->
    nth_error r i = Some ei -> nth_error r j = Some ej ->
    nth_error r' i = Some ei' -> nth_error r' j = Some ej' ->
    In (t_path (snd ei), gs) m -> In g gs -> In (N.of_nat i) g -> In (N.of_nat j) g ->
    t_path (snd ei') = t_path (snd ej').
Proof. exact ensure_unique_same_group_same_path. Qed.
Print Assumptions C04_same_group_same_path.

Theorem C04_groups_separated :
  forall r r' m i j ei ej ei' ej' gs gi gj,
    ensure_unique r = Ok r' -> build_groups r = Ok m ->
    nth_error r i = Some ei -> nth_error r j = Some ej ->
    nth_error r' i = Some ei' -> nth_error r' j = Some ej' ->
    In (t_path (snd ei), gs) m -> In gi gs -> In gj gs -> In (N.of_nat i) gi -> In (N.of_nat j) gj ->
    gi <> gj -> t_path (snd ei') <> t_path (snd ej').
Proof. exact ensure_unique_groups_separated. Qed.
Print Assumptions C04_groups_separated.

(** "split into >= 2 groups" in terms of the comparison alone: some position carrying the path
    is judged different ([Ok false]) from the FIRST position carrying it ... *)
Theorem C04_split_iff_unequal_member :
  forall r m p gs, build_groups r = Ok m -> In (p, gs) m ->
    ((2 <= List.length gs)%nat <->
     exists j, entry_at r j p /\ types_equal_res r j (group_first (hd [] gs)) = Ok false).
Proof. exact dedup_split_iff. Qed.
Print Assumptions C04_split_iff_unequal_member.

(** ... where [group_first (hd [] gs)] is the least position carrying the path *)
Theorem C04_first_member_is_least :
  forall r m p gs i, build_groups r = Ok m -> In (p, gs) m -> entry_at r i p ->
    (group_first (hd [] gs) <= i)%N.
Proof. exact dedup_first_least. Qed.
Print Assumptions C04_first_member_is_least.
(** ** instantiations of one generic definition stay together (and C03 completeness):
    [types_equal] answers "equal" on two coincidence-free instantiations of one definition of a
    program-derived registry ([RegistryOf], Model/Program.v), so the generation loop does not
    fail with DuplicateTypePath on them and [ensure_unique] ([add_to_groups]) puts the later one
    into the group of the earlier one.

    PROVED for the fragment [teq_program_okb] (Model/ProgramTeq.v): no field is
    [#[codec(compact)]]; every field type contains no Box / VecDeque, mentions only declared
    non-skipped parameters, and mentions them only directly or under Vec / array / tuple /
    Compact / Option / Result / Range / Cow; everything else in a field type (applications of
    other definitions, BTreeMap / BTreeSet - whose registry entries hide a [Vec<..>] field -,
    bit sequences) is closed.  Proof (Proofs/TeqComplete.v): an abstract-term
    simulation.  Invariant: every compared pair of ids [(x, y)] is the pair of instances
    [cs args1 c], [cs args2 c] of ONE open source term [c]; both GenericsLists are the frame of the
    instantiation's own parameters - the same positions and names bound to the respective
    arguments ([Rp]) - below frames pushed by builtin / prelude entries, all ALIGNED ([AL]: same
    starts and names, entries = instances of the same open terms, so both lookups of a compared
    pair give the same index); the visited sets are the instances
    of one list of open terms above the two instantiations ([Inv]); "seen on the left iff seen
    on the right" holds because the instances under one coincidence-free argument list determine
    the instances under the other ([inj_n]).

    MISSING for the full statement - and FALSE as it stands, see [C04_instantiations_stay_cf_refuted]:
    parameters under applications of generic definitions and under BTreeMap / BTreeSet, Box /
    VecDeque, compact-attribute fields. *)
From V Require Import Model.Program Model.ProgramSkel Model.ProgramTeq Model.ProgramExamples Model.Settings Model.Generate Model.Shape
  Proofs.KeepFirst Proofs.TeqComplete Proofs.ProgramExamples.

Theorem C04_instantiations_stay_partial :
  forall defs L r,
  RegistryOf defs L r ->
  forall d sd, nth_error defs d = Some sd -> teq_program_okb sd = true ->
  forall args1 args2,
  instantiation_cf defs sd args1 = true -> map canon args1 = args1 ->
  instantiation_cf defs sd args2 = true -> map canon args2 = args2 ->
  forall id1 id2, L id1 = Some (SApp d args1) -> L id2 = Some (SApp d args2) ->
  types_equal_res r id1 id2 = Ok true.
Proof. exact teq_instantiations_labels. Qed.
Print Assumptions C04_instantiations_stay_partial.

(** ... for whole registries: a program-derived registry all of whose definitions are in the
    fragment (and do not sit at the path of a bit-order marker), with pairwise distinct definition
    paths and coincidence-free interned instantiations, is left UNTOUCHED by [ensure_unique]:
    every path family forms one group ("instantiations of one generic definition still share one
    path", here: nothing is renamed at all) *)
Theorem C04_program_untouched_partial :
  forall defs L r,
  RegistryOf defs L r -> ids_consistent r = true ->
  (forall sd, In sd defs -> teq_program_okb sd = true /\ forall lsb, sd_path sd <> order_path_of lsb) ->
  (forall d1 d2 sd1 sd2,
     nth_error defs d1 = Some sd1 -> nth_error defs d2 = Some sd2 -> sd_path sd1 = sd_path sd2 -> d1 = d2) ->
  (forall id d args sd,
     L id = Some (SApp d args) -> nth_error defs d = Some sd ->
     instantiation_cf defs sd args = true /\ map canon args = args) ->
  ensure_unique r = Ok r.
Proof. exact program_dedup_untouched. Qed.
Print Assumptions C04_program_untouched_partial.

(** ... and generation does not fail with DuplicateTypePath on it: every comparison the loop
    performs ([comparisons], C03_keep_first_or_error) answers "equal"; hence generation succeeds
    whenever nothing else fails ([all_ok]: every item-eligible entry yields an IR and a lexical
    module path).  This is the [P] "generation succeeds on such registries" of C05 on the fragment *)
Theorem C04_program_no_duplicate_path_partial :
  forall defs L r s,
  RegistryOf defs L r -> ids_consistent r = true ->
  (forall sd, In sd defs -> teq_program_okb sd = true /\ forall lsb, sd_path sd <> order_path_of lsb) ->
  (forall d1 d2 sd1 sd2,
     nth_error defs d1 = Some sd1 -> nth_error defs d2 = Some sd2 -> sd_path sd1 = sd_path sd2 -> d1 = d2) ->
  (forall id d args sd,
     L id = Some (SApp d args) -> nth_error defs d = Some sd ->
     instantiation_cf defs sd args = true /\ map canon args = args) ->
  Forall (fun c : cmp => types_equal r (fst (fst c)) (snd (fst c)) = Ok true) (comparisons r s) /\
  forall flat, flatten (s_dreg s) r = Ok flat -> all_ok r s flat r ->
               exists m, generate r s (types_equal r) = Ok m.
Proof.
  intros defs L r s HR Hids Hdefs Hpaths Hinst.
  exact (conj (program_comparisons_equal defs L r s HR Hids Hdefs Hpaths Hinst)
              (program_generates defs L r s HR Hids Hdefs Hpaths Hinst)).
Qed.
Print Assumptions C04_program_no_duplicate_path_partial.

(** non-vacuity: [a::Pt<T> { x: T, ys: Vec<T>, p: (T, u8), o: Option<u32>, m: Option<T>, e: Result<T, u8>,
    g: Range<T> }] at [u16] and [bool] *)
Theorem C04_instantiations_stay_example :
  RegistryOf ex7_defs (label_at ex7_labels) ex7_reg /\
  nth_error ex7_defs 0 = Some ex7_sd /\ teq_program_okb ex7_sd = true /\
  instantiation_cf ex7_defs ex7_sd [SPrimT PU16] = true /\ instantiation_cf ex7_defs ex7_sd [SPrimT PBool] = true /\
  label_at ex7_labels 0 = Some (SApp 0 [SPrimT PU16]) /\ label_at ex7_labels 10 = Some (SApp 0 [SPrimT PBool]) /\
  types_equal_res ex7_reg 0 10 = Ok true.
Proof. exact (conj ex7_RegistryOf ex7_hypotheses). Qed.
Print Assumptions C04_instantiations_stay_example.

(** REFUTATION of the statement without the fragment (on the faithful model, and reproduced on
    the implementation: corpus/findings/F18b_nested_outer_coincidence.json replayed through
    [./check.sh C04 quick --replay ..] gives DuplicateTypePath and the renaming a::D1 / a::D2): [a::D<T, U> { a: Wrap<T>, b: U }], [a::Wrap<X> { v: Vec<X> }] at
    [(u8, Vec<u8>)] and [(u16, Vec<u16>)].  The registry is program-derived, ALL FOUR interned
    instantiations are coincidence-free in the sense of [instantiation_cf] (the three conditions
    of C05's quantifier read on the source field types of one definition), the registry is
    skeleton-consistent - and [types_equal] judges the two instantiations of [D] different, so
    generation fails with DuplicateTypePath("a::D") and de-duplication would split them.  Inside
    [Wrap<u8>] the field type [Vec<u8>] is the id bound to the OUTER parameter [U] (on both
    sides), so the field is decided by its recorded name ["Vec<X>"], which is no parameter name.
    The coincidence condition would have to look through nested definitions ("deep" components). *)
Theorem C04_instantiations_stay_cf_refuted :
  RegistryOf f19_defs (label_at f19_labels) f19_reg /\
  instantiation_cf f19_defs (nth 0 f19_defs pe_default) [SPrimT PU8; SVec (SPrimT PU8)] = true /\
  instantiation_cf f19_defs (nth 0 f19_defs pe_default) [SPrimT PU16; SVec (SPrimT PU16)] = true /\
  instantiation_cf f19_defs (nth 1 f19_defs pe_default) [SPrimT PU8] = true /\
  instantiation_cf f19_defs (nth 1 f19_defs pe_default) [SPrimT PU16] = true /\
  skeleton_consistentb f19_reg f19_s = true /\
  types_equal_res f19_reg 0 4 = Ok false /\
  generate f19_reg f19_s (types_equal f19_reg) = Err (EDuplicatePath "a::D").
Proof. exact (conj f19_RegistryOf f19_facts). Qed.
Print Assumptions C04_instantiations_stay_cf_refuted.

(** a second refutation, with ONE non-nested definition: [a::D<T, U> { m: BTreeMap<u8, T>, w: Vec<U> }]
    at [(u16, Vec<(u8, u16)>)] and [(bool, Vec<u32>)].  The entry of [BTreeMap<u8, u16>] has a
    hidden field of type [Vec<(u8, u16)>] (no component of the source field type, so
    [instantiation_cf] holds); its id enters the left visited set while the maps are compared, and
    at [w: Vec<U>] the both-or-neither-visited rule sees (seen, not seen) and answers "different".
    This is why BTreeMap / BTreeSet with parameters are outside [teq_program_okb]. *)
Theorem C04_instantiations_stay_cf_refuted_hidden :
  RegistryOf f19b_defs (label_at f19b_labels) f19b_reg /\
  instantiation_cf f19b_defs (nth 0 f19b_defs pe_default) f19b_args1 = true /\
  instantiation_cf f19b_defs (nth 0 f19b_defs pe_default) f19b_args2 = true /\
  skeleton_consistentb f19b_reg f19_s = true /\
  types_equal_res f19b_reg 0 7 = Ok false /\ types_equal_res f19b_reg 7 0 = Ok false /\
  generate f19b_reg f19_s (types_equal f19b_reg) = Err (EDuplicatePath "a::D").
Proof. exact (conj f19b_RegistryOf f19b_facts). Qed.
Print Assumptions C04_instantiations_stay_cf_refuted_hidden.
