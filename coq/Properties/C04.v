(** C04 - path de-duplication contract (statements only; proofs in Proofs/DedupProofs.v).

    Full statement of the property: after [ensure_unique] only the final path segment of
    types that shared a path with a differently shaped type has changed; generation no longer
    fails with the duplicate-path error; instantiations of one generic definition still share
    a path; a second run changes nothing; new names are old ++ 1..k in order of first appearance.
    Sufficiency and idempotence are REFUTED on the faithful model (findings F4, F12: see
    [C04_sufficient_refuted] below); frame, numbering and error clauses are proved. *)
From Coq Require Import List NArith String Bool.
From V Require Import Base.Strings Base.Result Model.Registry Model.Derives Model.Equal
  Model.DedupSpec Proofs.GenProofs Proofs.DedupProofs Proofs.DedupGroups.
Import ListNotations.
Open Scope string_scope.

(** frame: same length and, per position, same id, parameters, definition, docs; the path is
    unchanged or only its last segment became old ++ decimal n *)
Theorem C04_frame : forall r r', ensure_unique r = Ok r' -> Forall2 entry_frame r r'.
Proof. exact ensure_unique_frame. Qed.
Print Assumptions C04_frame.

Theorem C04_namespace_untouched :
  forall p n, p <> [] -> namespace (rename_last p n) = namespace p.
Proof. exact rename_last_namespace. Qed.
Print Assumptions C04_namespace_untouched.

Theorem C04_new_name : forall p n, last (rename_last p n) "" = String.append (last p "") (N_to_string n).
Proof. exact rename_last_last. Qed.
Print Assumptions C04_new_name.

(** numbering: the suffix of an entry is the 1-based position of its shape group among the
    groups (in order of first appearance) of a path with at least two groups *)
Theorem C04_numbering :
  forall m i n, suffix_for m i = Some n ->
    exists p gs, In (p, gs) m /\ (2 <= List.length gs)%nat /\ group_index i gs 1%N = Some n.
Proof. exact suffix_for_spec. Qed.
Print Assumptions C04_numbering.

Theorem C04_numbering_from_one : forall m i n, suffix_for m i = Some n -> (1 <= n)%N.
Proof. exact suffix_for_ge_1. Qed.
Print Assumptions C04_numbering_from_one.

(** minimality: families forming a single shape group are untouched *)
Theorem C04_single_group_untouched :
  forall m i, (forall p gs, In (p, gs) m -> (List.length gs <= 1)%nat) -> suffix_for m i = None.
Proof. exact suffix_for_single. Qed.
Print Assumptions C04_single_group_untouched.

(** error: inconsistent ids are rejected first *)
Theorem C04_error :
  forall r g e, first_bad r = Some (g, e) -> ensure_unique r = Err (EIdsInvalid g e).
Proof. exact ensure_unique_ids_invalid. Qed.
Print Assumptions C04_error.

(** ** refutation of sufficiency / idempotence on the faithful model (finding F4):
    a::Foo(u8), a::Foo(u16), a::Foo1(u32) *)
Definition f4_reg : registry :=
  [ (0%N, mk_ty ["a"; "Foo"] [] (TDComposite [mk_field None 3%N None []]) []);
    (1%N, mk_ty ["a"; "Foo"] [] (TDComposite [mk_field None 4%N None []]) []);
    (2%N, mk_ty ["a"; "Foo1"] [] (TDComposite [mk_field None 5%N None []]) []);
    (3%N, mk_ty [] [] (TDPrimitive PU8) []);
    (4%N, mk_ty [] [] (TDPrimitive PU16) []);
    (5%N, mk_ty [] [] (TDPrimitive PU32) []) ].

Definition paths_of (r : registry) := map (fun e => t_path (snd e)) r.

Theorem C04_idempotent_refuted :
  exists r r1 r2, ensure_unique r = Ok r1 /\ ensure_unique r1 = Ok r2 /\ paths_of r1 <> paths_of r2.
Proof.
  exists f4_reg. eexists. eexists.
  split; [vm_compute; reflexivity|]. split; [vm_compute; reflexivity|].
  vm_compute. discriminate.
Qed.
Print Assumptions C04_idempotent_refuted.

(** after the pass two differently shaped types share the path a::Foo1 *)
Theorem C04_sufficient_refuted :
  exists r r1, ensure_unique r = Ok r1 /\
    exists i j ti tj, i <> j /\ nth_error r1 i = Some ti /\ nth_error r1 j = Some tj /\
      t_path (snd ti) = t_path (snd tj) /\ types_equal_res r1 (fst ti) (fst tj) = Ok false.
Proof.
  exists f4_reg. eexists. split; [vm_compute; reflexivity|].
  exists 0%nat, 2%nat. eexists. eexists. repeat split; try (vm_compute; reflexivity). discriminate.
Qed.
Print Assumptions C04_sufficient_refuted.

(** *** the clauses above tied to the registry: [m] is THE groups map of the pass
    (characterised by C03_dedup_groups); positions are list positions of [r] / [r']. *)

(** minimality: the path of an entry changes iff it is namespaced and its path family was
    split into at least two groups *)
Theorem C04_minimal :
  forall r r', ensure_unique r = Ok r' ->
  exists m, build_groups r = Ok m /\
    forall n e e', nth_error r n = Some e -> nth_error r' n = Some e' ->
      (t_path (snd e') <> t_path (snd e) <->
       namespace (t_path (snd e)) <> [] /\
       exists gs, In (t_path (snd e), gs) m /\ (2 <= List.length gs)%nat).
Proof. exact ensure_unique_minimal. Qed.
Print Assumptions C04_minimal.

(** ... and then the new path is the old one with the 1-based index of the entry's group
    appended to the last segment *)
Theorem C04_renamed_path :
  forall r r', ensure_unique r = Ok r' ->
  exists m, build_groups r = Ok m /\
    forall n e e' gs, nth_error r n = Some e -> nth_error r' n = Some e' ->
      namespace (t_path (snd e)) <> [] -> In (t_path (snd e), gs) m -> (2 <= List.length gs)%nat ->
      exists k, group_index (N.of_nat n) gs 1%N = Some k /\
                t_path (snd e') = rename_last (t_path (snd e)) k.
Proof. exact ensure_unique_renamed_path. Qed.
Print Assumptions C04_renamed_path.

(** the new path of every position, all cases at once *)
Theorem C04_new_path_cases :
  forall r r', ensure_unique r = Ok r' ->
  exists m, build_groups r = Ok m /\
    forall n e e', nth_error r n = Some e -> nth_error r' n = Some e' ->
      (namespace (t_path (snd e)) = [] /\ t_path (snd e') = t_path (snd e)) \/
      (namespace (t_path (snd e)) <> [] /\
       exists gs, In (t_path (snd e), gs) m /\
         ((List.length gs < 2)%nat /\ t_path (snd e') = t_path (snd e) \/
          (2 <= List.length gs)%nat /\
          exists k, group_index (N.of_nat n) gs 1%N = Some k /\
                    t_path (snd e') = rename_last (t_path (snd e)) k)).
Proof. exact ensure_unique_path. Qed.
Print Assumptions C04_new_path_cases.

(** two entries that shared a namespaced path share one after the pass iff they are members of
    one group *)
Theorem C04_same_group_iff_same_path :
  forall r r', ensure_unique r = Ok r' ->
  exists m, build_groups r = Ok m /\
    forall i j ei ej ei' ej',
      nth_error r i = Some ei -> nth_error r j = Some ej ->
      nth_error r' i = Some ei' -> nth_error r' j = Some ej' ->
      t_path (snd ei) = t_path (snd ej) -> namespace (t_path (snd ei)) <> [] ->
      (t_path (snd ei') = t_path (snd ej') <->
       exists gs g, In (t_path (snd ei), gs) m /\ In g gs /\ In (N.of_nat i) g /\ In (N.of_nat j) g).
Proof. exact ensure_unique_same_group_iff. Qed.
Print Assumptions C04_same_group_iff_same_path.

Theorem C04_same_group_same_path :
  forall r r' m i j ei ej ei' ej' gs g,
    ensure_unique r = Ok r' -> build_groups r = Ok m ->
    nth_error r i = Some ei -> nth_error r j = Some ej ->
    nth_error r' i = Some ei' -> nth_error r' j = Some ej' ->
    In (t_path (snd ei), gs) m -> In g gs -> In (N.of_nat i) g -> In (N.of_nat j) g ->
    t_path (snd ei') = t_path (snd ej').
Proof. exact ensure_unique_same_group_same_path. Qed.
Print Assumptions C04_same_group_same_path.

Theorem C04_groups_separated :
  forall r r' m i j ei ej ei' ej' gs gi gj,
    ensure_unique r = Ok r' -> build_groups r = Ok m ->
    nth_error r i = Some ei -> nth_error r j = Some ej ->
    nth_error r' i = Some ei' -> nth_error r' j = Some ej' ->
    In (t_path (snd ei), gs) m -> In gi gs -> In gj gs -> In (N.of_nat i) gi -> In (N.of_nat j) gj ->
    gi <> gj -> t_path (snd ei') <> t_path (snd ej').
Proof. exact ensure_unique_groups_separated. Qed.
Print Assumptions C04_groups_separated.

(** "split into >= 2 groups" in terms of the comparison alone: some position carrying the path
    is judged different ([Ok false]) from the FIRST position carrying it ... *)
Theorem C04_split_iff_unequal_member :
  forall r m p gs, build_groups r = Ok m -> In (p, gs) m ->
    ((2 <= List.length gs)%nat <->
     exists j, entry_at r j p /\ types_equal_res r j (group_first (hd [] gs)) = Ok false).
Proof. exact dedup_split_iff. Qed.
Print Assumptions C04_split_iff_unequal_member.

(** ... where [group_first (hd [] gs)] is the least position carrying the path *)
Theorem C04_first_member_is_least :
  forall r m p gs i, build_groups r = Ok m -> In (p, gs) m -> entry_at r i p ->
    (group_first (hd [] gs) <= i)%N.
Proof. exact dedup_first_least. Qed.
Print Assumptions C04_first_member_is_least.
