(** C04 - path de-duplication contract (statements only; proofs in Proofs/DedupProofs.v).

    Full statement of the property: after [ensure_unique] only the final path segment of
    types that shared a path with a differently shaped type has changed; generation no longer
    fails with the duplicate-path error; instantiations of one generic definition still share
    a path; a second run changes nothing; new names are old ++ 1..k in order of first appearance.
    Sufficiency and idempotence are REFUTED on the faithful model (findings F4, F12: see
    [C04_sufficient_refuted] below); frame, numbering and error clauses are proved. *)
From Coq Require Import List NArith String Bool.
From V Require Import Base.Strings Base.Result Model.Registry Model.Derives Model.Equal
  Proofs.GenProofs Proofs.DedupProofs.
Import ListNotations.
Open Scope string_scope.

(** frame: same length and, per position, same id, parameters, definition, docs; the path is
    unchanged or only its last segment became old ++ decimal n *)
Theorem C04_frame : forall r r', ensure_unique r = Ok r' -> Forall2 entry_frame r r'.
Proof. exact ensure_unique_frame. Qed.
Print Assumptions C04_frame.

Theorem C04_namespace_untouched :
  forall p n, p <> [] -> namespace (rename_last p n) = namespace p.
Proof. exact rename_last_namespace. Qed.
Print Assumptions C04_namespace_untouched.

Theorem C04_new_name : forall p n, last (rename_last p n) "" = String.append (last p "") (N_to_string n).
Proof. exact rename_last_last. Qed.
Print Assumptions C04_new_name.

(** numbering: the suffix of an entry is the 1-based position of its shape group among the
    groups (in order of first appearance) of a path with at least two groups *)
Theorem C04_numbering :
  forall m i n, suffix_for m i = Some n ->
    exists p gs, In (p, gs) m /\ (2 <= List.length gs)%nat /\ group_index i gs 1%N = Some n.
Proof. exact suffix_for_spec. Qed.
Print Assumptions C04_numbering.

Theorem C04_numbering_from_one : forall m i n, suffix_for m i = Some n -> (1 <= n)%N.
Proof. exact suffix_for_ge_1. Qed.
Print Assumptions C04_numbering_from_one.

(** minimality: families forming a single shape group are untouched *)
Theorem C04_single_group_untouched :
  forall m i, (forall p gs, In (p, gs) m -> (List.length gs <= 1)%nat) -> suffix_for m i = None.
Proof. exact suffix_for_single. Qed.
Print Assumptions C04_single_group_untouched.

(** error: inconsistent ids are rejected first *)
Theorem C04_error :
  forall r g e, first_bad r = Some (g, e) -> ensure_unique r = Err (EIdsInvalid g e).
Proof. exact ensure_unique_ids_invalid. Qed.
Print Assumptions C04_error.

(** ** refutation of sufficiency / idempotence on the faithful model (finding F4):
    a::Foo(u8), a::Foo(u16), a::Foo1(u32) *)
Definition f4_reg : registry :=
  [ (0%N, mk_ty ["a"; "Foo"] [] (TDComposite [mk_field None 3%N None []]) []);
    (1%N, mk_ty ["a"; "Foo"] [] (TDComposite [mk_field None 4%N None []]) []);
    (2%N, mk_ty ["a"; "Foo1"] [] (TDComposite [mk_field None 5%N None []]) []);
    (3%N, mk_ty [] [] (TDPrimitive PU8) []);
    (4%N, mk_ty [] [] (TDPrimitive PU16) []);
    (5%N, mk_ty [] [] (TDPrimitive PU32) []) ].

Definition paths_of (r : registry) := map (fun e => t_path (snd e)) r.

Theorem C04_idempotent_refuted :
  exists r r1 r2, ensure_unique r = Ok r1 /\ ensure_unique r1 = Ok r2 /\ paths_of r1 <> paths_of r2.
Proof.
  exists f4_reg. eexists. eexists.
  split; [vm_compute; reflexivity|]. split; [vm_compute; reflexivity|].
  vm_compute. discriminate.
Qed.
Print Assumptions C04_idempotent_refuted.

(** after the pass two differently shaped types share the path a::Foo1 *)
Theorem C04_sufficient_refuted :
  exists r r1, ensure_unique r = Ok r1 /\
    exists i j ti tj, i <> j /\ nth_error r1 i = Some ti /\ nth_error r1 j = Some tj /\
      t_path (snd ti) = t_path (snd tj) /\ types_equal_res r1 (fst ti) (fst tj) = Ok false.
Proof.
  exists f4_reg. eexists. split; [vm_compute; reflexivity|].
  exists 0%nat, 2%nat. eexists. eexists. repeat split; try (vm_compute; reflexivity). discriminate.
Qed.
Print Assumptions C04_sufficient_refuted.
