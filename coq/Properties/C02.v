(** C02 - generated module is closed, well-formed Rust (statements only). *)
From Coq Require Import List NArith String Bool Sorted.
From V Require Import Base.Strings Base.Result Model.Registry Model.Settings Model.Subst
  Model.TypePath Model.Derives Model.Generate Model.Emit Model.Equal Model.WellFormed
  Proofs.GenProofs Proofs.SortDedup Proofs.ClosedProofs
  Checkers.Parse Checkers.Sem Model.Unparse Model.UnparseClosed
  Proofs.ParseTy Proofs.ParseItem Proofs.ParseMod Proofs.ArityProofs Proofs.ParseClosed
  Model.Sized Proofs.SizedProofs.
From V Require Model.Shape.
Import ListNotations.

(** every emitted item is the IR of an item-eligible registry entry, sitting at that entry's path *)
Theorem C02_items_are_entries :
  forall r s teq m p id ir,
    generate r s teq = Ok m -> items_get m p = Some (id, ir) ->
    exists t flat, In (id, t) r /\ t_path t = p /\ eligible s t = true /\
                   flatten (s_dreg s) r = Ok flat /\ create_type_ir r s t flat = Ok (Some ir).
Proof. exact generate_items_come_from_entries. Qed.
Print Assumptions C02_items_are_entries.

(** every declared generic parameter is listed as unused (and then printed in the PhantomData
    marker, [C02_phantom_lists_unused]) or occurs in the path of a field of the struct / of some
    variant; conversely an unused parameter is declared and occurs in no field path.  Any registry.
    [used_in fs p] := exists f, In f fs /\ In p (parent_params (fi_path f)). *)
Theorem C02_generics_used :
  forall r s t flat ir,
  create_type_ir r s t flat = Ok (Some ir) ->
  (forall p, In p (ti_params ir) ->
             In p (ti_unused ir) \/ used_in (kind_fields (ti_kind ir)) p) /\
  (forall p, In p (ti_unused ir) ->
             In p (ti_params ir) /\ ~ used_in (kind_fields (ti_kind ir)) p).
Proof. exact generics_used. Qed.
Print Assumptions C02_generics_used.

Theorem C02_phantom_lists_unused :
  forall unused p, In p unused ->
  exists toks, phantom_tokens unused = Some toks /\ In (tpi_name p) toks.
Proof. exact phantom_lists_unused. Qed.
Print Assumptions C02_phantom_lists_unused.

(** items are keyed by path in strictly increasing [Vec<String>] order: no two items of the
    module tree share a path (hence no two items of one module share a name) *)
Theorem C02_unique_names :
  forall r s teq m, generate r s teq = Ok m ->
  StronglySorted (fun a b => path_compare (fst a) (fst b) = Lt) m /\ NoDup (map fst m).
Proof. exact generate_unique_names. Qed.
Print Assumptions C02_unique_names.

(** every [Path] node, anywhere inside a field type of an emitted item, whose tokens start with
    the root ident is [root :: p] for a path [p] at which an item was emitted.
    [root_fresh s] (DESIGN 3.2): the root ident is not [":"], the alloc path does not start
    with it and no substitute target starts with it (user tokens never mention the root). *)
Theorem C02_paths_resolve :
  forall r s, root_fresh s -> forall teq m,
  generate r s teq = Ok m ->
  forall p0 id ir, items_get m p0 = Some (id, ir) ->
  forall f, In f (kind_fields (ti_kind ir)) ->
  forall ptoks params, In (TPath ptoks params) (subpaths (fi_path f)) ->
  hd_error ptoks = Some (s_root s) ->
  exists p, ptoks = rel_path (s_root s :: p) /\ items_get m p <> None.
Proof. exact paths_resolve. Qed.
Print Assumptions C02_paths_resolve.

(** the same for [resolve_type_path]: a rooted node of any resolved path names a namespaced,
    non-substituted struct / enum entry of the registry *)
Theorem C02_resolved_nodes :
  forall r s, root_fresh s ->
  forall fuel id is_field parents orig t,
  resolve_rec r s fuel id is_field parents orig = Ok t ->
  forall ptoks params, In (TPath ptoks params) (subpaths t) ->
  hd_error ptoks = Some (s_root s) ->
  exists p, ptoks = rel_path (s_root s :: p) /\
            exists id' t', resolve r id' = Some t' /\ t_path t' = p /\
                           is_composite_or_variant (t_def t') = true /\
                           subs_get (s_subs s) p = None /\ (exists a b l, p = a :: b :: l).
Proof. exact resolve_rec_nodes. Qed.
Print Assumptions C02_resolved_nodes.

(** the child modules emitted for one module are keyed by strictly increasing idents *)
Theorem C02_unique_modules :
  forall es : list entry,
  StronglySorted (fun a b => String.compare a b = Lt) (child_names es) /\ NoDup (child_names es).
Proof. exact child_names_unique. Qed.
Print Assumptions C02_unique_modules.

(** ** C02_emit_parses: the independent token reader [Checkers/Parse.v] (which shares no code with
    the printer [Model/Emit.v]) reads every printed stream back into the tree [Model/Unparse.v]
    computes from the IR.  Scope ("plain"): every path the printer does not build itself (path
    tokens of [TPath] nodes, the compact / bits wrapper paths, the alloc crate path) is a path of
    identifier segments without generic arguments ([plain_path]: what [from_type_def_path], the
    prelude table and PassThrough substitutes produce; Specified substitutes that carry their own
    generic arguments are out of scope); user derive paths are bracket-balanced and user attributes
    have the form [# [ balanced ]] ([derives_okb]: the reader skips attributes by counting
    delimiters); item, variant and named-field idents are not punctuation tokens and not [pub]
    ([ident_tok]).  [Open Scope nat_scope] is not assumed: lengths are [List.length]. *)

(** types: for a plain path [t] printed as [toks], the reader started on [toks ++ rest] with fuel
    above [length toks] returns [ir_pty alloc t] and stops exactly at [rest], provided [rest] does
    not continue a type ([ty_stop]: it is empty or its first token is neither [<] nor [:], e.g.
    [,] [>] [)] [;]).  The entry point [parse_type] uses fuel [S (length toks)]. *)
Theorem C02_type_parses :
  forall alloc, alloc_okb alloc = true ->
  forall t toks, tp_plain t = true -> tp_tokens alloc t = Ok toks ->
  forall rest, ty_stop rest = true ->
  forall fuel, (List.length toks < fuel)%nat ->
  parse_ty fuel (toks ++ rest) = Some (ir_pty alloc t, rest).
Proof. exact type_parses. Qed.
Print Assumptions C02_type_parses.

Theorem C02_type_parses_entry :
  forall alloc, alloc_okb alloc = true ->
  forall t toks, tp_plain t = true -> tp_tokens alloc t = Ok toks ->
  parse_type toks = Some (ir_pty alloc t).
Proof. exact parse_type_emitted. Qed.
Print Assumptions C02_type_parses_entry.

(** items: all struct forms (unit with / without PhantomData marker, tuple, named; compact and skip
    attributes, docs, derives, generics) and enums (index attributes, docs, unit / tuple / named
    variants, the [__Ignore] variant).  The side condition on [rest] is needed for a braced struct
    only (the reader would take a following [;] for the struct's own). *)
Theorem C02_item_parses :
  forall s ir toks,
  type_ir_tokens s ir = Ok toks -> ir_plain s ir = true ->
  forall fuel rest, (List.length toks < fuel)%nat ->
  (pi_is_enum (item_of_ir s ir) = false -> pi_semi (item_of_ir s ir) = false ->
   hd_is ";" rest = false) ->
  parse_item fuel (toks ++ rest) = Some (item_of_ir s ir, rest).
Proof. exact item_parses. Qed.
Print Assumptions C02_item_parses.

(** the whole module tree *)
Theorem C02_emit_parses :
  forall s m toks,
  emit_module s m = Ok toks -> items_plain s m = true ->
  parse_module toks = Some (pmod_of_items s m).
Proof. exact emit_parses. Qed.
Print Assumptions C02_emit_parses.

(** the parsed item carries a trailing semicolon exactly for unit and tuple structs
    ([semi_struct ir]: [ti_kind ir = KStruct c] with [ci_kind c] = [CNoFields] or [CUnnamed _]) *)
Theorem C02_syn_forms :
  forall s ir toks,
  type_ir_tokens s ir = Ok toks -> ir_plain s ir = true ->
  exists it, parse_one_item toks = Some it /\ it = item_of_ir s ir /\
             (pi_semi it = true <-> semi_struct ir).
Proof. exact syn_forms. Qed.
Print Assumptions C02_syn_forms.

(** ** closedness of the parse of the emitted tokens.
    [closedb] (Checkers/Sem.v) is the checker the harness runs on the parse of the OBSERVED tokens.
    Here it is shown to hold on the tree [pmod_of_items s m] - which by [C02_emit_parses] IS the
    parse of the emitted tokens - from IR-level conditions [ir_closed s m] (Model/UnparseClosed.v):
    the root ident does not start with [_] (parameter names are [_<n>]) and is not the head of the
    alloc path; keys are duplicate-free and prefix-free; every key ends in its item's name; in every
    field, every [TPath] node whose tokens start with the root ident is [root :: p] for an emitted
    item at [p] with as many arguments as that item declares parameters, and no compact / bits
    wrapper path starts with the root ident; fields are tokenizable; every declared parameter is
    unused (hence printed in the marker) or occurs in a field; parameter indices are distinct. *)
Theorem C02_closedb_of_ir :
  forall s m, ir_closed s m -> items_plain s m = true ->
  closedb (s_root s) (pmod_of_items s m) = true.
Proof. exact closedb_of_ir. Qed.
Print Assumptions C02_closedb_of_ir.

(** under [skeleton_consistent r s] the number of generic arguments at every path rooted at the
    types module, anywhere inside a field of an emitted item, equals the number of parameters the
    item found at that path declares *)
Theorem C02_arity_consistent :
  forall r s teq m,
  Shape.skeleton_consistent r s -> root_fresh s -> generate r s teq = Ok m ->
  forall p0 id ir, items_get m p0 = Some (id, ir) ->
  forall f, In f (kind_fields (ti_kind ir)) ->
  forall ptoks params, In (TPath ptoks params) (subpaths (fi_path f)) ->
  forall q id' ir', ptoks = rel_path (s_root s :: q) -> items_get m q = Some (id', ir') ->
  List.length params = List.length (ti_params ir').
Proof. exact arity_consistent. Qed.
Print Assumptions C02_arity_consistent.

(** the whole chain: generate, print, read the tokens back with the independent reader, check
    closedness ([closedb]: rooted paths resolve with the declared arity, every declared generic is
    mentioned by a field or the marker, generic names distinct, module / item names unique per
    module, root module named and re-exported as the root).
    Hypotheses beyond [root_fresh], [skeleton_consistent], plainness - each is necessary for
    [closedb] itself, not an artefact of the proof:
    - [starts_with "_" (s_root s) = false]: generic parameters are named [_<n>]; a root module of
      that name would make a parameter read as a (dangling) rooted path;
    - [wrappers_fresh s]: the compact / bits wrapper paths ([s_compact], [s_bits]) do not start with
      the root ident ([root_fresh] of Proofs/ClosedProofs.v covers the alloc path and substitute
      targets only);
    - [keys_prefix_free m]: no item path is a proper prefix of another (DESIGN 3.1 clause 4);
      otherwise an item and a sibling module share a name. *)
Theorem C02_closedb_emitted :
  forall r s teq m toks,
  root_fresh s -> starts_with "_" (s_root s) = false -> wrappers_fresh s ->
  Shape.skeleton_consistent r s ->
  generate r s teq = Ok m -> emit_module s m = Ok toks -> items_plain s m = true ->
  keys_prefix_free m ->
  exists pm, parse_module toks = Some pm /\ closedb (s_root s) pm = true.
Proof. exact emitted_closed. Qed.
Print Assumptions C02_closedb_emitted.
(** ** indirection clause, first version (Model/Sized.v, Proofs/SizedProofs.v) - PARTIAL and
    SUPERSEDED by the next section (the rank is a hypothesis here; there it is computed).

    [item_edge s m pa pb]: a field of the item at [pa] that is not wrapped in [Box] mentions the
    item path [pb] by value ([bv_subpaths]: tuples, arrays, compact wrappers and the arguments of
    [Option] / [Result] / [Range] / [RangeInclusive] are traversed; [Vec], bit vectors, the
    arguments of every other path and generic parameters cut).
    [bv_ranked r s rank]: a rank on the registry's ids that decreases along every by-value step
    of the type graph (weakly through [Cow]'s look-through, tuples, arrays, compact wrappers and
    the arguments of transparent or substituted types, strictly through a field whose recorded
    type name does not contain [Box<]); sequences, bit sequences, boxed fields and the arguments
    of all other types are unconstrained; entries with the same path have the same rank.

    Then [rank_path] (the rank of the first struct / enum entry with that path) strictly
    decreases along every edge of the generated items, so no walk returns to its start.

    Status of the three items this comment used to list as missing for DESIGN's C02_sized:
    (1) the derivation of such a rank from a decidable condition on the registry - DONE in the
    next section: [by_value_acyclicb] (a longest-path rank on item PATHS), [C02_sized],
    [C02_sized_iff], [C02_unsized_witness], [C02_sized_wf]; not through [bv_ranked], whose last
    clause makes it unsatisfiable on a registry with two [Option] entries in a chain
    ([sz_chain_not_ranked], Proofs/ExamplesSizedReg.v), so the three statements below are kept
    but apply to few registries ([C02_sized_covers_partial]: wherever they apply and generation
    succeeds, the new boolean holds);
    (2) generic parameters are opaque: a cycle that exists only after instantiation
    ([B { a: A<B> }] with [A<T> { x: T }]) is not an [item_edge] cycle - STILL OUTSTANDING, and
    now the only gap ([sz_instantiation_gap]; on observed output the run-time checker [sizedb],
    which follows exposed generic arguments, decides it: [prop_sized]);
    (3) the clause "same path => same rank" as an extra hypothesis - GONE in the next section
    (a rank on paths has it by construction; [skeleton_consistent] is not needed either). *)
Theorem C02_sized_rank_partial :
  forall r s rank, root_fresh s -> bv_ranked r s rank ->
  forall teq m, generate r s teq = Ok m ->
  forall pa pb, item_edge s m pa pb -> (rank_path r rank pb < rank_path r rank pa)%nat.
Proof. exact sized_rank. Qed.
Print Assumptions C02_sized_rank_partial.

Theorem C02_sized_partial :
  forall r s rank, root_fresh s -> bv_ranked r s rank ->
  forall teq m, generate r s teq = Ok m ->
  forall n p, ~ walk (item_edge s m) n p p.
Proof. exact sized_acyclic. Qed.
Print Assumptions C02_sized_partial.

(** the by-value nodes of a resolved path: every rooted one is the path of a struct / enum entry
    whose rank is at most the rank of the resolved id *)
Theorem C02_resolved_nodes_by_value :
  forall r s rank, root_fresh s -> bv_ranked r s rank ->
  forall fuel id is_field parents orig t,
  resolve_rec r s fuel id is_field parents orig = Ok t ->
  forall ptoks params, In (TPath ptoks params) (bv_subpaths t) ->
  hd_error ptoks = Some (s_root s) ->
  exists id' t', resolve r id' = Some t' /\ ptoks = rel_path (s_root s :: t_path t') /\
                 is_composite_or_variant (t_def t') = true /\ (rank id' <= rank id)%nat.
Proof. exact resolve_rec_bv. Qed.
Print Assumptions C02_resolved_nodes_by_value.

(** ** indirection clause from a DECIDABLE condition on the registry
    (Model/SizedReg.v, Proofs/RankGraph.v, Proofs/SizedRegProofs.v; instances in
    Proofs/ExamplesSizedReg.v).

    [reg_bv_edge r s pa pb]: the FIRST item-eligible entry with path [pa] ([first_eligible]: struct /
    enum entry, not substituted, non-empty namespace - the entry the generation loop builds the
    item of [pa] from) has a field [f] with [is_boxed_gen f = false] whose type reaches, by value,
    a struct / enum entry that is printed as the item path [pb] ([bv_targets]: follows the
    resolver; tuples, arrays, compact wrappers, the look-through of [Cow] and the arguments of
    [Option] / [Result] / [Range] / [RangeInclusive] - also when a pass-through substitute prints
    one of these four - are traversed; sequences, bit sequences, the arguments of every other
    struct / enum entry (heap prelude collections, other substitutes, generated items) and the
    type ids the resolver prints as a generic parameter [_i] of the enclosing item cut).
    [by_value_acyclicb r s]: the longest-path table computed by [length] rounds over the rows of
    that graph is a strictly decreasing rank ([bv_rank_of r s : list string -> nat], on paths).

    Relation to [C02_sized_partial]: that theorem takes a rank on ids as a hypothesis whose last
    clause asks ALL struct / enum entries with one path to have one rank; it is not satisfiable
    on a registry with  A { x: Option<B> }, B { y: Option<u8> }  (two [Option] entries in a chain,
    [sz_chain_not_ranked]).  The statements below do not go through [bv_ranked]: the rank lives
    on item paths, so "same path, same rank" holds by construction and no hypothesis beyond
    [root_fresh] and the boolean is needed ([skeleton_consistent] is not needed either).

    Scope, as for [C02_sized_partial]: generic parameters are opaque.  [item_edge] does not look
    into the arguments of a generated generic item, so a cycle that exists only after
    instantiation ([Holder<T> { v: T }], [B { a: Holder<B> }]) is neither an [item_edge] cycle
    nor a [reg_bv_edge] cycle; the run-time checker [sizedb] does follow exposed generic
    arguments ([sz_instantiation_gap]). *)
From V Require Import Model.SizedReg Proofs.RankGraph Proofs.SizedRegProofs.

(** on a registry that generates, the by-value graph of the generated items IS the by-value graph
    of the registry *)
Theorem C02_item_edges_exact :
  forall r s, root_fresh s -> forall teq m, generate r s teq = Ok m ->
  forall pa pb, item_edge s m pa pb <-> reg_bv_edge r s pa pb.
Proof. exact item_edges_exact. Qed.
Print Assumptions C02_item_edges_exact.

(** the boolean decides acyclicity of the registry's by-value graph (both directions) *)
Theorem C02_by_value_acyclicb_iff :
  forall r s, by_value_acyclicb r s = true <-> (forall n p, ~ walk (reg_bv_edge r s) n p p).
Proof. exact by_value_acyclicb_iff. Qed.
Print Assumptions C02_by_value_acyclicb_iff.

(** when it holds, the computed rank strictly decreases along every registry edge .. *)
Theorem C02_by_value_rank :
  forall r s, by_value_acyclicb r s = true ->
  forall pa pb, reg_bv_edge r s pa pb -> (bv_rank_of r s pb < bv_rank_of r s pa)%nat.
Proof. exact by_value_acyclicb_rank. Qed.
Print Assumptions C02_by_value_rank.

(** .. hence along every by-value edge between generated items .. *)
Theorem C02_sized_rank :
  forall r s, root_fresh s -> by_value_acyclicb r s = true ->
  forall teq m, generate r s teq = Ok m ->
  forall pa pb, item_edge s m pa pb -> (bv_rank_of r s pb < bv_rank_of r s pa)%nat.
Proof. exact sized_rank_pinned. Qed.
Print Assumptions C02_sized_rank.

(** .. and no by-value walk between generated items returns to its start: every cycle between
    generated types passes through a field the generator boxes, a [Vec], a heap collection or a
    generic parameter *)
Theorem C02_sized :
  forall r s, root_fresh s -> by_value_acyclicb r s = true ->
  forall teq m, generate r s teq = Ok m ->
  forall n p, ~ walk (item_edge s m) n p p.
Proof. exact sized_pinned. Qed.
Print Assumptions C02_sized.

(** the condition is also necessary: on a registry that generates, the boolean holds EXACTLY when
    the generated items have no by-value cycle (so a registry on which it fails and generation
    succeeds makes the generator emit an infinitely sized type) *)
Theorem C02_sized_iff :
  forall r s, root_fresh s -> forall teq m, generate r s teq = Ok m ->
  (by_value_acyclicb r s = true <-> forall n p, ~ walk (item_edge s m) n p p).
Proof. exact sized_iff_pinned. Qed.
Print Assumptions C02_sized_iff.

(** .. and when the boolean fails, a by-value walk between generated items that returns to its
    start exists (constructively: the failing rank check yields it) *)
Theorem C02_unsized_witness :
  forall r s, root_fresh s -> forall teq m, generate r s teq = Ok m ->
  by_value_acyclicb r s = false -> exists n p, walk (item_edge s m) n p p.
Proof. exact unsized_witness_pinned. Qed.
Print Assumptions C02_unsized_witness.

(** [C02_sized] covers every case of [C02_sized_partial]: a registry that generates and has a rank
    in the sense of [bv_ranked] satisfies the boolean *)
Theorem C02_sized_covers_partial :
  forall r s rank, root_fresh s -> bv_ranked r s rank ->
  forall teq m, generate r s teq = Ok m -> by_value_acyclicb r s = true.
Proof. exact ranked_implies_boolean. Qed.
Print Assumptions C02_sized_covers_partial.

(** from decidable conditions only ([wf_regb r], [supportedb r s]: the run-time hypothesis of
    [C10_total_wf]; [Shape.root_freshb s]: the boolean for [root_fresh]): generation with the model's
    own [types_equal] reports a duplicate path, or it yields a module whose items are free of
    by-value cycles exactly when the boolean holds *)
Theorem C02_sized_wf :
  forall r s, wf_regb r = true -> supportedb r s = true -> Shape.root_freshb s = true ->
  (exists p, generate r s (types_equal r) = Err (EDuplicatePath p)) \/
  (exists m, generate r s (types_equal r) = Ok m /\
             (by_value_acyclicb r s = true <-> forall n p, ~ walk (item_edge s m) n p p)).
Proof. exact sized_wf. Qed.
Print Assumptions C02_sized_wf.

(** ** the run-time checker [sizedb] (Checkers/Sem.v) is sound for its own by-value successor
    function (Proofs/SizedbSound.v): on EVERY parsed module, the verdict [true] of the depth-first
    search means that no walk along [byval_succ] (with the exposure table the checker computes)
    returns to its start.  A statement about the checker, not about the generator. *)
From V Require Import Proofs.SizedbSound.
Theorem C02_sizedb_sound :
  forall root alloc compact cut_heap m,
  sizedb root alloc compact cut_heap m = true ->
  forall n p,
    ~ walk (fun a b => In b (byval_succ root alloc compact cut_heap m
                                        (exposure root alloc compact cut_heap m) a)) n p p.
Proof. exact sizedb_sound. Qed.
Print Assumptions C02_sizedb_sound.

(** ** the run-time checker and the model (Proofs/SizedbItems.v, Proofs/SizedbEmitted.v).
    Every by-value edge between generated items is an edge of the graph [sizedb] explores on the
    tree [pmod_of_items s m], whatever the exposure table: so when the checker accepts that tree
    the items have no by-value cycle.  [ir_closed] / [items_plain]: as in [C02_closedb_of_ir];
    [compact_seen root alloc compact c]: the wrapper path [c] of a nested [Compact<..>] is a plain
    path whose names are the compact head the checker is told, is not one of the heap heads under
    the alloc crate and does not start with the root ident. *)
From V Require Import Proofs.SizedbItems Proofs.SizedbEmitted.
Theorem C02_sizedb_items_acyclic :
  forall s m alloc compact cut_heap,
  ir_closed s m -> items_plain s m = true -> s_root s <> ":"%string ->
  (forall p id ir, In (p, (id, ir)) m ->
   forall f, In f (kind_fields (ti_kind ir)) ->
   forall i c, In (TCompact i false c) (subpaths (fi_path f)) ->
   compact_seen (s_root s) alloc compact c) ->
  sizedb (s_root s) alloc compact cut_heap (pmod_of_items s m) = true ->
  forall n p, ~ walk (item_edge s m) n p p.
Proof. exact sizedb_items_acyclic. Qed.
Print Assumptions C02_sizedb_items_acyclic.

(** the whole chain, under the hypotheses of [C02_closedb_emitted] plus [compact_wrapper_seen s]
    (the configured compact wrapper path is [compact_seen] with the arguments the harness passes:
    [sized_alloc s] = names of the alloc path, [sized_compact s] = names of the compact path): when
    the checker accepts the parse of the emitted tokens, the generated items have no by-value
    cycle and the registry condition holds.  The converse fails: [sz_instantiation_gap]. *)
Theorem C02_sizedb_emitted_acyclic :
  forall r s teq m toks,
  root_fresh s -> starts_with "_" (s_root s) = false -> wrappers_fresh s ->
  Shape.skeleton_consistent r s ->
  generate r s teq = Ok m -> emit_module s m = Ok toks -> items_plain s m = true ->
  keys_prefix_free m -> compact_wrapper_seen s ->
  exists pm, parse_module toks = Some pm /\
    (sizedb (s_root s) (sized_alloc s) (sized_compact s) true pm = true ->
     (forall n p, ~ walk (item_edge s m) n p p) /\ by_value_acyclicb r s = true).
Proof. exact sizedb_emitted_acyclic. Qed.
Print Assumptions C02_sizedb_emitted_acyclic.

(** ** DESIGN 3.1 clause 9 ("sized") as a boolean (Model/SizedMono.v, Proofs/SizedMonoProofs.v):
    [mono_edge r s a b] is the MONOMORPHIC by-value graph on registry ids (the fields of an
    item-eligible entry that the generator does not box; the by-value parameters of [Option] /
    [Result] / [Range] / [RangeInclusive] / [Cow] entries; tuple, array, compact components; generic
    parameters are NOT cut).  [mono_acyclicb] decides its acyclicity.  Decision theorem only: no
    statement here relates it to the generated code (it is the condition under which no cycle
    exists between INSTANTIATED generated types; that needs the instantiation semantics of
    generated generic items).  On the example registries it agrees with [sizedb], also on the one
    with a cycle only after instantiation ([sz_mono_agrees]). *)
From V Require Import Model.SizedMono Proofs.SizedMonoProofs.
Theorem C02_mono_acyclicb_iff :
  forall r s, mono_acyclicb r s = true <-> (forall n a, ~ walk (mono_edge r s) n a a).
Proof. exact mono_acyclicb_iff. Qed.
Print Assumptions C02_mono_acyclicb_iff.
