(** C02 - generated module is closed, well-formed Rust (statements only). *)
From Coq Require Import List NArith String Bool Sorted.
From V Require Import Base.Strings Base.Result Model.Registry Model.Settings Model.Subst
  Model.TypePath Model.Derives Model.Generate Model.Emit Model.Equal Model.WellFormed
  Proofs.GenProofs Proofs.SortDedup Proofs.ClosedProofs Model.Sized Proofs.SizedProofs.
Import ListNotations.

(** every emitted item is the IR of an item-eligible registry entry, sitting at that entry's path *)
Theorem C02_items_are_entries :
  forall r s teq m p id ir,
    generate r s teq = Ok m -> items_get m p = Some (id, ir) ->
    exists t flat, In (id, t) r /\ t_path t = p /\ eligible s t = true /\
                   flatten (s_dreg s) r = Ok flat /\ create_type_ir r s t flat = Ok (Some ir).
Proof. exact generate_items_come_from_entries. Qed.
Print Assumptions C02_items_are_entries.

(** every declared generic parameter is listed as unused (and then printed in the PhantomData
    marker, [C02_phantom_lists_unused]) or occurs in the path of a field of the struct / of some
    variant; conversely an unused parameter is declared and occurs in no field path.  Any registry.
    [used_in fs p] := exists f, In f fs /\ In p (parent_params (fi_path f)). *)
Theorem C02_generics_used :
  forall r s t flat ir,
  create_type_ir r s t flat = Ok (Some ir) ->
  (forall p, In p (ti_params ir) ->
             In p (ti_unused ir) \/ used_in (kind_fields (ti_kind ir)) p) /\
  (forall p, In p (ti_unused ir) ->
             In p (ti_params ir) /\ ~ used_in (kind_fields (ti_kind ir)) p).
Proof. exact generics_used. Qed.
Print Assumptions C02_generics_used.

Theorem C02_phantom_lists_unused :
  forall unused p, In p unused ->
  exists toks, phantom_tokens unused = Some toks /\ In (tpi_name p) toks.
Proof. exact phantom_lists_unused. Qed.
Print Assumptions C02_phantom_lists_unused.

(** items are keyed by path in strictly increasing [Vec<String>] order: no two items of the
    module tree share a path (hence no two items of one module share a name) *)
Theorem C02_unique_names :
  forall r s teq m, generate r s teq = Ok m ->
  StronglySorted (fun a b => path_compare (fst a) (fst b) = Lt) m /\ NoDup (map fst m).
Proof. exact generate_unique_names. Qed.
Print Assumptions C02_unique_names.

(** every [Path] node, anywhere inside a field type of an emitted item, whose tokens start with
    the root ident is [root :: p] for a path [p] at which an item was emitted.
    [root_fresh s] (DESIGN 3.2): the root ident is not [":"], the alloc path does not start
    with it and no substitute target starts with it (user tokens never mention the root). *)
Theorem C02_paths_resolve :
  forall r s, root_fresh s -> forall teq m,
  generate r s teq = Ok m ->
  forall p0 id ir, items_get m p0 = Some (id, ir) ->
  forall f, In f (kind_fields (ti_kind ir)) ->
  forall ptoks params, In (TPath ptoks params) (subpaths (fi_path f)) ->
  hd_error ptoks = Some (s_root s) ->
  exists p, ptoks = rel_path (s_root s :: p) /\ items_get m p <> None.
Proof. exact paths_resolve. Qed.
Print Assumptions C02_paths_resolve.

(** the same for [resolve_type_path]: a rooted node of any resolved path names a namespaced,
    non-substituted struct / enum entry of the registry *)
Theorem C02_resolved_nodes :
  forall r s, root_fresh s ->
  forall fuel id is_field parents orig t,
  resolve_rec r s fuel id is_field parents orig = Ok t ->
  forall ptoks params, In (TPath ptoks params) (subpaths t) ->
  hd_error ptoks = Some (s_root s) ->
  exists p, ptoks = rel_path (s_root s :: p) /\
            exists id' t', resolve r id' = Some t' /\ t_path t' = p /\
                           is_composite_or_variant (t_def t') = true /\
                           subs_get (s_subs s) p = None /\ (exists a b l, p = a :: b :: l).
Proof. exact resolve_rec_nodes. Qed.
Print Assumptions C02_resolved_nodes.

(** the child modules emitted for one module are keyed by strictly increasing idents *)
Theorem C02_unique_modules :
  forall es : list entry,
  StronglySorted (fun a b => String.compare a b = Lt) (child_names es) /\ NoDup (child_names es).
Proof. exact child_names_unique. Qed.
Print Assumptions C02_unique_modules.

(** ** indirection clause (Model/Sized.v, Proofs/SizedProofs.v) - PARTIAL.

    [item_edge s m pa pb]: a field of the item at [pa] that is not wrapped in [Box] mentions the
    item path [pb] by value ([bv_subpaths]: tuples, arrays, compact wrappers and the arguments of
    [Option] / [Result] / [Range] / [RangeInclusive] are traversed; [Vec], bit vectors, the
    arguments of every other path and generic parameters cut).
    [bv_ranked r s rank]: a rank on the registry's ids that decreases along every by-value step
    of the type graph (weakly through [Cow]'s look-through, tuples, arrays, compact wrappers and
    the arguments of transparent or substituted types, strictly through a field whose recorded
    type name does not contain [Box<]); sequences, bit sequences, boxed fields and the arguments
    of all other types are unconstrained; entries with the same path have the same rank.

    Then [rank_path] (the rank of the first struct / enum entry with that path) strictly
    decreases along every edge of the generated items, so no walk returns to its start.

    Missing for DESIGN's C02_sized: (1) the derivation of such a rank from the decidable
    condition "every cycle of the registry's type graph passes through a Sequence, a [Box]-named
    field or a heap prelude collection" (a rank check in the style of [rank_ok], with its
    soundness proof); (2) generic parameters are opaque: a cycle that exists only after
    instantiation ([B { a: A<B> }] with [A<T> { x: T }]) is not an [item_edge] cycle;
    (3) the clause "same path => same rank" is an extra hypothesis (it follows from
    [skeleton_consistent] only for the shape, not for the ids). *)
Theorem C02_sized_rank_partial :
  forall r s rank, root_fresh s -> bv_ranked r s rank ->
  forall teq m, generate r s teq = Ok m ->
  forall pa pb, item_edge s m pa pb -> (rank_path r rank pb < rank_path r rank pa)%nat.
Proof. exact sized_rank. Qed.
Print Assumptions C02_sized_rank_partial.

Theorem C02_sized_partial :
  forall r s rank, root_fresh s -> bv_ranked r s rank ->
  forall teq m, generate r s teq = Ok m ->
  forall n p, ~ walk (item_edge s m) n p p.
Proof. exact sized_acyclic. Qed.
Print Assumptions C02_sized_partial.

(** the by-value nodes of a resolved path: every rooted one is the path of a struct / enum entry
    whose rank is at most the rank of the resolved id *)
Theorem C02_resolved_nodes_by_value :
  forall r s rank, root_fresh s -> bv_ranked r s rank ->
  forall fuel id is_field parents orig t,
  resolve_rec r s fuel id is_field parents orig = Ok t ->
  forall ptoks params, In (TPath ptoks params) (bv_subpaths t) ->
  hd_error ptoks = Some (s_root s) ->
  exists id' t', resolve r id' = Some t' /\ ptoks = rel_path (s_root s :: t_path t') /\
                 is_composite_or_variant (t_def t') = true /\ (rank id' <= rank id)%nat.
Proof. exact resolve_rec_bv. Qed.
Print Assumptions C02_resolved_nodes_by_value.
