(** C02 - generated module is closed, well-formed Rust (statements only). *)
From Coq Require Import List NArith String Bool.
From V Require Import Base.Strings Base.Result Model.Registry Model.Settings Model.Subst
  Model.TypePath Model.Derives Model.Generate Model.Emit Model.Equal Proofs.GenProofs Proofs.SortDedup.
Import ListNotations.

(** every emitted item is the IR of an item-eligible registry entry, sitting at that entry's path *)
Theorem C02_items_are_entries :
  forall r s teq m p id ir,
    generate r s teq = Ok m -> items_get m p = Some (id, ir) ->
    exists t flat, In (id, t) r /\ t_path t = p /\ eligible s t = true /\
                   flatten (s_dreg s) r = Ok flat /\ create_type_ir r s t flat = Ok (Some ir).
Proof. exact generate_items_come_from_entries. Qed.
Print Assumptions C02_items_are_entries.
