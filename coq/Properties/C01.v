(** C01 - generated types are wire-faithful (statements only; proofs in Proofs/). *)
From Coq Require Import List NArith String Bool.
From V Require Import Base.Strings Base.Result Model.Registry Model.Settings Model.Subst
  Model.TypePath Model.Derives Model.Generate Model.Emit Model.Equal Proofs.GenProofs Proofs.SortDedup.
Import ListNotations.

(** the item found at a path is the IR built from a registry entry with that path
    (first half of [C01_lookup]) *)
Theorem C01_item_is_entry_ir :
  forall r s teq m p id ir,
    generate r s teq = Ok m -> items_get m p = Some (id, ir) ->
    exists t flat, In (id, t) r /\ t_path t = p /\ eligible s t = true /\
                   flatten (s_dreg s) r = Ok flat /\ create_type_ir r s t flat = Ok (Some ir).
Proof. exact generate_items_come_from_entries. Qed.
Print Assumptions C01_item_is_entry_ir.

(** ** wire fidelity at the level of the IR (definitions: Model/Shape.v) *)
From V Require Import Model.Shape Proofs.FidelityBase Proofs.ShapeBool Proofs.Fidelity
  Proofs.FidelityGen Proofs.FidelityExample.

(** first insertion wins: the item found at the path of an item-eligible entry X is the IR of
    the FIRST item-eligible entry with that path *)
Theorem C01_lookup :
  forall r s teq m,
    generate r s teq = Ok m ->
    forall id X, In (id, X) r -> item_eligible s X = true ->
    exists id0 X0 ir0 flat,
      first_eligible r s (t_path X) = Some (id0, X0) /\
      flatten (s_dreg s) r = Ok flat /\
      create_type_ir r s X0 flat = Ok (Some ir0) /\
      items_get m (t_path X) = Some (id0, ir0).
Proof. exact generate_lookup. Qed.
Print Assumptions C01_lookup.

(** the core, for ANY registry and ANY item map that satisfies [items_ok] (each item is, up to
    the ids stored in its parameters, the own IR of every entry it stands for): a type
    expression resolved under parent parameters P, with the parameters replaced by type
    expressions that have the registry shape of the ids they stand for, has the registry
    shape of the resolved id - at every depth, for field and non-field positions alike *)
Theorem C01_resolve_shape :
  forall r s m,
    items_ok r s m -> root_fresh s ->
    forall n fuel id is_field P orig fp sg,
      resolve_rec r s fuel id is_field P orig = Ok fp ->
      sigma_ok r s m n P sg ->
      shape_rust m s n (subst_tpath sg fp) = shape_reg r s n id.
Proof. exact resolve_shape. Qed.
Print Assumptions C01_resolve_shape.

(** own skeleton: substituting X's own resolved arguments for the [Param i] nodes of a
    field's type path gives the shape of the field's type id (for every [ty] X, registered
    or not; the compact flag of a field plays no role: [TCompact _ is_field _] is
    [SCompact] either way) *)
Theorem C01_own_skeleton :
  forall r s teq m,
    skeleton_consistent r s -> root_fresh s -> generate r s teq = Ok m ->
    forall (X : ty) (f : field) fp args n,
      let P := params_from_scale_info (t_params X) in
      resolve_field_type_path r s (f_ty f) P (f_type_name f) = Ok fp ->
      Forall2 (fun p a => resolve_type_path r s (tpi_id p) = Ok a) P args ->
      shape_rust m s n (subst_tpath (mk_sigma P args) fp) = shape_reg r s n (f_ty f).
Proof. exact own_skeleton. Qed.
Print Assumptions C01_own_skeleton.

(** the generated items of a skeleton-consistent registry satisfy [items_ok] *)
Theorem C01_items_ok :
  forall r s teq m, skeleton_consistent r s -> generate r s teq = Ok m -> items_ok r s m.
Proof. exact generate_items_ok. Qed.
Print Assumptions C01_items_ok.

(** fidelity: whenever generation succeeds on a skeleton-consistent registry, the type
    expression named for ANY id, read against the generated items, has the registry shape of
    that id at every depth.  No well-formedness of the registry, no restriction on derives,
    docs, alloc / compact / bits paths or substitutes (pass-through and parameter-mapping)
    is needed beyond [root_fresh] (DESIGN 3.2: the root ident is not the head of a user path) *)
Theorem C01_fidelity :
  forall r s teq m,
    skeleton_consistent r s -> root_fresh s -> generate r s teq = Ok m -> Faithful r s m.
Proof. exact generate_faithful. Qed.
Print Assumptions C01_fidelity.

(** the hypothesis is decidable *)
Theorem C01_skeleton_consistentb_sound :
  forall r s, skeleton_consistentb r s = true -> skeleton_consistent r s.
Proof. exact skeleton_consistentb_sound. Qed.
Print Assumptions C01_skeleton_consistentb_sound.

Theorem C01_root_freshb_sound : forall s, root_freshb s = true -> root_fresh s.
Proof. exact root_freshb_sound. Qed.
Print Assumptions C01_root_freshb_sound.

(** non-vacuity: a registry with nested modules, a two-parameter generic enum with a compact
    and a boxed recursive field in three instantiations, Option, Cow, a bit sequence, a
    pass-through and a parameter-mapping substitute satisfies every hypothesis, generates,
    every id resolves, and the two readings agree (computed to depth 6, proved for all) *)
Theorem C01_nonvacuous :
  skeleton_consistent ex_reg ex_settings /\ root_fresh ex_settings /\
  generate ex_reg ex_settings (Equal.types_equal ex_reg) = Ok ex_items /\
  map fst ex_items = [["a"; "Wrap"]; ["a"; "b"; "Tree"]]%string /\
  forallb (fun x => is_ok x) ex_paths = true /\
  faithful_upto ex_reg ex_settings ex_items 7 = true /\
  Faithful ex_reg ex_settings ex_items.
Proof.
  exact (conj ex_skeleton_consistent (conj ex_root_fresh (conj (proj1 ex_generate_ok)
          (conj (proj2 ex_generate_ok) (conj ex_all_resolve (conj ex_faithful_upto_6 ex_faithful)))))).
Qed.
Print Assumptions C01_nonvacuous.

(** the predicate is not trivially true: a same-path family with a coincidence is rejected *)
Theorem C01_inconsistent_rejected : skeleton_consistentb ex_reg_bad ex_settings = false.
Proof. exact ex_bad_inconsistent. Qed.
Print Assumptions C01_inconsistent_rejected.
