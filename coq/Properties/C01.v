(** C01 - generated types are wire-faithful (statements only; proofs in Proofs/). *)
From Coq Require Import List NArith String Bool.
From V Require Import Base.Strings Base.Result Model.Registry Model.Settings Model.Subst
  Model.TypePath Model.Derives Model.Generate Model.Emit Model.Equal Proofs.GenProofs Proofs.SortDedup.
Import ListNotations.

(** the item found at a path is the IR built from a registry entry with that path
    (first half of [C01_lookup]) *)
Theorem C01_item_is_entry_ir :
  forall r s teq m p id ir,
    generate r s teq = Ok m -> items_get m p = Some (id, ir) ->
    exists t flat, In (id, t) r /\ t_path t = p /\ eligible s t = true /\
                   flatten (s_dreg s) r = Ok flat /\ create_type_ir r s t flat = Ok (Some ir).
Proof. exact generate_items_come_from_entries. Qed.
Print Assumptions C01_item_is_entry_ir.

(** ** wire fidelity at the level of the IR (definitions: Model/Shape.v) *)
From V Require Import Model.Shape Proofs.FidelityBase Proofs.ShapeBool Proofs.Fidelity
  Proofs.FidelityGen Proofs.FidelityExample.

(** first insertion wins: the item found at the path of an item-eligible entry X is the IR of
    the FIRST item-eligible entry with that path *)
Theorem C01_lookup :
  forall r s teq m,
    generate r s teq = Ok m ->
    forall id X, In (id, X) r -> item_eligible s X = true ->
    exists id0 X0 ir0 flat,
      first_eligible r s (t_path X) = Some (id0, X0) /\
      flatten (s_dreg s) r = Ok flat /\
      create_type_ir r s X0 flat = Ok (Some ir0) /\
      items_get m (t_path X) = Some (id0, ir0).
Proof. exact generate_lookup. Qed.
Print Assumptions C01_lookup.

(** the core, for ANY registry and ANY item map that satisfies [items_ok] (each item is, up to
    the ids stored in its parameters, the own IR of every entry it stands for): a type
    expression resolved under parent parameters P, with the parameters replaced by type
    expressions that have the registry shape of the ids they stand for, has the registry
    shape of the resolved id - at every depth, for field and non-field positions alike *)
Theorem C01_resolve_shape :
  forall r s m,
    items_ok r s m -> root_fresh s ->
    forall n fuel id is_field P orig fp sg,
      resolve_rec r s fuel id is_field P orig = Ok fp ->
      sigma_ok r s m n P sg ->
      shape_rust m s n (subst_tpath sg fp) = shape_reg r s n id.
Proof. exact resolve_shape. Qed.
Print Assumptions C01_resolve_shape.

(** own skeleton: substituting X's own resolved arguments for the [Param i] nodes of a
    field's type path gives the shape of the field's type id (for every [ty] X, registered
    or not; the compact flag of a field plays no role: [TCompact _ is_field _] is
    [SCompact] either way) *)
Theorem C01_own_skeleton :
  forall r s teq m,
    skeleton_consistent r s -> root_fresh s -> generate r s teq = Ok m ->
    forall (X : ty) (f : field) fp args n,
      let P := params_from_scale_info (t_params X) in
      resolve_field_type_path r s (f_ty f) P (f_type_name f) = Ok fp ->
      Forall2 (fun p a => resolve_type_path r s (tpi_id p) = Ok a) P args ->
      shape_rust m s n (subst_tpath (mk_sigma P args) fp) = shape_reg r s n (f_ty f).
Proof. exact own_skeleton. Qed.
Print Assumptions C01_own_skeleton.

(** the generated items of a skeleton-consistent registry satisfy [items_ok] *)
Theorem C01_items_ok :
  forall r s teq m, skeleton_consistent r s -> generate r s teq = Ok m -> items_ok r s m.
Proof. exact generate_items_ok. Qed.
Print Assumptions C01_items_ok.

(** fidelity: whenever generation succeeds on a skeleton-consistent registry, the type
    expression named for ANY id, read against the generated items, has the registry shape of
    that id at every depth.  No well-formedness of the registry, no restriction on derives,
    docs, alloc / compact / bits paths or substitutes (pass-through and parameter-mapping)
    is needed beyond [root_fresh] (DESIGN 3.2: the root ident is not the head of a user path) *)
Theorem C01_fidelity :
  forall r s teq m,
    skeleton_consistent r s -> root_fresh s -> generate r s teq = Ok m -> Faithful r s m.
Proof. exact generate_faithful. Qed.
Print Assumptions C01_fidelity.

(** the hypothesis is decidable *)
Theorem C01_skeleton_consistentb_sound :
  forall r s, skeleton_consistentb r s = true -> skeleton_consistent r s.
Proof. exact skeleton_consistentb_sound. Qed.
Print Assumptions C01_skeleton_consistentb_sound.

Theorem C01_root_freshb_sound : forall s, root_freshb s = true -> root_fresh s.
Proof. exact root_freshb_sound. Qed.
Print Assumptions C01_root_freshb_sound.

(** non-vacuity: a registry with nested modules, a two-parameter generic enum with a compact
    and a boxed recursive field in three instantiations, Option, Cow, a bit sequence, a
    pass-through and a parameter-mapping substitute satisfies every hypothesis, generates,
    every id resolves, and the two readings agree (computed to depth 6, proved for all) *)
Theorem C01_nonvacuous :
  skeleton_consistent ex_reg ex_settings /\ root_fresh ex_settings /\
  generate ex_reg ex_settings (Equal.types_equal ex_reg) = Ok ex_items /\
  map fst ex_items = [["a"; "Wrap"]; ["a"; "b"; "Tree"]]%string /\
  forallb (fun x => is_ok x) ex_paths = true /\
  faithful_upto ex_reg ex_settings ex_items 7 = true /\
  Faithful ex_reg ex_settings ex_items.
Proof.
  exact (conj ex_skeleton_consistent (conj ex_root_fresh (conj (proj1 ex_generate_ok)
          (conj (proj2 ex_generate_ok) (conj ex_all_resolve (conj ex_faithful_upto_6 ex_faithful)))))).
Qed.
Print Assumptions C01_nonvacuous.

(** the predicate is not trivially true: a same-path family with a coincidence is rejected *)
Theorem C01_inconsistent_rejected : skeleton_consistentb ex_reg_bad ex_settings = false.
Proof. exact ex_bad_inconsistent. Qed.
Print Assumptions C01_inconsistent_rejected.

(** ** the byte-level sentence (definitions: Model/Codec.v)

    [decode P sh] / [encode P sh] are defined by recursion on the SHAPE only (neither the
    registry nor the generated items occur in Model/Codec.v), over abstract primitive
    codecs [P : prims pv bv ov] (fixed-width primitives, compact integers, the sequence
    length prefix, bit sequences, external types).  Every theorem below quantifies over
    ALL value types [pv bv ov] and ALL primitive codecs [P] that satisfy the round-trip
    hypotheses [prims_ok P] (for the depth transfer also [prims_mono P]: an external
    decoder accepts more when the decoders of its arguments do; for the converse direction
    [prims_rev P]: the primitive encodings are self-delimiting).  That this abstract codec
    is what parity-scale-codec's derive does on the emitted items is validated by the
    thorough compile tier, not proved. *)
From V Require Import Model.Codec Model.CodecInstance Model.CodecExample
  Proofs.CodecProofs Proofs.CodecInstanceProofs Proofs.CodecExamples.

(** whatever the decoder of a shape accepts re-encodes, with the encoder of the same shape,
    to exactly the bytes consumed *)
Theorem C01_decode_encode :
  forall (pv bv ov : Type) (P : prims pv bv ov),
    prims_ok P ->
    forall sh b v rest,
      decode P sh b = Some (v, rest) -> exists e, encode P sh v = Some e /\ e ++ rest = b.
Proof. exact (@decode_encode). Qed.
Print Assumptions C01_decode_encode.

(** conversely (under the converse hypotheses [prims_rev P]: the primitive encodings are
    self-delimiting) what the encoder of a shape produces, followed by anything, decodes with
    the decoder of the same shape to the value encoded and hands the rest back *)
Theorem C01_encode_decode :
  forall (pv bv ov : Type) (P : prims pv bv ov),
    prims_rev P ->
    forall sh v bs rest,
      encode P sh v = Some bs -> decode P sh (bs ++ rest) = Some (v, rest).
Proof. exact (@encode_decode). Qed.
Print Assumptions C01_encode_decode.

(** the codec is a function of the shape: equal shapes, same decoder and same encoder *)
Theorem C01_codec_depends_on_shape :
  forall (pv bv ov : Type) (P : prims pv bv ov) sh1 sh2,
    sh1 = sh2 -> decode P sh1 = decode P sh2 /\ encode P sh1 = encode P sh2.
Proof. exact (@codec_depends_on_shape). Qed.
Print Assumptions C01_codec_depends_on_shape.

(** monotonicity in the unfolding depth: [refines a a'] = [a'] is [a] with some [SCut]
    leaves unfolded further; a result obtained on [a] (no [SCut] was hit) is the result on
    [a'], and the depth-n registry reading refines to the depth-(n + k) reading *)
Theorem C01_decode_refines :
  forall (pv bv ov : Type) (P : prims pv bv ov),
    prims_mono P ->
    forall sh sh' b x, refines sh sh' -> decode P sh b = Some x -> decode P sh' b = Some x.
Proof. exact (@decode_refines). Qed.
Print Assumptions C01_decode_refines.

Theorem C01_shape_reg_refines :
  forall r s n k id, refines (shape_reg r s n id) (shape_reg r s (n + k) id).
Proof. exact shape_reg_refines. Qed.
Print Assumptions C01_shape_reg_refines.

(** "every byte string that is a valid encoding of the registry type decodes with the
    generated type, consumes all input and re-encodes to the same bytes": under the
    hypotheses of [C01_fidelity], for every id, the type expression [t] named for it, every
    depth n and every byte string b that the registry reading of the id (to depth n)
    decodes completely to a value v, the generated type (read to the same depth) decodes b
    completely to the same v, and encodes v to b *)
Theorem C01_decode :
  forall (pv bv ov : Type) (P : prims pv bv ov) r s teq m,
    prims_ok P ->
    skeleton_consistent r s -> root_fresh s -> generate r s teq = Ok m ->
    forall id t n b v,
      resolve_type_path r s id = Ok t ->
      decode P (shape_reg r s n id) b = Some (v, []) ->
      decode P (shape_rust m s n t) b = Some (v, []) /\
      encode P (shape_rust m s n t) v = Some b.
Proof. exact (@generate_decode). Qed.
Print Assumptions C01_decode.

(** the same with trailing input: same value, same remainder, and the re-encoding is the
    consumed prefix *)
Theorem C01_decode_rest :
  forall (pv bv ov : Type) (P : prims pv bv ov) r s teq m,
    prims_ok P ->
    skeleton_consistent r s -> root_fresh s -> generate r s teq = Ok m ->
    forall id t n b v rest,
      resolve_type_path r s id = Ok t ->
      decode P (shape_reg r s n id) b = Some (v, rest) ->
      decode P (shape_rust m s n t) b = Some (v, rest) /\
      exists e, encode P (shape_rust m s n t) v = Some e /\ e ++ rest = b.
Proof. exact (@generate_decode_rest). Qed.
Print Assumptions C01_decode_rest.

(** the depth is immaterial: a byte string accepted at depth n is accepted with the same
    result at every depth n + k, by the registry reading and by the generated type ("valid
    encoding of the registry type" = accepted at SOME depth = accepted at all greater ones) *)
Theorem C01_decode_deeper :
  forall (pv bv ov : Type) (P : prims pv bv ov) r s teq m,
    prims_ok P -> prims_mono P ->
    skeleton_consistent r s -> root_fresh s -> generate r s teq = Ok m ->
    forall id t n k b v rest,
      resolve_type_path r s id = Ok t ->
      decode P (shape_reg r s n id) b = Some (v, rest) ->
      decode P (shape_reg r s (n + k) id) b = Some (v, rest) /\
      decode P (shape_rust m s (n + k) t) b = Some (v, rest) /\
      exists e, encode P (shape_rust m s (n + k) t) v = Some e /\ e ++ rest = b.
Proof. exact (@generate_decode_deeper). Qed.
Print Assumptions C01_decode_deeper.

(** the other reading of "valid encoding" - the bytes the registry reading ENCODES a value
    to: the generated type decodes them completely to that value and encodes it to them *)
Theorem C01_encode :
  forall (pv bv ov : Type) (P : prims pv bv ov) r s teq m,
    prims_rev P ->
    skeleton_consistent r s -> root_fresh s -> generate r s teq = Ok m ->
    forall id t n b v,
      resolve_type_path r s id = Ok t ->
      encode P (shape_reg r s n id) v = Some b ->
      decode P (shape_rust m s n t) b = Some (v, []) /\
      encode P (shape_rust m s n t) v = Some b.
Proof. exact (@generate_encode). Qed.
Print Assumptions C01_encode.

(** the hypotheses on the primitive codecs are satisfiable: the little-endian / SCALE
    compact instance of Model/CodecInstance.v *)
Theorem C01_codec_instance : prims_ok iprims /\ prims_mono iprims /\ prims_rev iprims.
Proof. exact (conj iprims_ok (conj iprims_mono iprims_rev)). Qed.
Print Assumptions C01_codec_instance.

(** real bytes (finite computation): on the registry of Model/CodecExample.v (a struct with a
    u8, a compact u32, a Vec<u16>, an enum field and an Option<u16>) the 17 bytes
    07 | B1 04 | 08 0100 0201 | 05 C2450400 01 | 01 0102 decode with the registry reading,
    decode with the generated type [types::a::S] to the same value consuming all input, and
    re-encode to the same bytes; with trailing input, at a greater depth, at an insufficient
    depth, truncated, with an unknown variant index *)
Theorem C01_decode_example :
  skeleton_consistent cx_reg cx_settings /\ root_fresh cx_settings /\
  generate cx_reg cx_settings (Equal.types_equal cx_reg) = Ok cx_items /\
  resolve_type_path cx_reg cx_settings 7 = Ok (cx_path 7) /\
  cx_bytes = [7; 177; 4; 8; 1; 0; 2; 1; 5; 194; 69; 4; 0; 1; 1; 1; 2]%N /\
  cx_value = VStruct [VPrim 7; VPrim 300; VSeq [VPrim 1; VPrim 258];
                      VEnum 5 [VPrim 70000; VPrim 1]; VEnum 1 [VPrim 513]]%N /\
  decode iprims (shape_reg cx_reg cx_settings 4 7) cx_bytes = Some (cx_value, []) /\
  decode iprims (shape_rust cx_items cx_settings 4 (cx_path 7)) cx_bytes = Some (cx_value, []) /\
  encode iprims (shape_rust cx_items cx_settings 4 (cx_path 7)) cx_value = Some cx_bytes /\
  decode iprims (shape_reg cx_reg cx_settings 4 7) (cx_bytes ++ [9; 9]%N) = Some (cx_value, [9; 9]%N) /\
  decode iprims (shape_rust cx_items cx_settings 9 (cx_path 7)) cx_bytes = Some (cx_value, []) /\
  decode iprims (shape_reg cx_reg cx_settings 2 7) cx_bytes = None /\
  decode iprims (shape_reg cx_reg cx_settings 4 7) (removelast cx_bytes) = None /\
  decode iprims (shape_reg cx_reg cx_settings 4 5) [1; 0]%N = None.
Proof.
  refine (conj cx_skeleton_consistent (conj cx_root_fresh (conj (proj1 cx_generate_ok)
          (conj (proj1 cx_resolve_struct) (conj eq_refl (conj eq_refl (conj cx_decode_reg
          (conj cx_decode_rust (conj cx_encode_rust _))))))))).
  destruct cx_more as (H1 & H2 & H3 & H4 & H5 & _).
  exact (conj H1 (conj H2 (conj H3 (conj H4 H5)))).
Qed.
Print Assumptions C01_decode_example.
