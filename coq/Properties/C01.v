(** C01 - generated types are wire-faithful (statements only; proofs in Proofs/). *)
From Coq Require Import List NArith String Bool.
From V Require Import Base.Strings Base.Result Model.Registry Model.Settings Model.Subst
  Model.TypePath Model.Derives Model.Generate Model.Emit Model.Equal Proofs.GenProofs Proofs.SortDedup.
Import ListNotations.

(** the item found at a path is the IR built from a registry entry with that path
    (first half of [C01_lookup]) *)
Theorem C01_item_is_entry_ir :
  forall r s teq m p id ir,
    generate r s teq = Ok m -> items_get m p = Some (id, ir) ->
    exists t flat, In (id, t) r /\ t_path t = p /\ eligible s t = true /\
                   flatten (s_dreg s) r = Ok flat /\ create_type_ir r s t flat = Ok (Some ir).
Proof. exact generate_items_come_from_entries. Qed.
Print Assumptions C01_item_is_entry_ir.
