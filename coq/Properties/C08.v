(** C08 - derives and attributes reach exactly the right types (statements only). *)
From Coq Require Import List NArith String Bool.
From V Require Import Base.Strings Base.Result Model.Registry Model.Settings Model.Subst
  Model.TypePath Model.Derives Model.Generate Model.Emit Model.Equal Model.Reach
  Proofs.GenProofs Proofs.SortDedup Proofs.CollectProofs Proofs.DerivesProofs Proofs.DerivesExamples.
Import ListNotations.

(** emitted derive lists are sorted and duplicate free, keys are exactly the registered ones *)
Theorem C08_emitted_keys : forall l k, In k (keys (sort_dedup l)) <-> In k (keys l).
Proof. exact sort_dedup_keys. Qed.
Print Assumptions C08_emitted_keys.

(** a standalone struct carries exactly the global derives (+ CompactAs under the single-uint-field rule) *)
Theorem C08_upcast_derives :
  forall s c,
    ti_derives (upcast_composite s c) =
    if could_derive_as_compact (ci_kind c) then add_as_compact s (dr_default (s_dreg s))
    else dr_default (s_dreg s).
Proof. exact upcast_derives. Qed.
Print Assumptions C08_upcast_derives.

(** * Universal theorems (all registries, all settings)

    Vocabulary (Model/Reach.v): [edge r a b] = "[b] is a child of the type at position [a]"
    ([collect_children]: non-skipped type parameter | struct field | variant field |
    sequence / array element | tuple element | compact inner; NOT bit store / order),
    [reach r] = its reflexive-transitive closure,
    [rec_reaches r rc sel k x] = "some entry [root] of [r] has a path whose key carries the
    recursive registration [d] in [rc], [x] is in [sel d], and some entry reachable from
    [root] has a path with key [k]". *)

(** the edge relation is what the property says it is, arm by arm *)
Theorem C08_edge_arms :
  forall r a b,
    edge r a b <->
    exists t, resolve r a = Some t /\
      ((exists p, In p (t_params t) /\ tp_ty p = Some b) \/
       match t_def t with
       | TDComposite fs => exists f, In f fs /\ f_ty f = b
       | TDVariant vs => exists v f, In v vs /\ In f (v_fields v) /\ f_ty f = b
       | TDSequence e => e = b
       | TDArray _ e => e = b
       | TDTuple es => In b es
       | TDPrimitive _ => False
       | TDCompact e => e = b
       | TDBitSeq _ _ => False
       end).
Proof. exact edge_edge_spec. Qed.
Print Assumptions C08_edge_arms.

(** [collect_correct]: on a closed registry the traversal started at a valid id returns
    (no fuel exhaustion, no panic) exactly the reachable ids, each once *)
Theorem C08_collect_correct :
  forall r id,
    closed_reg r = true -> (id < N.of_nat (List.length r))%N ->
    exists l, collect_type_ids r id = Ok l /\ NoDup l /\ forall x, In x l <-> reach r id x.
Proof. exact collect_correct. Qed.
Print Assumptions C08_collect_correct.

(** ... and on ANY registry, whenever it returns at all it returns exactly that set *)
Theorem C08_collect_exact :
  forall r id l,
    collect_type_ids r id = Ok l -> NoDup l /\ forall x, In x l <-> reach r id x.
Proof. exact collect_type_ids_exact. Qed.
Print Assumptions C08_collect_exact.

(** [flatten_exact]: the flat registry maps the key [k] to (as sets, for derives and for
    attributes) the registrations for [k] itself plus every recursive registration whose
    root reaches an entry with key [k]; the defaults are untouched.
    (ids = positions is what the sanity pass of [generate] checks first.) *)
Theorem C08_flatten_exact :
  forall dr r fl,
    ids_consistent r = true -> flatten dr r = Ok fl ->
    fl_default fl = dr_default dr /\
    (forall k x,
       In x (d_derives (smap_get_or_empty (fl_specific fl) k)) <->
       In x (d_derives (kmap_or_empty (dr_specific dr) k)) \/
       rec_reaches r (dr_recursive dr) d_derives k x) /\
    (forall k x,
       In x (d_attrs (smap_get_or_empty (fl_specific fl) k)) <->
       In x (d_attrs (kmap_or_empty (dr_specific dr) k)) \/
       rec_reaches r (dr_recursive dr) d_attrs k x).
Proof.
  exact (fun dr r fl Hi Hf =>
           conj (proj1 (flatten_exact dr r fl Hi Hf))
                (conj (proj2 (flatten_exact dr r fl Hi Hf) d_derives (or_introl eq_refl))
                      (proj2 (flatten_exact dr r fl Hi Hf) d_attrs (or_intror eq_refl)))).
Qed.
Print Assumptions C08_flatten_exact.

(** [exact]: the derive set and the attribute set of EVERY generated item (path [p]):
    global, registered for [p], recursive registrations of the roots that reach [p],
    CompactAs iff configured and the item is a struct passing the single-uint-field test;
    nothing else *)
Theorem C08_exact :
  forall r s teq m p id ir,
    generate r s teq = Ok m -> items_get m p = Some (id, ir) ->
    (forall x, In x (d_derives (ti_derives ir)) <->
       In x (d_derives (dr_default (s_dreg s))) \/
       In x (d_derives (kmap_or_empty (dr_specific (s_dreg s)) (path_key p))) \/
       rec_reaches r (dr_recursive (s_dreg s)) d_derives (path_key p) x \/
       (s_compact_as s = Some x /\ item_compactable ir = true)) /\
    (forall x, In x (d_attrs (ti_derives ir)) <->
       In x (d_attrs (dr_default (s_dreg s))) \/
       In x (d_attrs (kmap_or_empty (dr_specific (s_dreg s)) (path_key p))) \/
       rec_reaches r (dr_recursive (s_dreg s)) d_attrs (path_key p) x).
Proof. exact generate_derives_exact. Qed.
Print Assumptions C08_exact.

(** [no_excess]: a derive on an item that is neither global, nor registered for the item's
    path, nor the CompactAs derive comes from a recursive registration on an entry from
    which an entry with the item's path is reachable in the registry graph *)
Theorem C08_no_excess :
  forall r s teq m p id ir x,
    generate r s teq = Ok m -> items_get m p = Some (id, ir) ->
    In x (d_derives (ti_derives ir)) ->
    ~ In x (d_derives (dr_default (s_dreg s))) ->
    ~ In x (d_derives (kmap_or_empty (dr_specific (s_dreg s)) (path_key p))) ->
    ~ (s_compact_as s = Some x /\ item_compactable ir = true) ->
    exists root troot d i t,
      resolve r root = Some troot /\ t_path troot <> [] /\
      kmap_get (dr_recursive (s_dreg s)) (path_key (t_path troot)) = Some d /\ In x (d_derives d) /\
      reach r root i /\
      resolve r i = Some t /\ t_path t <> [] /\ path_key (t_path t) = path_key p.
Proof. exact generate_no_excess. Qed.
Print Assumptions C08_no_excess.

Theorem C08_no_excess_attrs :
  forall r s teq m p id ir x,
    generate r s teq = Ok m -> items_get m p = Some (id, ir) ->
    In x (d_attrs (ti_derives ir)) ->
    ~ In x (d_attrs (dr_default (s_dreg s))) ->
    ~ In x (d_attrs (kmap_or_empty (dr_specific (s_dreg s)) (path_key p))) ->
    exists root troot d i t,
      resolve r root = Some troot /\ t_path troot <> [] /\
      kmap_get (dr_recursive (s_dreg s)) (path_key (t_path troot)) = Some d /\ In x (d_attrs d) /\
      reach r root i /\
      resolve r i = Some t /\ t_path t <> [] /\ path_key (t_path t) = path_key p.
Proof. exact generate_no_excess_attrs. Qed.
Print Assumptions C08_no_excess_attrs.

(** [root_included]: the item at a path with a recursive registration carries all of it *)
Theorem C08_root_included :
  forall r s teq m p id ir d,
    generate r s teq = Ok m -> items_get m p = Some (id, ir) ->
    kmap_get (dr_recursive (s_dreg s)) (path_key p) = Some d ->
    (forall x, In x (d_derives d) -> In x (d_derives (ti_derives ir))) /\
    (forall x, In x (d_attrs d) -> In x (d_attrs (ti_derives ir))).
Proof. exact generate_root_included. Qed.
Print Assumptions C08_root_included.

(** [closed]: if the recursive registration [d] of the entry [root] reaches an entry [X]
    (so the item of [X]'s path carries it) and [X] reaches - through parameters, fields,
    elements, at any depth - an entry [Y] whose path has an item, that item carries all of
    [d] too.  (Stated on the registry graph; that "mentioned in the fields of the item"
    implies "reachable from every entry with the item's path" is the skeleton-consistency
    clause of DESIGN.md 3.3 and is not used here.) *)
Theorem C08_closed :
  forall r s teq m root troot d X Y tY idQ irQ,
    generate r s teq = Ok m ->
    resolve r root = Some troot -> t_path troot <> [] ->
    kmap_get (dr_recursive (s_dreg s)) (path_key (t_path troot)) = Some d ->
    reach r root X -> reach r X Y ->
    resolve r Y = Some tY -> items_get m (t_path tY) = Some (idQ, irQ) ->
    (forall x, In x (d_derives d) -> In x (d_derives (ti_derives irQ))) /\
    (forall x, In x (d_attrs d) -> In x (d_attrs (ti_derives irQ))).
Proof. exact generate_closed. Qed.
Print Assumptions C08_closed.

(** [compact_as_iff]: the eligibility test passes exactly for one field (named or not)
    whose resolved type path is one of the primitives u8 / u16 / u32 / u64 / u128 *)
Theorem C08_compact_as_iff :
  forall k,
    could_derive_as_compact k = true <->
    exists f, (k = CUnnamed [f] \/ exists n, k = CNamed [(n, f)]) /\
              exists p, fi_path f = TPrim p /\ In p [PU8; PU16; PU32; PU64; PU128].
Proof. exact compact_as_iff. Qed.
Print Assumptions C08_compact_as_iff.

(** ... and on the generated item: the CompactAs clause of [C08_exact] holds exactly for a
    struct item with one field of primitive type u8 / u16 / u32 / u64 / u128 *)
Theorem C08_item_compact_as_iff :
  forall ir,
    item_compactable ir = true <->
    exists c f, ti_kind ir = KStruct c /\
                (ci_kind c = CUnnamed [f] \/ exists n, ci_kind c = CNamed [(n, f)]) /\
                exists p, fi_path f = TPrim p /\ In p [PU8; PU16; PU32; PU64; PU128].
Proof. exact item_compactable_iff. Qed.
Print Assumptions C08_item_compact_as_iff.

(** the negative cases: no field, two or more fields, a field that is not a primitive
    (compact, parameter, path, sequence, array, tuple, bit sequence), bool / char / str /
    signed / 256-bit primitives, enums *)
Theorem C08_compact_as_negative :
  could_derive_as_compact CNoFields = false /\
  could_derive_as_compact (CNamed []) = false /\
  could_derive_as_compact (CUnnamed []) = false /\
  (forall a b l, could_derive_as_compact (CNamed (a :: b :: l)) = false) /\
  (forall a b l, could_derive_as_compact (CUnnamed (a :: b :: l)) = false) /\
  (forall f, (forall p, fi_path f <> TPrim p) ->
             could_derive_as_compact (CUnnamed [f]) = false /\
             forall n, could_derive_as_compact (CNamed [(n, f)]) = false) /\
  (forall f p, fi_path f = TPrim p ->
               In p [PBool; PChar; PStr; PU256; PI8; PI16; PI32; PI64; PI128; PI256] ->
               could_derive_as_compact (CUnnamed [f]) = false /\
               forall n, could_derive_as_compact (CNamed [(n, f)]) = false) /\
  (forall ir name docs vs, ti_kind ir = KEnum name docs vs -> item_compactable ir = false).
Proof. exact compact_as_negative. Qed.
Print Assumptions C08_compact_as_negative.

(** the hypotheses are satisfiable on a non-trivial registry (Proofs/DerivesExamples.v:
    cycle A -> Vec<B> -> B -> Option<A> -> A, generic root G with instantiations G<u8> and
    G<A>, single-u32 wrapper W): closed, ids = positions, generation succeeds, and the
    items carry what the theorems say *)
Example C08_witness :
  closed_reg ex_reg = true /\ ids_consistent ex_reg = true /\
  map (collect_type_ids ex_reg) [0; 4; 5; 8]%N =
  [Ok [3; 2; 1; 0]; Ok [6; 4]; Ok [3; 2; 1; 0; 5]; Ok [7; 8]]%N /\
  rmap item_derive_keys (generate ex_reg ex_settings (types_equal ex_reg)) =
  Ok [ (["m"; "A"], (["Clone"; "Debug"; "Eq"; "Hash"], ["#[a]"; "#[b]"]));
       (["m"; "B"], (["Clone"; "Debug"; "Eq"], ["#[b]"]));
       (["m"; "G"], (["Clone"; "Eq"], []));
       (["m"; "H"], (["Eq"], []));
       (["m"; "W"], (["CompactAs"; "Eq"], [])) ]%string.
Proof.
  exact (conj (proj1 ex_collect) (conj (proj1 (proj2 ex_collect))
          (conj (proj2 (proj2 ex_collect)) ex_generate))).
Qed.
