(** C08 - derives and attributes reach exactly the right types (statements only). *)
From Coq Require Import List NArith String Bool.
From V Require Import Base.Strings Base.Result Model.Registry Model.Settings Model.Subst
  Model.TypePath Model.Derives Model.Generate Model.Emit Model.Equal Proofs.GenProofs Proofs.SortDedup.
Import ListNotations.

(** emitted derive lists are sorted and duplicate free, keys are exactly the registered ones *)
Theorem C08_emitted_keys : forall l k, In k (keys (sort_dedup l)) <-> In k (keys l).
Proof. exact sort_dedup_keys. Qed.
Print Assumptions C08_emitted_keys.

(** a standalone struct carries exactly the global derives (+ CompactAs under the single-uint-field rule) *)
Theorem C08_upcast_derives :
  forall s c,
    ti_derives (upcast_composite s c) =
    if could_derive_as_compact (ci_kind c) then add_as_compact s (dr_default (s_dreg s))
    else dr_default (s_dreg s).
Proof. exact upcast_derives. Qed.
Print Assumptions C08_upcast_derives.
