(** C15 — the description formatter only inserts whitespace and is total.
    Only statements, each closed by [exact]; proofs live in Proofs/. *)
From Coq Require Import List NArith ZArith.
From V Require Import Model.Format Proofs.FormatProofs.
Import ListNotations.

(** Totality: [format_with] is a Gallina function (structural recursion on
    the input), so it terminates on every input, balanced or not; popping an
    empty scope stack and a negative indent are explicit branches. *)

Theorem C15_ws_insertion :
  forall (O : Type) (decide : O -> N -> N -> list N -> bool * O) (o : O) (input : list N),
    ws_ins input (format_with O decide o input).
Proof. exact format_with_ws_ins. Qed.
Check C15_ws_insertion.
Print Assumptions C15_ws_insertion.

Theorem C15_strip_equal :
  forall (O : Type) (decide : O -> N -> N -> list N -> bool * O) (o : O) (input : list N),
    strip_ws (format_with O decide o input) = strip_ws input.
Proof. exact format_with_strip. Qed.
Print Assumptions C15_strip_equal.

Theorem C15_impl_strip_equal :
  forall input, strip_ws (format_impl input) = strip_ws input.
Proof. intro; apply format_with_strip. Qed.
Print Assumptions C15_impl_strip_equal.

Theorem C15_no_overflow :
  forall (O : Type) (decide : O -> N -> N -> list N -> bool * O) (n : nat) (o : O) (input : list N),
    (Z.abs (indent (run_n O decide n init_fstate o input)) <= Z.of_nat (length input))%Z.
Proof. exact indent_bounded. Qed.
Print Assumptions C15_no_overflow.
