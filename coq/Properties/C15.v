(** C15 — the description formatter only inserts whitespace and is total.
    Only statements, each closed by [exact]; proofs live in Proofs/. *)
From Coq Require Import List NArith ZArith.
From V Require Import Base.Util Model.Format Model.FormatSpec Proofs.FormatProofs Proofs.FormatDiscipline.
Import ListNotations.

(** Totality: [format_with] is a Gallina function (structural recursion on
    the input), so it terminates on every input, balanced or not; popping an
    empty scope stack and a negative indent are explicit branches. *)

Theorem C15_ws_insertion :
  forall (O : Type) (decide : O -> N -> N -> list N -> bool * O) (o : O) (input : list N),
    ws_ins input (format_with O decide o input).
Proof. exact format_with_ws_ins. Qed.
Check C15_ws_insertion.
Print Assumptions C15_ws_insertion.

Theorem C15_strip_equal :
  forall (O : Type) (decide : O -> N -> N -> list N -> bool * O) (o : O) (input : list N),
    strip_ws (format_with O decide o input) = strip_ws input.
Proof. exact format_with_strip. Qed.
Print Assumptions C15_strip_equal.

Theorem C15_impl_strip_equal :
  forall input, strip_ws (format_impl input) = strip_ws input.
Proof. intro; apply format_with_strip. Qed.
Print Assumptions C15_impl_strip_equal.

Theorem C15_no_overflow :
  forall (O : Type) (decide : O -> N -> N -> list N -> bool * O) (n : nat) (o : O) (input : list N),
    (Z.abs (indent (run_n O decide n init_fstate o input)) <= Z.of_nat (length input))%Z.
Proof. exact indent_bounded. Qed.
Print Assumptions C15_no_overflow.

(** ** second sentence of C15: the indentation discipline.

    Hypotheses: [nestedb input] (one grammar over the three bracket kinds,
    every scope closed, Model/FormatSpec.v) and [ws_free input] (no space, no
    line break: every line break of the output is an inserted one).  All
    statements hold for EVERY decision oracle [decide] (any state type [O]),
    not only for the implementation's 32-character look-ahead [decide_impl]:
    no side condition on the oracle is needed. *)

(** The invariant behind the discipline.  After any number [n] of characters
    of a properly nested input, [bs] being the stack of scopes open at that
    point ([stack_after], the stack [nestedb] itself keeps): the tuple stack has
    one entry per open '(' and the angle stack one per open '<', and

      indent = #open braces + #open Big tuple scopes + #open Big angle scopes,

    in particular it is never negative; at the end of the input the indent is
    0 and both scope stacks are empty. *)
Theorem C15_indent_invariant :
  forall (O : Type) (decide : O -> N -> N -> list N -> bool * O) (o : O) (input : list N),
    nestedb input = true ->
    (forall n : nat, exists bs : list bkind,
        stack_after [] (firstn n input) = Some bs /\
        let st := run_n O decide n init_fstate o input in
        List.length (tuples st) = count_kind KParen bs /\
        List.length (angles st) = count_kind KAngle bs /\
        indent st = Z.of_nat (count_kind KBrace bs + count_big (tuples st) + count_big (angles st)) /\
        (0 <= indent st)%Z) /\
    (let st := final_state O decide init_fstate o input in
     indent st = 0%Z /\ tuples st = [] /\ angles st = []).
Proof. exact indent_invariant. Qed.
Print Assumptions C15_indent_invariant.

(** The discipline itself, read off the OUTPUT alone by the independent reader
    [disciplineb] (Model/FormatSpec.v, it does not see the input, the state or
    the decisions).  The reader keeps the stack of scopes open in the output,
    each with a flag "broken over several lines": a brace scope always is, a
    paren / angle scope is iff its opener is directly followed by a line break
    (by [C15_broken_iff_big] below: iff the oracle answered Big).  With
    depth = number of open broken scopes, [disciplineb out = true] says:
      - every line break is followed by EXACTLY [4 * depth] spaces and then a
        non-space or the end of the text, with the two documented exceptions
      - if the next character is a closing bracket and the innermost open scope
        is broken: exactly [4 * (depth - 1)] spaces, i.e. the closer stands at
        its opener's depth (the reader then checks that this closer closes
        that innermost scope);
      - if the next character is '{': exactly [4 * depth + 1] spaces (the brace
        keeps its one separating space);
      - every closer matches the innermost open scope and the text ends with
        no scope open, i.e. at depth zero. *)
Theorem C15_indent_discipline :
  forall (O : Type) (decide : O -> N -> N -> list N -> bool * O) (o : O) (input : list N),
    nestedb input = true -> ws_free input = true ->
    disciplineb (format_with O decide o input) = true.
Proof. exact format_with_discipline. Qed.
Print Assumptions C15_indent_discipline.

Theorem C15_impl_indent_discipline :
  forall input, nestedb input = true -> ws_free input = true ->
    disciplineb (format_impl input) = true.
Proof. intro; apply format_with_discipline. Qed.
Print Assumptions C15_impl_indent_discipline.

(** The reader's flag is the formatter's decision: listing, for every '(' / '<'
    in order, "directly followed by a line break in the output" ([read_broken])
    gives exactly the oracle's answers "big" ([big_decisions]).  So "broken"
    in [disciplineb] means: brace, or paren / angle scope decided Big. *)
Theorem C15_broken_iff_big :
  forall (O : Type) (decide : O -> N -> N -> list N -> bool * O) (o : O) (input : list N),
    nestedb input = true -> ws_free input = true ->
    read_broken (format_with O decide o input) = big_decisions O decide o input.
Proof. exact broken_iff_big. Qed.
Print Assumptions C15_broken_iff_big.

(** The implementation's oracle.  [decide_impl] answers "small" exactly when
    the text after the opener is [pre ++ close :: post] with [pre] shorter than
    32 characters and free of '{', and [close] the closer matching the opener
    (balance 1 + #open - #close positive on every prefix of [pre], 1 after
    [pre]) ([small_split], Model/FormatSpec.v). *)
Theorem C15_decide_impl_small :
  forall (u : unit) (open close : N) (rest : list N),
    close <> open ->
    (fst (decide_impl u open close rest) = true <->
     exists pre post : list N,
       (List.length pre < small_scope_max_tokens)%nat /\ small_split open close 1 rest pre post).
Proof. exact decide_impl_small_iff. Qed.
Print Assumptions C15_decide_impl_small.

(** The hypotheses are satisfiable on a non-trivial input (Big angle scope
    holding a Small tuple scope and a brace scope; 4 inserted line breaks). *)
From Coq Require Import String.
Example C15_discipline_witness :
  let input := utf8_decode "a<b,(c,d){e,f}>"%string in
  nestedb input = true /\ ws_free input = true /\
  format_impl input = utf8_decode "a<
    b,
    (c, d) {
        e,
        f
    }
>"%string /\
  disciplineb (format_impl input) = true /\
  read_broken (format_impl input) = [true; false].
Proof. vm_compute. repeat split. Qed.

(** The reader is not vacuous: it rejects an indentation of two spaces, a
    closer left at the inner depth, a brace without its separating space, and
    an unclosed scope; it accepts the formatter's layout of the same texts. *)
Example C15_reader_rejects :
  map (fun s => disciplineb (utf8_decode s))
    [" {
    a
}"; " {
  a
}"; " {
    a
    }"; "(
    a,
    {
        x
    }
)"; "(
    a,
     {
        x
    }
)"; "(a"]%string
  = [true; false; false; false; true; false].
Proof. vm_compute. reflexivity. Qed.
