(** C05 - generic definitions are recovered as generics (source round trip).

    Full statement (C05_skeleton_is_source, under construction): for a program of generic
    definitions, the registry scale-info derives from it and every coincidence-free
    instantiation ([instantiation_cf]), the item generated at the definition's path equals
    [expected_item] of the SOURCE definition (up to derives and docs), whatever instantiation
    comes first.  Until that theorem is pinned it is decided per generated program by the
    checker [prop_source_roundtrip] (Corr/RunC05.v) on the implementation's observed output.
    Pinned here: what [expected_item] -- the specification -- says. *)
From Coq Require Import List NArith String Bool.
From V Require Import Base.Strings Model.Registry Model.Program Checkers.Parse.
Import ListNotations.

(** the expected item is generic over exactly the non-skipped parameters, in declaration
    order, named by declared position *)
Theorem C05_spec_generics :
  forall defs root alloc compact bits order codec d,
    pi_generics (expected_item defs root alloc compact bits order codec d) = map gname (generics_of d).
Proof. intros. unfold expected_item. destruct (sd_body d); reflexivity. Qed.
Print Assumptions C05_spec_generics.

(** a field type is turned into a field-level Box exactly when the recorded source type mentions Box *)
Theorem C05_spec_box_only_at_field_level :
  forall defs root alloc compact bits order f,
    field_pty defs root alloc compact bits order f =
    let inner := match sf_ty f with
                 | SCompactT t | SCow (SCompactT t) => src_pty defs root alloc compact bits order t
                 | t => src_pty defs root alloc compact bits order t
                 end in
    if has_box (sf_ty f) && sf_type_name f then abs_p (alloc ++ ["boxed"; "Box"]) [inner] else inner.
Proof. intros. reflexivity. Qed.
Print Assumptions C05_spec_box_only_at_field_level.

(** Box and Cow are erased inside type expressions, VecDeque is printed as Vec *)
Theorem C05_spec_erasures :
  forall defs root alloc compact bits order t,
    src_pty defs root alloc compact bits order (SBox t) = src_pty defs root alloc compact bits order t /\
    src_pty defs root alloc compact bits order (SCow t) = src_pty defs root alloc compact bits order t /\
    src_pty defs root alloc compact bits order (SVecDeque t) = src_pty defs root alloc compact bits order (SVec t).
Proof. intros. repeat split. Qed.
Print Assumptions C05_spec_erasures.
