(** C05 - generic definitions are recovered as generics (source round trip).

    Full statement (C05_skeleton_is_source, under construction): for a program of generic
    definitions, the registry scale-info derives from it and every coincidence-free
    instantiation ([instantiation_cf]), the item generated at the definition's path equals
    [expected_item] of the SOURCE definition (up to derives and docs), whatever instantiation
    comes first.  Until that theorem is pinned it is decided per generated program by the
    checker [prop_source_roundtrip] (Corr/RunC05.v) on the implementation's observed output.
    Pinned here: what [expected_item] -- the specification -- says. *)
From Coq Require Import List NArith String Bool.
From V Require Import Base.Strings Model.Registry Model.Program Checkers.Parse.
Import ListNotations.

(** the expected item is generic over exactly the non-skipped parameters, in declaration
    order, named by declared position *)
Theorem C05_spec_generics :
  forall defs root alloc compact bits order codec d,
    pi_generics (expected_item defs root alloc compact bits order codec d) = map gname (generics_of d).
Proof. intros. unfold expected_item. destruct (sd_body d); reflexivity. Qed.
Print Assumptions C05_spec_generics.

(** a field type is turned into a field-level Box exactly when the recorded source type mentions Box *)
Theorem C05_spec_box_only_at_field_level :
  forall defs root alloc compact bits order f,
    field_pty defs root alloc compact bits order f =
    let inner := match sf_ty f with
                 | SCompactT t | SCow (SCompactT t) => src_pty defs root alloc compact bits order t
                 | t => src_pty defs root alloc compact bits order t
                 end in
    if has_box (sf_ty f) && sf_type_name f then abs_p (alloc ++ ["boxed"; "Box"]) [inner] else inner.
Proof. intros. reflexivity. Qed.
Print Assumptions C05_spec_box_only_at_field_level.

(** Box and Cow are erased inside type expressions, VecDeque is printed as Vec *)
Theorem C05_spec_erasures :
  forall defs root alloc compact bits order t,
    src_pty defs root alloc compact bits order (SBox t) = src_pty defs root alloc compact bits order t /\
    src_pty defs root alloc compact bits order (SCow t) = src_pty defs root alloc compact bits order t /\
    src_pty defs root alloc compact bits order (SVecDeque t) = src_pty defs root alloc compact bits order (SVec t).
Proof. intros. repeat split. Qed.
Print Assumptions C05_spec_erasures.

(** ** the round trip as a theorem (Proofs/SourceRoundTrip.v)

    FULL STATEMENT ([C05_skeleton_is_source]): for [RegistryOf prog L r] (Model/Program.v: [L] labels
    ids with closed canonical source types, injectively; every entry is locally what the derive
    produces for its label), an id labelled [SApp d args] with [instantiation_cf], and the IR
    [create_type_ir r s t flat = Ok (Some ir)] of its entry: [ti_params ir] are exactly the
    non-skipped parameters with [tpi_idx] = declared position; every field of [ir], up to the
    ids stored in [Param] nodes, is [normal_field] of the SOURCE field (path = [src_tpath] of the
    source field type: parameters in the same positions, Box / Cow transparent, VecDeque = Vec;
    compact and boxed flags as [field_compact] / [has_box]), so that
    [tpath_pty (fi_path f) = field_pty sf] read as parsed types; [ti_unused ir] = the declared
    generics not in [body_params]; hence all instantiations have [erase_ids]-equal IRs.

    PROVED below (the [_partial] theorems), universally, by induction on the source field type:
    parameters and all fields ([erase_fi fi = normal_field sf], which contains the path, the
    compact flag and the boxed flag), for definitions whose field types are in [src_fragment]:
    parameters, applications of definitions (any nesting, skipped parameters), Vec, VecDeque,
    arrays, tuples, primitives, Compact (explicit and [#[codec(compact)]]), Box.
    MISSING: (1) the prelude types Option / Result / BTreeMap / BTreeSet / Cow / Range and bit
    sequences (they are in [RegistryOf], [src_tpath] and [registry_ofb], not in the induction);
    substituted definition paths ([def_okb]); (2) [ti_unused] and the names of fields / variants
    (so [erase_ids ir1 = erase_ids ir2] is proved for the parameter positions and the fields only);
    (3) the reading [tpath_pty (src_tpath sigma) = src_pty sigma] as a general lemma - it is
    evaluated on the example ([C05_example]); (4) soundness of [registry_ofb] w.r.t. [RegistryOf]
    and the Coq re-implementation of the harness interner ([intern_program]) - [RegistryOf] is
    proved directly for the example and [registry_ofb] evaluates to [true] on it.
    Extra decidable hypotheses found while proving: the arguments of the label are canonical
    ([map canon args = args], true of labels); [compact_fields_okb]: a [#[codec(compact)]] field
    whose [Compact<..>] type coincides with an argument must record a type name different from
    that parameter's name (else [find_parent] takes it for the parameter); [box_names_okb]: the
    recorded type name contains ["Box<"] exactly when the source type mentions Box. *)
From V Require Import Base.Result Model.Settings Model.TypePath Model.Generate Model.WellFormed Model.Shape
  Proofs.SourceRoundTrip.

Theorem C05_skeleton_is_source_partial :
  forall (defs : list sdef) (L : N -> option src) (r : registry) (s : settings) (order_tp : bool -> tpath),
  RegistryOf defs L r ->
  (forall sd, In sd defs -> def_okb s sd = true) ->
  forall (d : nat) (sd : sdef) (args : list src),
  nth_error defs d = Some sd ->
  instantiation_cf defs sd args = true ->
  map canon args = args ->
  forallb field_fragment (def_sfields sd) = true ->
  compact_fields_okb defs sd args = true ->
  box_names_okb defs sd = true ->
  forall t : ty, entry_of defs L r (SApp d args) t ->
  forall flat ir, create_type_ir r s t flat = Ok (Some ir) ->
  map tpi_idx (ti_params ir) = map N.of_nat (generics_of sd) /\
  Forall2 (fun sf fi => erase_fi fi = normal_field defs s order_tp sf)
          (def_sfields sd) (kind_fields (ti_kind ir)).
Proof. exact skeleton_is_source. Qed.
Print Assumptions C05_skeleton_is_source_partial.

(** two instantiations of one definition: same parameter positions, same fields up to ids
    (the part of [skeleton_consistent] - the hypothesis of [C01_fidelity] - that concerns
    parameters and field types) *)
Theorem C05_one_item_partial :
  forall defs L r s (order_tp : bool -> tpath),
  RegistryOf defs L r -> (forall sd, In sd defs -> def_okb s sd = true) ->
  forall d sd, nth_error defs d = Some sd ->
  forallb field_fragment (def_sfields sd) = true -> box_names_okb defs sd = true ->
  forall args1 args2 t1 t2 flat1 flat2 ir1 ir2,
  instantiation_cf defs sd args1 = true -> map canon args1 = args1 -> compact_fields_okb defs sd args1 = true ->
  instantiation_cf defs sd args2 = true -> map canon args2 = args2 -> compact_fields_okb defs sd args2 = true ->
  entry_of defs L r (SApp d args1) t1 -> entry_of defs L r (SApp d args2) t2 ->
  create_type_ir r s t1 flat1 = Ok (Some ir1) -> create_type_ir r s t2 flat2 = Ok (Some ir2) ->
  map tpi_idx (ti_params ir1) = map tpi_idx (ti_params ir2) /\
  Forall2 (fun f1 f2 => erase_fi f1 = erase_fi f2) (kind_fields (ti_kind ir1)) (kind_fields (ti_kind ir2)).
Proof. exact one_item. Qed.
Print Assumptions C05_one_item_partial.

(** non-vacuity: [a::Foo<T, #[skip] U> { x: T, y: Box<Vec<T>>, #[codec(compact)] n: u32 }] at
    [u16] and [bool]: the registry satisfies [RegistryOf] (and [registry_ofb]), every hypothesis
    holds, the IRs exist, and the fields read as parsed types are the source field types *)
Theorem C05_example :
  RegistryOf ex5_defs ex5_L ex5_reg /\ registry_ofb ex5_defs ex5_labels ex5_reg = true /\
  (forall sd, In sd ex5_defs -> def_okb ex5_s sd = true) /\
  nth_error ex5_defs 0 = Some ex5_sd /\
  forallb field_fragment (def_sfields ex5_sd) = true /\ box_names_okb ex5_defs ex5_sd = true /\
  instantiation_cf ex5_defs ex5_sd [SPrimT PU16; SPrimT PStr] = true /\
  instantiation_cf ex5_defs ex5_sd [SPrimT PBool; SPrimT PStr] = true /\
  compact_fields_okb ex5_defs ex5_sd [SPrimT PU16; SPrimT PStr] = true /\
  compact_fields_okb ex5_defs ex5_sd [SPrimT PBool; SPrimT PStr] = true /\
  (exists ir, create_type_ir ex5_reg ex5_s (ex5_foo 1 2 3) flat0 = Ok (Some ir) /\
              map erase_fi (kind_fields (ti_kind ir)) = map (normal_field ex5_defs ex5_s ex5_otp) (def_sfields ex5_sd) /\
              map (fun f => let p := tpath_pty ["std"] (fi_path f) in
                            if fi_boxed f then abs_p (["std"] ++ ["boxed"; "Box"]) [p] else p)
                  (kind_fields (ti_kind ir)) =
              map (field_pty ex5_defs "root" ["std"] (["codec"; "Compact"], true) ([], false) (fun _ => PBad))
                  (def_sfields ex5_sd)) /\
  (exists ir, create_type_ir ex5_reg ex5_s (ex5_foo 6 7 3) flat0 = Ok (Some ir)).
Proof. exact (conj ex5_RegistryOf (conj ex5_registry_ofb ex5_hypotheses)). Qed.
Print Assumptions C05_example.
