(** C05 - generic definitions are recovered as generics (source round trip).

    Full statement of the property: for a program of generic definitions, the registry
    scale-info derives from it and every coincidence-free instantiation ([instantiation_cf]), the
    item generated at the definition's path equals [expected_item] of the SOURCE definition (up to
    derives and docs), whatever instantiation comes first.
    PROVED (below): everything up to and including the IR - [C05_skeleton_is_source]: the erased
    IR of every coincidence-free instantiation is [ir_of_source] of the source definition (all of
    [src] except a Cow directly inside a Cow); the field types of that IR read back as parsed
    types are [field_pty] of the source fields ([C05_fields_read_as_source]), i.e. the field types
    of [expected_item]; all instantiations give one erased IR ([C05_one_item]); program registries
    are skeleton-consistent ([C05_program_skeleton_consistent]), so the item kept for the path
    (C01_lookup: the IR of the FIRST instantiation) represents every instantiation faithfully
    ([C05_program_faithful]).
    ALSO PROVED (section "the emission step" at the end of this file; this header used to list it
    as missing): the emission step - the tokens [emit_module] prints for the IR of a
    coincidence-free instantiation, parsed by Checkers/Parse.v and stripped of derives / docs /
    user attributes, are [expected_item d] (marker field, attributes, item syntax):
    [C05_expected_item_of_ir], [C05_source_roundtrip], [C05_source_roundtrip_module]; the checker
    [prop_source_roundtrip] (Corr/RunC05.v), still evaluated per generated program on the
    implementation's observed output, is a consequence of the token correspondence [corr_gen]
    wherever the decidable hypotheses hold ([C05_checker_verdict_from_correspondence]).
    ALSO PROVED (section "the round trip on REAL registries"): all of the above on [RegistryOf1],
    the specification with scale-info's one-step type identity, which real registries with
    identity duplicates satisfy ([C05_skeleton_is_source1] and companions).
    STILL OPEN: the module-level emission theorems are stated on [RegistryOf]; on [RegistryOf1]
    only the item-level composition [C05_skeleton_is_source1] + [C05_expected_item_of_ir] holds.
    First: what [expected_item] -- the specification -- says. *)
From Coq Require Import List NArith String Bool.
From V Require Import Base.Strings Model.Registry Model.Program Checkers.Parse.
Import ListNotations.

(** the expected item is generic over exactly the non-skipped parameters, in declaration
    order, named by declared position *)
Theorem C05_spec_generics :
  forall defs root alloc compact bits order codec d,
    pi_generics (expected_item defs root alloc compact bits order codec d) = map gname (generics_of d).
Proof. intros. unfold expected_item. destruct (sd_body d); reflexivity. Qed.
Print Assumptions C05_spec_generics.

(** a field type is turned into a field-level Box exactly when the recorded source type mentions Box *)
Theorem C05_spec_box_only_at_field_level :
  forall defs root alloc compact bits order f,
    field_pty defs root alloc compact bits order f =
    let inner := match sf_ty f with
                 | SCompactT t | SCow (SCompactT t) => src_pty defs root alloc compact bits order t
                 | t => src_pty defs root alloc compact bits order t
                 end in
    if has_box (sf_ty f) && sf_type_name f then abs_p (alloc ++ ["boxed"; "Box"]) [inner] else inner.
Proof. intros. reflexivity. Qed.
Print Assumptions C05_spec_box_only_at_field_level.

(** Box and Cow are erased inside type expressions, VecDeque is printed as Vec *)
Theorem C05_spec_erasures :
  forall defs root alloc compact bits order t,
    src_pty defs root alloc compact bits order (SBox t) = src_pty defs root alloc compact bits order t /\
    src_pty defs root alloc compact bits order (SCow t) = src_pty defs root alloc compact bits order t /\
    src_pty defs root alloc compact bits order (SVecDeque t) = src_pty defs root alloc compact bits order (SVec t).
Proof. intros. repeat split. Qed.
Print Assumptions C05_spec_erasures.

(** ** the round trip as a theorem (Proofs/SourceRoundTrip.v, SourceSkeleton.v, SourceReading.v)

    [RegistryOf defs L r] (Model/Program.v): [L] labels ids with closed canonical source types,
    injectively; every entry is locally what the derive produces for its label (prelude types and
    bit sequences included; the bit-order markers are the only unlabelled entries).

    [C05_skeleton_is_source]: for an id labelled [SApp d args] with [instantiation_cf] and the IR
    [create_type_ir r s t flat = Ok (Some ir)] of its entry, the WHOLE erased IR ([erase_ids],
    Model/Shape.v: everything but the ids / original names stored in parameters, docs, derives) is
    [ir_of_source defs s order_tp sd] (Model/ProgramSkel.v), a function of the SOURCE definition:
    [ti_params] = the non-skipped parameters by declared position; [ti_unused] = the declared
    generics not in [body_params]; item / variant / field names and variant indices; every field
    = [normal_field] of the source field (path = [src_tpath] of the source field type: parameters
    in the same positions, Box / Cow transparent, VecDeque = Vec; compact and boxed flags).
    The source types covered are ALL of [src] except a Cow directly inside a Cow (Box in between
    does not count), hypothesis [no_cow_cow] (finding F16: the generator looks through one Cow).
    Hypotheses beyond the quantifier of C05, all decidable, found while proving:
    - [def_okb]: item paths not substituted, namespaced, identifiers, not called Cow;
    - [prelude_okb]: Option / Result / BTreeMap / BTreeSet / Range are not substituted;
    - [order_resolves s order_tp]: [order_tp lsb] is what the settings turn the bit-order marker
      path into (substitute or generated item), decidable as [order_resolvesb];
    - the arguments of the label are canonical ([map canon args = args], true of labels);
    - [compact_fields_okb]: a [#[codec(compact)]] field whose [Compact<..>] type coincides with an
      argument records a type name different from that parameter's name;
    - [box_names_okb]: the recorded type name contains ["Box<"] exactly when the type mentions Box.
    [registry_ofb] is sound w.r.t. [RegistryOf] ([C05_registry_ofb_sound]) when the prelude entries
    carry no docs.  It is the conjunction of [registry_entries_ofb] (every entry is the derive's
    entry for its label; evaluated on EVERY generated case as [corr_registry_of], Corr/RunC05.v, with
    the labels of the harness interner, which the thorough tier compares with scale-info's real
    derive) and [labels_injectiveb] ([C05_registry_ofb_split]).  The second conjunct is FALSE of
    real registries in which scale-info registered one type twice (it interns by the TypeId of one
    [Identity] step: [Vec<Box<T>>] next to [Vec<T>], [Box<Vec<T>>] next to [Vec<T>], ..): on those
    [RegistryOf] does not hold and the theorems of THIS section say nothing (counted per run as
    [hyp_identity_duplicates]); they are covered by the [RegistryOf1] versions further down
    ([C05_skeleton_is_source1], ..; checked on every case as [corr_registry_of1]).
    NOT proved: the Coq re-implementation of the harness interner ([intern_program]). *)
From V Require Import Base.Result Model.Settings Model.TypePath Model.Generate Model.Equal Model.WellFormed Model.Shape
  Model.ProgramSkel Model.ProgramTeq Model.ProgramExamples
  Proofs.SourceRoundTrip Proofs.SourceSkeleton Proofs.SourceReading Proofs.RegistryOfSound Proofs.ProgramExamples.

Theorem C05_skeleton_is_source :
  forall (defs : list sdef) (L : N -> option src) (r : registry) (s : settings) (order_tp : bool -> tpath),
  RegistryOf defs L r ->
  (forall sd, In sd defs -> def_okb s sd = true) ->
  prelude_okb s = true ->
  order_resolves s order_tp ->
  forall (d : nat) (sd : sdef) (args : list src),
  nth_error defs d = Some sd ->
  instantiation_cf defs sd args = true ->
  map canon args = args ->
  forallb (fun f => no_cow_cow (sf_ty f)) (def_sfields sd) = true ->
  compact_fields_okb defs sd args = true ->
  box_names_okb defs sd = true ->
  forall t : ty, entry_of defs L r (SApp d args) t ->
  forall flat ir, create_type_ir r s t flat = Ok (Some ir) ->
  erase_ids ir = ir_of_source defs s order_tp sd.
Proof. exact skeleton_full. Qed.
Print Assumptions C05_skeleton_is_source.

(** the parts of the above that were pinned first: parameter positions and fields *)
Theorem C05_skeleton_params_and_fields :
  forall (defs : list sdef) (L : N -> option src) (r : registry) (s : settings) (order_tp : bool -> tpath),
  RegistryOf defs L r ->
  (forall sd, In sd defs -> def_okb s sd = true) ->
  prelude_okb s = true ->
  order_resolves s order_tp ->
  forall (d : nat) (sd : sdef) (args : list src),
  nth_error defs d = Some sd ->
  instantiation_cf defs sd args = true ->
  map canon args = args ->
  forallb (fun f => no_cow_cow (sf_ty f)) (def_sfields sd) = true ->
  compact_fields_okb defs sd args = true ->
  box_names_okb defs sd = true ->
  forall t : ty, entry_of defs L r (SApp d args) t ->
  forall flat ir, create_type_ir r s t flat = Ok (Some ir) ->
  map tpi_idx (ti_params ir) = map N.of_nat (generics_of sd) /\
  Forall2 (fun sf fi => erase_fi fi = normal_field defs s order_tp sf)
          (def_sfields sd) (kind_fields (ti_kind ir)).
Proof. exact skeleton_is_source. Qed.
Print Assumptions C05_skeleton_params_and_fields.

(** what [ir_of_source] is: declared positions, unused = declared generics not in [body_params] *)
Theorem C05_ir_of_source_spec :
  forall defs s order_tp d,
    ti_params (ir_of_source defs s order_tp d) = map pos_tpi (generics_of d) /\
    ti_unused (ir_of_source defs s order_tp d) =
      map pos_tpi (filter (fun i => negb (existsb (Nat.eqb i) (body_params defs (sd_body d)))) (generics_of d)) /\
    kind_fields (ti_kind (ir_of_source defs s order_tp d)) = map (normal_field defs s order_tp) (def_sfields d).
Proof. exact ir_of_source_spec. Qed.
Print Assumptions C05_ir_of_source_spec.

(** the reading as parsed types, in general: the normalised path of a source type, read back by
    [tpath_pty] (the rendering the parser of Checkers/Parse.v inverts), is [src_pty] of the source
    type - the type expression [expected_item] puts into the expected item - with the token-level
    parameters of [src_pty] read off the settings.  [render_okb]: the alloc path is [::seg::..],
    no path segment is the token [:]; [apps_okb]: applications name existing definitions *)
Theorem C05_tpath_pty_is_src_pty :
  forall defs s (order_tp : bool -> tpath),
  render_okb s defs = true ->
  forall t, apps_okb defs t = true ->
  tpath_pty (alloc_segs s) (src_tpath defs s order_tp false t) =
  src_pty defs (s_root s) (alloc_segs s) (segs_lead_of (opt_toks (s_compact s)))
          (segs_lead_of (opt_toks (s_bits s))) (fun lsb => tpath_pty (alloc_segs s) (order_tp lsb)) t.
Proof. exact tpath_pty_src. Qed.
Print Assumptions C05_tpath_pty_is_src_pty.

(** ... hence every field of the IR of an instantiation, read as a parsed type (a boxed field
    wrapped at field level), is [field_pty] of the SOURCE field.  [field_conv_okb]: the
    conventions of [field_pty] - a compact behind transparent wrappers is written [Compact<T>] or
    [Cow<Compact<T>>], a [#[codec(compact)]] field is not itself a [Compact<..>] *)
Theorem C05_fields_read_as_source :
  forall defs L r s (order_tp : bool -> tpath),
  RegistryOf defs L r -> (forall sd, In sd defs -> def_okb s sd = true) ->
  prelude_okb s = true -> order_resolves s order_tp -> render_okb s defs = true ->
  forall d sd args, nth_error defs d = Some sd ->
  instantiation_cf defs sd args = true -> map canon args = args ->
  forallb (fun f => no_cow_cow (sf_ty f)) (def_sfields sd) = true ->
  compact_fields_okb defs sd args = true -> box_names_okb defs sd = true ->
  forallb (fun f => apps_okb defs (sf_ty f) && field_conv_okb f) (def_sfields sd) = true ->
  forall t, entry_of defs L r (SApp d args) t ->
  forall flat ir, create_type_ir r s t flat = Ok (Some ir) ->
  Forall2 (fun sf fi =>
             fi_pty (alloc_segs s) fi =
             field_pty defs (s_root s) (alloc_segs s) (segs_lead_of (opt_toks (s_compact s)))
                       (segs_lead_of (opt_toks (s_bits s)))
                       (fun lsb => tpath_pty (alloc_segs s) (order_tp lsb)) sf)
          (def_sfields sd) (kind_fields (ti_kind ir)).
Proof. exact fields_read_as_source. Qed.
Print Assumptions C05_fields_read_as_source.

(** two instantiations of one definition have the same erased IR *)
Theorem C05_one_item :
  forall defs L r s (order_tp : bool -> tpath),
  RegistryOf defs L r -> (forall sd, In sd defs -> def_okb s sd = true) ->
  prelude_okb s = true -> order_resolves s order_tp ->
  forall d sd, nth_error defs d = Some sd ->
  forallb (fun f => no_cow_cow (sf_ty f)) (def_sfields sd) = true -> box_names_okb defs sd = true ->
  forall args1 args2 t1 t2 flat1 flat2 ir1 ir2,
  instantiation_cf defs sd args1 = true -> map canon args1 = args1 -> compact_fields_okb defs sd args1 = true ->
  instantiation_cf defs sd args2 = true -> map canon args2 = args2 -> compact_fields_okb defs sd args2 = true ->
  entry_of defs L r (SApp d args1) t1 -> entry_of defs L r (SApp d args2) t2 ->
  create_type_ir r s t1 flat1 = Ok (Some ir1) -> create_type_ir r s t2 flat2 = Ok (Some ir2) ->
  erase_ids ir1 = erase_ids ir2.
Proof. exact one_item_full. Qed.
Print Assumptions C05_one_item.

(** hence the registry of a program all of whose interned instantiations are coincidence-free is
    [skeleton_consistent] - the main hypothesis of [C01_fidelity], [C03_consistent_is_faithful],
    [C17_permutation_tokens].  Hypotheses: the definitions are ok (as above; additionally no
    definition sits at the path of a bit-order marker), paths of definitions pairwise distinct,
    and every item-eligible entry has an IR at all (a consequence of successful generation, see
    [C05_program_faithful]; it fails e.g. when a compact field is used without a compact path) *)
Theorem C05_program_skeleton_consistent :
  forall defs L r s (order_tp : bool -> tpath),
  RegistryOf defs L r -> prelude_okb s = true -> order_resolves s order_tp ->
  (forall sd, In sd defs ->
     def_okb s sd = true /\ forallb (fun f => no_cow_cow (sf_ty f)) (def_sfields sd) = true /\
     box_names_okb defs sd = true /\ forall lsb, sd_path sd <> order_path_of lsb) ->
  (forall d1 d2 sd1 sd2,
     nth_error defs d1 = Some sd1 -> nth_error defs d2 = Some sd2 -> sd_path sd1 = sd_path sd2 -> d1 = d2) ->
  (forall id d args sd,
     L id = Some (SApp d args) -> nth_error defs d = Some sd ->
     instantiation_cf defs sd args = true /\ map canon args = args /\ compact_fields_okb defs sd args = true) ->
  (forall id X, In (id, X) r -> item_eligible s X = true ->
     exists ir, create_type_ir r s X flat0 = Ok (Some ir)) ->
  skeleton_consistent r s.
Proof. exact program_skeleton_consistent. Qed.
Print Assumptions C05_program_skeleton_consistent.

(** ... and with [C01_fidelity]: whenever generation succeeds on a program-derived registry with
    coincidence-free instantiations, every type expression has the registry shape of its id *)
Theorem C05_program_faithful :
  forall defs L r s (order_tp : bool -> tpath) teq m,
  RegistryOf defs L r -> prelude_okb s = true -> order_resolves s order_tp ->
  (forall sd, In sd defs ->
     def_okb s sd = true /\ forallb (fun f => no_cow_cow (sf_ty f)) (def_sfields sd) = true /\
     box_names_okb defs sd = true /\ forall lsb, sd_path sd <> order_path_of lsb) ->
  (forall d1 d2 sd1 sd2,
     nth_error defs d1 = Some sd1 -> nth_error defs d2 = Some sd2 -> sd_path sd1 = sd_path sd2 -> d1 = d2) ->
  (forall id d args sd,
     L id = Some (SApp d args) -> nth_error defs d = Some sd ->
     instantiation_cf defs sd args = true /\ map canon args = args /\ compact_fields_okb defs sd args = true) ->
  root_fresh s -> generate r s teq = Ok m -> Faithful r s m.
Proof. exact program_faithful. Qed.
Print Assumptions C05_program_faithful.

(** non-vacuity: [a::Foo<T, #[skip] U> { x: T, y: Box<Vec<T>>, #[codec(compact)] n: u32 }] at
    [u16] and [bool]: the registry satisfies [RegistryOf] (and [registry_ofb]), every hypothesis
    holds, the IRs exist, and the fields read as parsed types are the source field types *)
Theorem C05_example :
  RegistryOf ex5_defs ex5_L ex5_reg /\ registry_ofb ex5_defs ex5_labels ex5_reg = true /\
  (prelude_okb ex5_s = true /\ order_resolves ex5_s ex5_otp /\ render_okb ex5_s ex5_defs = true) /\
  (forall sd, In sd ex5_defs -> def_okb ex5_s sd = true) /\
  nth_error ex5_defs 0 = Some ex5_sd /\
  forallb (fun f => no_cow_cow (sf_ty f)) (def_sfields ex5_sd) = true /\ box_names_okb ex5_defs ex5_sd = true /\
  instantiation_cf ex5_defs ex5_sd [SPrimT PU16; SPrimT PStr] = true /\
  instantiation_cf ex5_defs ex5_sd [SPrimT PBool; SPrimT PStr] = true /\
  compact_fields_okb ex5_defs ex5_sd [SPrimT PU16; SPrimT PStr] = true /\
  compact_fields_okb ex5_defs ex5_sd [SPrimT PBool; SPrimT PStr] = true /\
  (exists ir, create_type_ir ex5_reg ex5_s (ex5_foo 1 2 3) flat0 = Ok (Some ir) /\
              map erase_fi (kind_fields (ti_kind ir)) = map (normal_field ex5_defs ex5_s ex5_otp) (def_sfields ex5_sd) /\
              map (fun f => let p := tpath_pty ["std"] (fi_path f) in
                            if fi_boxed f then abs_p (["std"] ++ ["boxed"; "Box"]) [p] else p)
                  (kind_fields (ti_kind ir)) =
              map (field_pty ex5_defs "root" ["std"] (["codec"; "Compact"], true) ([], false) (fun _ => PBad))
                  (def_sfields ex5_sd)) /\
  (exists ir, create_type_ir ex5_reg ex5_s (ex5_foo 6 7 3) flat0 = Ok (Some ir)).
Proof. exact (conj ex5_RegistryOf (conj ex5_registry_ofb (conj ex5_settings_ok ex5_hypotheses))). Qed.
Print Assumptions C05_example.

(** the decidable checker is sound ([prelude_nodocs_b]: [registry_ofb] compares the fields and
    variants of prelude entries up to docs, [RegistryOf] fixes them as scale-info emits them) *)
Theorem C05_registry_ofb_sound :
  forall defs labels r,
    registry_ofb defs labels r = true -> prelude_nodocs_b r = true -> RegistryOf defs (label_at labels) r.
Proof. exact registry_ofb_sound. Qed.
Print Assumptions C05_registry_ofb_sound.

(** what [corr_registry_of] (Corr/RunC05.v) establishes on every generated case: the first two
    clauses of [RegistryOf] - every labelled id has the derive's entry for its label, the
    unlabelled entries are the bit-order markers *)
Theorem C05_registry_entries_ofb_sound :
  forall defs labels r,
    registry_entries_ofb defs labels r = true -> prelude_nodocs_b r = true ->
    (forall id c, label_at labels id = Some c ->
       exists t, resolve r id = Some t /\ entry_of defs (label_at labels) r c t) /\
    (forall id t, resolve r id = Some t -> label_at labels id = None -> exists lsb, order_marker lsb t).
Proof. exact registry_entries_ofb_sound. Qed.
Print Assumptions C05_registry_entries_ofb_sound.

Theorem C05_registry_ofb_split :
  forall defs labels r,
    registry_ofb defs labels r = registry_entries_ofb defs labels r && labels_injectiveb labels.
Proof. reflexivity. Qed.
Print Assumptions C05_registry_ofb_split.

(** non-vacuity on the prelude part of the fragment:
    [a::Bar<T> { A(Option<T>, BTreeMap<u8, T>), B { bits: BitVec<u8, Lsb0>, c: Cow<'static, Vec<T>> } }]
    at [u16] and [bool]: every hypothesis of [C05_skeleton_is_source] / [C05_fields_read_as_source]
    holds, both IRs exist and their erased form IS [ir_of_source] (recomputed here), the registry
    is skeleton-consistent and generation succeeds *)
Theorem C05_example_prelude :
  RegistryOf ex6_defs (label_at ex6_labels) ex6_reg /\
  (prelude_okb ex6_s = true /\ order_resolves ex6_s ex6_otp /\ render_okb ex6_s ex6_defs = true) /\
  (forall sd, In sd ex6_defs -> def_okb ex6_s sd = true) /\
  nth_error ex6_defs 0 = Some ex6_sd /\
  forallb (fun f => no_cow_cow (sf_ty f)) (def_sfields ex6_sd) = true /\ box_names_okb ex6_defs ex6_sd = true /\
  forallb (fun f => apps_okb ex6_defs (sf_ty f) && field_conv_okb f) (def_sfields ex6_sd) = true /\
  instantiation_cf ex6_defs ex6_sd [SPrimT PU16] = true /\ instantiation_cf ex6_defs ex6_sd [SPrimT PBool] = true /\
  compact_fields_okb ex6_defs ex6_sd [SPrimT PU16] = true /\ compact_fields_okb ex6_defs ex6_sd [SPrimT PBool] = true /\
  (exists ir, create_type_ir ex6_reg ex6_s (ex6_bar 1 2 3 10) flat0 = Ok (Some ir) /\
              erase_ids ir = ir_of_source ex6_defs ex6_s ex6_otp ex6_sd) /\
  (exists ir, create_type_ir ex6_reg ex6_s (ex6_bar 12 13 14 18) flat0 = Ok (Some ir) /\
              erase_ids ir = ir_of_source ex6_defs ex6_s ex6_otp ex6_sd) /\
  skeleton_consistentb ex6_reg ex6_s = true /\
  is_ok (generate ex6_reg ex6_s (types_equal ex6_reg)) = true.
Proof. exact (conj ex6_RegistryOf (conj ex6_settings_ok ex6_hypotheses)). Qed.
Print Assumptions C05_example_prelude.

(** ** the round trip on REAL registries: one-step identity (Model/Program1.v, Proofs/Ident1.v,
    SourceRoundTrip1.v, SourceSkeleton1.v, RegistryOf1Sound.v, Program1Examples.v)

    [RegistryOf] asks for injective labels in [canon] form (Box erased everywhere, VecDeque = Vec).
    scale-info interns by [TypeId::of::<T::Identity>()], ONE step of [Identity] at the top of the
    type ([tid_key]: [Box<T>] -> TypeId of [T], [Vec<T>] / [VecDeque<T>] -> [[T]], [String] -> [str],
    anything else -> itself), so a program that mentions [Vec<Box<T>>] and [Vec<T>], [Box<Vec<T>>]
    and [Vec<T>], [Box<Box<T>>] and [T], [Foo<Box<T>>] and [Foo<T>] gets two entries with equal
    content and one [canon] label: [RegistryOf] is false of that registry.
    [RegistryOf1 defs L r]: labels are closed source types in [ident1] normal form (the top
    constructor normalised as the interning key is - [C05_ident1_is_the_interning_key] -, nothing
    below it), INJECTIVE; every entry is the derive's entry for [peel1] of its label (all outer
    boxes removed: [Box<T>::type_info] delegates), the id of a child type [x] being the id labelled
    [ident1 x]; unlabelled entries are the bit-order markers.  Real registries, identity duplicates
    included, satisfy it: [registry_of1b] is sound ([C05_registry_of1b_sound]) and is evaluated on
    every generated case as [hyp_registry_of1] / gate [corr_registry_of1] (Corr/RunC05.v) with the labels of the harness
    interner (which the derive tier compares with scale-info's real derive).
    The coincidence-freeness of the quantifier is restated on ids, as properties.jsonl words it
    ([instantiation_cf1]: no argument is interned under the id of a non-parameter component,
    the arguments of non-skipped parameters are interned under pairwise distinct ids, no parameter
    directly under Box / Cow); it is IMPLIED by [instantiation_cf] ([C05_cf_implies_cf1]).  The
    hypothesis [map canon args = args] is gone: the arguments of a label are as written. *)
From V Require Import Model.Program1 Proofs.Ident1 Proofs.SourceRoundTrip1 Proofs.SourceSkeleton1
  Proofs.RegistryOf1Sound Proofs.Program1Examples.

(** [ident1] is a normal form for exactly the key the registry interns by *)
Theorem C05_ident1_is_the_interning_key :
  forall a b : src, ident1 a = ident1 b <-> tid_key a = tid_key b.
Proof. exact ident1_key. Qed.
Print Assumptions C05_ident1_is_the_interning_key.

(** ... it refines [canon] (two types with one id have one [canon] form), is idempotent, and
    keeps the content type *)
Theorem C05_ident1_facts :
  forall t : src, canon (ident1 t) = canon t /\ ident1 (ident1 t) = ident1 t /\ peel1 (ident1 t) = peel1 t.
Proof. exact ident1_facts. Qed.
Print Assumptions C05_ident1_facts.

Theorem C05_cf_implies_cf1 :
  forall defs d args, instantiation_cf defs d args = true -> instantiation_cf1 defs d args = true.
Proof. exact cf_cf1. Qed.
Print Assumptions C05_cf_implies_cf1.

(** [C05_skeleton_is_source] on real registries *)
Theorem C05_skeleton_is_source1 :
  forall (defs : list sdef) (L : N -> option src) (r : registry) (s : settings) (order_tp : bool -> tpath),
  RegistryOf1 defs L r ->
  (forall sd, In sd defs -> def_okb s sd = true) ->
  prelude_okb s = true ->
  order_resolves s order_tp ->
  forall (d : nat) (sd : sdef) (args : list src),
  nth_error defs d = Some sd ->
  instantiation_cf1 defs sd args = true ->
  forallb (fun f => no_cow_cow (sf_ty f)) (def_sfields sd) = true ->
  compact_fields_okb1 defs sd args = true ->
  box_names_okb defs sd = true ->
  forall t : ty, entry_of1 defs L r (SApp d args) t ->
  forall flat ir, create_type_ir r s t flat = Ok (Some ir) ->
  erase_ids ir = ir_of_source defs s order_tp sd.
Proof. exact skeleton_full1. Qed.
Print Assumptions C05_skeleton_is_source1.

(** the entry may be one scale-info registered for a boxed form of the instantiation
    ([Box<Box<Foo<T>>>]: its own id, the content of [Foo<T>]) *)
Theorem C05_skeleton_is_source1_boxed :
  forall (defs : list sdef) (L : N -> option src) (r : registry) (s : settings) (order_tp : bool -> tpath),
  RegistryOf1 defs L r ->
  (forall sd, In sd defs -> def_okb s sd = true) ->
  prelude_okb s = true ->
  order_resolves s order_tp ->
  forall (d : nat) (sd : sdef) (args : list src),
  nth_error defs d = Some sd ->
  instantiation_cf1 defs sd args = true ->
  forallb (fun f => no_cow_cow (sf_ty f)) (def_sfields sd) = true ->
  compact_fields_okb1 defs sd args = true ->
  box_names_okb defs sd = true ->
  forall (c : src) (t : ty), peel1 c = SApp d args -> entry_of1 defs L r c t ->
  forall flat ir, create_type_ir r s t flat = Ok (Some ir) ->
  erase_ids ir = ir_of_source defs s order_tp sd.
Proof. exact skeleton_full1_entry. Qed.
Print Assumptions C05_skeleton_is_source1_boxed.

Theorem C05_fields_read_as_source1 :
  forall defs L r s (order_tp : bool -> tpath),
  RegistryOf1 defs L r -> (forall sd, In sd defs -> def_okb s sd = true) ->
  prelude_okb s = true -> order_resolves s order_tp -> render_okb s defs = true ->
  forall d sd args, nth_error defs d = Some sd ->
  instantiation_cf1 defs sd args = true ->
  forallb (fun f => no_cow_cow (sf_ty f)) (def_sfields sd) = true ->
  compact_fields_okb1 defs sd args = true -> box_names_okb defs sd = true ->
  forallb (fun f => apps_okb defs (sf_ty f) && field_conv_okb f) (def_sfields sd) = true ->
  forall t, entry_of1 defs L r (SApp d args) t ->
  forall flat ir, create_type_ir r s t flat = Ok (Some ir) ->
  Forall2 (fun sf fi =>
             fi_pty (alloc_segs s) fi =
             field_pty defs (s_root s) (alloc_segs s) (segs_lead_of (opt_toks (s_compact s)))
                       (segs_lead_of (opt_toks (s_bits s)))
                       (fun lsb => tpath_pty (alloc_segs s) (order_tp lsb)) sf)
          (def_sfields sd) (kind_fields (ti_kind ir)).
Proof. exact fields_read_as_source1. Qed.
Print Assumptions C05_fields_read_as_source1.

(** two instantiations of one definition - [Foo<Box<u16>>] and [Foo<u16>] included, which are two
    entries of a real registry - have the same erased IR *)
Theorem C05_one_item1 :
  forall defs L r s (order_tp : bool -> tpath),
  RegistryOf1 defs L r -> (forall sd, In sd defs -> def_okb s sd = true) ->
  prelude_okb s = true -> order_resolves s order_tp ->
  forall d sd, nth_error defs d = Some sd ->
  forallb (fun f => no_cow_cow (sf_ty f)) (def_sfields sd) = true -> box_names_okb defs sd = true ->
  forall args1 args2 t1 t2 flat1 flat2 ir1 ir2,
  instantiation_cf1 defs sd args1 = true -> compact_fields_okb1 defs sd args1 = true ->
  instantiation_cf1 defs sd args2 = true -> compact_fields_okb1 defs sd args2 = true ->
  entry_of1 defs L r (SApp d args1) t1 -> entry_of1 defs L r (SApp d args2) t2 ->
  create_type_ir r s t1 flat1 = Ok (Some ir1) -> create_type_ir r s t2 flat2 = Ok (Some ir2) ->
  erase_ids ir1 = erase_ids ir2.
Proof. exact one_item_full1. Qed.
Print Assumptions C05_one_item1.

(** real program registries all of whose interned instantiations (whatever boxes their labels
    carry) are coincidence-free are [skeleton_consistent] *)
Theorem C05_program_skeleton_consistent1 :
  forall defs L r s (order_tp : bool -> tpath),
  RegistryOf1 defs L r -> prelude_okb s = true -> order_resolves s order_tp ->
  (forall sd, In sd defs ->
     def_okb s sd = true /\ forallb (fun f => no_cow_cow (sf_ty f)) (def_sfields sd) = true /\
     box_names_okb defs sd = true /\ forall lsb, sd_path sd <> order_path_of lsb) ->
  (forall d1 d2 sd1 sd2,
     nth_error defs d1 = Some sd1 -> nth_error defs d2 = Some sd2 -> sd_path sd1 = sd_path sd2 -> d1 = d2) ->
  (forall id c d args sd,
     L id = Some c -> peel1 c = SApp d args -> nth_error defs d = Some sd ->
     instantiation_cf1 defs sd args = true /\ compact_fields_okb1 defs sd args = true) ->
  (forall id X, In (id, X) r -> item_eligible s X = true ->
     exists ir, create_type_ir r s X flat0 = Ok (Some ir)) ->
  skeleton_consistent r s.
Proof. exact program_skeleton_consistent1. Qed.
Print Assumptions C05_program_skeleton_consistent1.

Theorem C05_program_faithful1 :
  forall defs L r s (order_tp : bool -> tpath) teq m,
  RegistryOf1 defs L r -> prelude_okb s = true -> order_resolves s order_tp ->
  (forall sd, In sd defs ->
     def_okb s sd = true /\ forallb (fun f => no_cow_cow (sf_ty f)) (def_sfields sd) = true /\
     box_names_okb defs sd = true /\ forall lsb, sd_path sd <> order_path_of lsb) ->
  (forall d1 d2 sd1 sd2,
     nth_error defs d1 = Some sd1 -> nth_error defs d2 = Some sd2 -> sd_path sd1 = sd_path sd2 -> d1 = d2) ->
  (forall id c d args sd,
     L id = Some c -> peel1 c = SApp d args -> nth_error defs d = Some sd ->
     instantiation_cf1 defs sd args = true /\ compact_fields_okb1 defs sd args = true) ->
  root_fresh s -> generate r s teq = Ok m -> Faithful r s m.
Proof. exact program_faithful1. Qed.
Print Assumptions C05_program_faithful1.

(** the decidable checker is sound *)
Theorem C05_registry_of1b_sound :
  forall defs labels r,
    registry_of1b defs labels r = true -> prelude_nodocs_b r = true -> RegistryOf1 defs (label_at labels) r.
Proof. exact registry_of1b_sound. Qed.
Print Assumptions C05_registry_of1b_sound.

(** non-vacuity on a registry with identity duplicates (shape: harness/src/corpus.rs
    [identity_programs]): [i::Ids<T> { a: Vec<Box<Vec<T>>>, b: Vec<Vec<T>>, d: VecDeque<Box<u8>>,
    e: Vec<u8>, r: T }] at [u16] - ids 2 / 4, 3 / 5 and 6 / 8 are pairs of entries with equal
    content.  With the interner's labels in [ident1] form [RegistryOf1] holds, with the same labels
    in [canon] form every entry is still right but the labelling is not injective and [RegistryOf]
    is false; every hypothesis of [C05_skeleton_is_source1] holds, the IR exists and its erased
    form is [ir_of_source] (recomputed), generation succeeds *)
Theorem C05_example_identity_duplicates :
  (RegistryOf1 id1_defs (label_at id1_labels) id1_reg /\ registry_of1b id1_defs id1_labels id1_reg = true) /\
  (registry_entries_ofb id1_defs id1_canon_labels id1_reg = true /\
   labels_injectiveb id1_canon_labels = false /\
   registry_ofb id1_defs id1_canon_labels id1_reg = false /\
   label_at id1_canon_labels 2 = label_at id1_canon_labels 4 /\
   label_at id1_canon_labels 3 = label_at id1_canon_labels 5 /\
   label_at id1_canon_labels 6 = label_at id1_canon_labels 8) /\
  ~ RegistryOf id1_defs (label_at id1_canon_labels) id1_reg /\
  (prelude_okb ex5_s = true /\ order_resolves ex5_s ex5_otp) /\
  (forall sd, In sd id1_defs -> def_okb ex5_s sd = true) /\
  nth_error id1_defs 0 = Some id1_sd /\
  forallb (fun f => no_cow_cow (sf_ty f)) (def_sfields id1_sd) = true /\ box_names_okb id1_defs id1_sd = true /\
  instantiation_cf1 id1_defs id1_sd [SPrimT PU16] = true /\
  compact_fields_okb1 id1_defs id1_sd [SPrimT PU16] = true /\
  label_at id1_labels 0 = Some (SApp 0 [SPrimT PU16]) /\ resolve id1_reg 0 = Some (id1_ids 1 2 4 6 8) /\
  (exists ir, create_type_ir id1_reg ex5_s (id1_ids 1 2 4 6 8) flat0 = Ok (Some ir) /\
              erase_ids ir = ir_of_source id1_defs ex5_s ex5_otp id1_sd) /\
  is_ok (generate id1_reg ex5_s (types_equal id1_reg)) = true.
Proof.
  exact (conj (conj id1_RegistryOf1 id1_registry_of1b)
              (conj id1_canon_labels_not_injective (conj id1_not_RegistryOf id1_hypotheses))).
Qed.
Print Assumptions C05_example_identity_duplicates.

(** [RegistryOf] does not imply [RegistryOf1] for the same labelling, and the [ident1] labelling is
    no function of the [canon] labelling: the registry of the first example ([y: Box<Vec<T>>]) has
    the [canon] label [Vec<u16>] on id 2 and the [ident1] label [Box<Vec<u16>>] (registered under
    the TypeId of [Vec<u16>], not of [[u16]]); written [y: Vec<T>] the registry and its [canon]
    labels are the same, the [ident1] label is [Vec<u16>].  The old examples otherwise satisfy the
    new discipline and the restated coincidence-freeness *)
Theorem C05_example_labellings :
  (RegistryOf ex5_defs ex5_L ex5_reg /\ ~ RegistryOf1 ex5_defs ex5_L ex5_reg /\
   RegistryOf1 ex5_defs (label_at ex5_labels1) ex5_reg) /\
  (label_at ex5_labels 2 = Some (canon (SBox (SVec (SPrimT PU16)))) /\
   label_at ex5_labels1 2 = Some (ident1 (SBox (SVec (SPrimT PU16)))) /\
   registry_of1b ex5_defs ex5_labels ex5_reg = false /\ registry_ofb ex5_defs ex5_labels1 ex5_reg = false) /\
  (registry_of1b ex6_defs ex6_labels ex6_reg = true /\ registry_of1b ex7_defs ex7_labels ex7_reg = true /\
   registry_of1b f19_defs f19_labels f19_reg = true /\ registry_of1b f19b_defs f19b_labels f19b_reg = true) /\
  instantiation_cf1 ex5_defs ex5_sd [SPrimT PU16; SPrimT PStr] = true /\
  instantiation_cf1 ex5_defs ex5_sd [SPrimT PBool; SPrimT PStr] = true /\
  compact_fields_okb1 ex5_defs ex5_sd [SPrimT PU16; SPrimT PStr] = true /\
  compact_fields_okb1 ex5_defs ex5_sd [SPrimT PBool; SPrimT PStr] = true /\
  instantiation_cf1 ex6_defs ex6_sd [SPrimT PU16] = true /\ instantiation_cf1 ex6_defs ex6_sd [SPrimT PBool] = true /\
  compact_fields_okb1 ex6_defs ex6_sd [SPrimT PU16] = true /\ compact_fields_okb1 ex6_defs ex6_sd [SPrimT PBool] = true /\
  instantiation_cf1 ex7_defs ex7_sd [SPrimT PU16] = true /\ instantiation_cf1 ex7_defs ex7_sd [SPrimT PBool] = true /\
  instantiation_cf1 f19_defs (nth 0 f19_defs pe_default) [SPrimT PU8; SVec (SPrimT PU8)] = true /\
  instantiation_cf1 f19_defs (nth 0 f19_defs pe_default) [SPrimT PU16; SVec (SPrimT PU16)] = true /\
  instantiation_cf1 f19_defs (nth 1 f19_defs pe_default) [SPrimT PU8] = true /\
  instantiation_cf1 f19b_defs (nth 0 f19b_defs pe_default) f19b_args1 = true /\
  instantiation_cf1 f19b_defs (nth 0 f19b_defs pe_default) f19b_args2 = true.
Proof.
  exact (conj (conj ex5_RegistryOf (conj ex5_canon_labels_not_RegistryOf1 ex5_RegistryOf1))
              (conj ex5_examples (conj examples_registry_of1b examples_cf1))).
Qed.
Print Assumptions C05_example_labellings.

(** the old discipline implies the new one FOR THE SAME LABELLING exactly on programs where [canon]
    has nothing to do beyond the one identity step: on the closed field types of every labelled
    instantiation [canon] and [ident1] agree ([fields_ident1_canon], decidable:
    [fields_ident1_canonb]; no Box / VecDeque below the top of a field type, no Box on top of
    Vec / VecDeque / String / Box).  Beyond that condition it does not
    ([C05_example_labellings]), and what [RegistryOf] describes there (one entry shared by
    [Vec<Box<T>>] and [Vec<T>]) is not a registry scale-info produces *)
From V Require Import Proofs.RegistryOf1Compare.

Theorem C05_RegistryOf_implies_RegistryOf1 :
  forall defs L r,
    RegistryOf defs L r ->
    (forall id d args sd sf,
       L id = Some (SApp d args) -> nth_error defs d = Some sd -> In sf (def_sfields sd) ->
       let c := subst_src args (sf_ty sf) in
       let c' := canon (subst_src args (sf_ty sf)) in
       (if sf_compact_attr sf then SCompactT c' else c') = ident1 (if sf_compact_attr sf then SCompactT c else c)) ->
    RegistryOf1 defs L r.
Proof. exact RegistryOf_RegistryOf1. Qed.
Print Assumptions C05_RegistryOf_implies_RegistryOf1.

Theorem C05_fields_ident1_canonb_sound :
  forall defs labels,
    fields_ident1_canonb defs labels = true -> fields_ident1_canon defs (label_at labels) /\
    (fields_ident1_canonb ex6_defs ex6_labels = true /\ fields_ident1_canonb ex7_defs ex7_labels = true /\
     fields_ident1_canonb f19_defs f19_labels = true /\ fields_ident1_canonb f19b_defs f19b_labels = true /\
     fields_ident1_canonb ex5_defs ex5_labels = false).
Proof. exact fields_ident1_canonb_sound_examples. Qed.
Print Assumptions C05_fields_ident1_canonb_sound.

(** ... concretely: [a::Foo<T> { x: Vec<Box<T>>, y: Vec<T> }] at [u16] with ONE sequence entry for
    both fields (what an interner that identifies types up to [canon] produces) satisfies
    [RegistryOf], and no labelling at all makes it a [RegistryOf1] registry *)
Theorem C05_example_canon_registry_is_not_real :
  RegistryOf leg_defs (label_at leg_labels) leg_reg /\ forall L, ~ RegistryOf1 leg_defs L leg_reg.
Proof. exact leg_example. Qed.
Print Assumptions C05_example_canon_registry_is_not_real.

(** ** "all instantiations of one definition yield one and the same item" on real registries:
    [types_equal] answers "equal" on two coincidence-free instantiations of one definition, so the
    generation loop does not fail with DuplicateTypePath and [ensure_unique] keeps them together.
    These are [C03_equal_complete_partial], [C04_instantiations_stay_partial],
    [C04_program_no_duplicate_path_partial], [C04_program_untouched_partial] (Properties/C03.v,
    C04.v, Proofs/TeqComplete.v) with [RegistryOf1] / [instantiation_cf1] for [RegistryOf] /
    [instantiation_cf] and without [map canon args = args] (Proofs/TeqComplete1.v: the
    abstract-term simulation with the one-step identity; below a plain field type the instances
    are compared as written, [inj_raw]).  The two entries may be registered for boxed forms of the
    instantiations ([peel1 l = SApp d args]); [Foo<Vec<Box<u16>>>] and [Foo<Vec<u16>>], which have one
    [canon] form and two entries, are covered ([C05_example_types_equal_duplicates]).
    PARTIAL for the same reason as the originals: the fragment [teq_program_okb] (no
    [#[codec(compact)]] field; field types without Box / VecDeque, parameters only directly or
    under Vec / array / tuple / Compact / Option / Result / Range / Cow); outside it the statement
    is false ([C04_instantiations_stay_cf_refuted]). *)
From V Require Import Model.Derives Model.Equal Model.WellFormed Proofs.KeepFirst Proofs.DedupProofs Proofs.TeqComplete1.

Theorem C05_instantiations_judged_equal1_partial :
  forall defs L r,
  RegistryOf1 defs L r ->
  forall d sd, nth_error defs d = Some sd -> teq_program_okb sd = true ->
  forall args1 args2,
  instantiation_cf1 defs sd args1 = true -> instantiation_cf1 defs sd args2 = true ->
  forall id1 id2 l1 l2, L id1 = Some l1 -> L id2 = Some l2 ->
  peel1 l1 = SApp d args1 -> peel1 l2 = SApp d args2 ->
  types_equal r id1 id2 = Ok true.
Proof. exact teq_instantiations_labels1. Qed.
Print Assumptions C05_instantiations_judged_equal1_partial.

Theorem C05_program_no_duplicate_path1_partial :
  forall defs L r s,
  RegistryOf1 defs L r -> ids_consistent r = true ->
  (forall sd, In sd defs -> teq_program_okb sd = true /\ forall lsb, sd_path sd <> order_path_of lsb) ->
  (forall d1 d2 sd1 sd2,
     nth_error defs d1 = Some sd1 -> nth_error defs d2 = Some sd2 -> sd_path sd1 = sd_path sd2 -> d1 = d2) ->
  (forall id c d args sd,
     L id = Some c -> peel1 c = SApp d args -> nth_error defs d = Some sd ->
     instantiation_cf1 defs sd args = true) ->
  Forall (fun c : cmp => types_equal r (fst (fst c)) (snd (fst c)) = Ok true) (comparisons r s).
Proof. exact program_comparisons_equal1. Qed.
Print Assumptions C05_program_no_duplicate_path1_partial.

Theorem C05_program_generates1_partial :
  forall defs L r s,
  RegistryOf1 defs L r -> ids_consistent r = true ->
  (forall sd, In sd defs -> teq_program_okb sd = true /\ forall lsb, sd_path sd <> order_path_of lsb) ->
  (forall d1 d2 sd1 sd2,
     nth_error defs d1 = Some sd1 -> nth_error defs d2 = Some sd2 -> sd_path sd1 = sd_path sd2 -> d1 = d2) ->
  (forall id c d args sd,
     L id = Some c -> peel1 c = SApp d args -> nth_error defs d = Some sd ->
     instantiation_cf1 defs sd args = true) ->
  forall flat, flatten (s_dreg s) r = Ok flat -> all_ok r s flat r ->
               exists m, generate r s (types_equal r) = Ok m.
Proof. exact program_generates1. Qed.
Print Assumptions C05_program_generates1_partial.

Theorem C05_program_untouched1_partial :
  forall defs L r,
  RegistryOf1 defs L r -> ids_consistent r = true ->
  (forall sd, In sd defs -> teq_program_okb sd = true /\ forall lsb, sd_path sd <> order_path_of lsb) ->
  (forall d1 d2 sd1 sd2,
     nth_error defs d1 = Some sd1 -> nth_error defs d2 = Some sd2 -> sd_path sd1 = sd_path sd2 -> d1 = d2) ->
  (forall id c d args sd,
     L id = Some c -> peel1 c = SApp d args -> nth_error defs d = Some sd ->
     instantiation_cf1 defs sd args = true) ->
  ensure_unique r = Ok r.
Proof. exact program_dedup_untouched1. Qed.
Print Assumptions C05_program_untouched1_partial.

(** non-vacuity: [a::Pt<T> { x: T, ys: Vec<T> }] at [Vec<Box<u16>>] and at [Vec<u16>]: one [canon]
    form, two entries (as are [Vec<Box<u16>>] / [Vec<u16>], [Vec<Vec<Box<u16>>>] / [Vec<Vec<u16>>]);
    [RegistryOf1] holds, the [canon] labels are not injective, both instantiations are
    coincidence-free, [types_equal] answers "equal", generation succeeds *)
Theorem C05_example_types_equal_duplicates :
  RegistryOf1 tq1_defs (label_at tq1_labels) tq1_reg /\
  labels_injectiveb (map (fun o => match o with Some c => Some (canon c) | None => None end) tq1_raw_labels) = false /\
  nth_error tq1_defs 0 = Some tq1_sd /\ teq_program_okb tq1_sd = true /\
  instantiation_cf1 tq1_defs tq1_sd tq1_args1 = true /\ instantiation_cf1 tq1_defs tq1_sd tq1_args2 = true /\
  label_at tq1_labels 0 = Some (SApp 0 tq1_args1) /\ label_at tq1_labels 4 = Some (SApp 0 tq1_args2) /\
  map canon tq1_args1 = map canon tq1_args2 /\
  types_equal_res tq1_reg 0 4 = Ok true /\
  is_ok (generate tq1_reg ex5_s (types_equal tq1_reg)) = true.
Proof. exact tq1_example. Qed.
Print Assumptions C05_example_types_equal_duplicates.


(** ** the emission step (Model/ProgramEmit.v, Proofs/SourceEmission.v) - closes the "MISSING" item
    of the header: the tokens printed for the IR of a coincidence-free instantiation, read back by
    Checkers/Parse.v and stripped of derives / docs / user attributes, are [expected_item] of the
    SOURCE definition.

    Chain: [C05_skeleton_is_source] (erased IR = [ir_of_source sd])
       ->  [C05_expected_item_of_ir] (parse tree [item_of_ir s ir], stripped = [expected_item sd])
       ->  [C02_syn_forms] / [C02_emit_parses] (the printed tokens parse to [item_of_ir s ir])
       =   [C05_source_roundtrip] (one item), [C05_source_roundtrip_module] (the whole module, i.e.
           the computation of the checker [prop_source_roundtrip], Corr/RunC05.v),
           [C05_checker_accepts_model] ([prop_source_roundtrip c = true] when the observed tokens
           are the model's).
    [strip_item] and [expected_of] are the checker's own definitions (Corr/RunC05.v).
    [expected_of_source defs s order_tp sd] (Model/ProgramEmit.v) is [expected_item] with the
    token-level parameters read off the settings ([C05_expected_of_source_def]); it is the checker's
    [expected_of] when the bit-order markers are substituted as the harness does
    ([C05_expected_of_source_settings], [C05_checker_expected_of]).
    Hypotheses beyond those of [C05_skeleton_is_source] / [C05_fields_read_as_source]:
    - [ir_plain s ir] (C02's scope: user supplied path tokens are plain paths, user derives are
      balanced, names are identifiers), needed to identify the reader's result with [tpath_pty];
    - [names_uniformb sd]: the fields of the struct / of each variant are all named or all unnamed
      (true of every Rust definition; [sbody] is wider).  In [C05_source_roundtrip*] it is DERIVED
      from the successful IR construction ([C05_names_uniform]);
    - [C05_source_roundtrip*]: definitions have pairwise distinct paths, the definition does not sit
      at the path of a bit-order marker, and EVERY interned instantiation of the definition is
      coincidence-free ([cf_def] of the checker): the item kept at the path is the IR of the first
      one, whichever that is. *)
From V Require Import Model.Emit Model.Unparse Model.ProgramEmit Corr.RunTG Corr.RunC05 Proofs.SourceEmission.

(** stripping forgets exactly what [erase_ids] forgets (ids / original names in parameters, docs,
    derives): the stripped parse tree is a function of the erased IR *)
Theorem C05_strip_forgets_erased :
  forall s ir, strip_item (item_of_ir s (erase_ids ir)) = strip_item (item_of_ir s ir).
Proof. exact strip_item_erase. Qed.
Print Assumptions C05_strip_forgets_erased.

(** on plain paths the reader's result [ir_pty] (C02_type_parses) is the reading [tpath_pty] of
    [C05_tpath_pty_is_src_pty] *)
Theorem C05_parse_reading_is_tpath_pty :
  forall defs s, render_okb s defs = true -> alloc_okb (alloc_tokens (s_alloc s)) = true ->
  forall t, tp_plain t = true ->
  ir_pty (alloc_tokens (s_alloc s)) t = tpath_pty (ProgramSkel.alloc_segs s) t.
Proof. exact ir_pty_tpath_pty. Qed.
Print Assumptions C05_parse_reading_is_tpath_pty.

Theorem C05_expected_of_source_def :
  forall defs s order_tp d,
    expected_of_source defs s order_tp d =
    expected_item defs (s_root s) (ProgramSkel.alloc_segs s)
                  (segs_lead_of (opt_toks (s_compact s))) (segs_lead_of (opt_toks (s_bits s)))
                  (fun lsb => tpath_pty (ProgramSkel.alloc_segs s) (order_tp lsb)) (s_codec s) d.
Proof. reflexivity. Qed.
Print Assumptions C05_expected_of_source_def.

(** the emitted item of the skeleton of a source definition: generics [_i] for exactly the
    non-skipped parameters in order, field names, field types = [field_pty] of the source fields,
    [#[codec(compact)]] / [#[codec(index = i)]] attributes, ONE trailing [__ignore] / [__Ignore]
    marker naming exactly the unused parameters ([C05_spec_generics], .. say what [expected_item] is) *)
Theorem C05_source_item_expected :
  forall defs s order_tp sd,
  render_okb s defs = true ->
  ir_plain s (ir_of_source defs s order_tp sd) = true ->
  names_uniformb sd = true ->
  forallb (fun f => apps_okb defs (sf_ty f) && field_conv_okb f) (def_sfields sd) = true ->
  strip_item (item_of_ir s (ir_of_source defs s order_tp sd)) =
  expected_item defs (s_root s) (ProgramSkel.alloc_segs s)
                (segs_lead_of (opt_toks (s_compact s))) (segs_lead_of (opt_toks (s_bits s)))
                (fun lsb => tpath_pty (ProgramSkel.alloc_segs s) (order_tp lsb)) (s_codec s) sd.
Proof. exact source_item_expected. Qed.
Print Assumptions C05_source_item_expected.

(** (1) from the erased IR to the stripped parse tree *)
Theorem C05_expected_item_of_ir :
  forall defs s order_tp sd ir,
  render_okb s defs = true ->
  names_uniformb sd = true ->
  forallb (fun f => apps_okb defs (sf_ty f) && field_conv_okb f) (def_sfields sd) = true ->
  ir_plain s ir = true ->
  erase_ids ir = ir_of_source defs s order_tp sd ->
  strip_item (item_of_ir s ir) =
  expected_item defs (s_root s) (ProgramSkel.alloc_segs s)
                (segs_lead_of (opt_toks (s_compact s))) (segs_lead_of (opt_toks (s_bits s)))
                (fun lsb => tpath_pty (ProgramSkel.alloc_segs s) (order_tp lsb)) (s_codec s) sd.
Proof. exact expected_item_of_ir. Qed.
Print Assumptions C05_expected_item_of_ir.

(** successful IR construction on the entry of an instantiation: fields uniformly named *)
Theorem C05_names_uniform :
  forall defs L r s d sd args t flat ir,
  nth_error defs d = Some sd -> entry_of defs L r (SApp d args) t ->
  create_type_ir r s t flat = Ok (Some ir) -> names_uniformb sd = true.
Proof. exact names_uniform_of_ir. Qed.
Print Assumptions C05_names_uniform.

(** (2) the round trip for one item: whenever generation succeeds and the definition is
    instantiated at all, an item is kept at the definition's path, and the tokens the model emits
    for it parse ([parse_one_item]) to an item whose [strip_item] is the expected item of the
    SOURCE definition *)
Theorem C05_source_roundtrip :
  forall defs L r s (order_tp : bool -> tpath),
  RegistryOf defs L r -> (forall sd, In sd defs -> def_okb s sd = true) ->
  prelude_okb s = true -> order_resolves s order_tp -> render_okb s defs = true ->
  (forall d1 d2 sd1 sd2,
     nth_error defs d1 = Some sd1 -> nth_error defs d2 = Some sd2 -> sd_path sd1 = sd_path sd2 -> d1 = d2) ->
  forall d sd, nth_error defs d = Some sd ->
  forallb (fun f => no_cow_cow (sf_ty f)) (def_sfields sd) = true ->
  box_names_okb defs sd = true ->
  forallb (fun f => apps_okb defs (sf_ty f) && field_conv_okb f) (def_sfields sd) = true ->
  (forall lsb, sd_path sd <> order_path_of lsb) ->
  (forall id args, L id = Some (SApp d args) ->
     instantiation_cf defs sd args = true /\ map canon args = args /\ compact_fields_okb defs sd args = true) ->
  forall teq m, generate r s teq = Ok m ->
  forall id args, L id = Some (SApp d args) ->
  exists id0 ir,
    items_get m (sd_path sd) = Some (id0, ir) /\
    (ir_plain s ir = true -> strip_item (item_of_ir s ir) = expected_of_source defs s order_tp sd) /\
    forall toks, type_ir_tokens s ir = Ok toks -> ir_plain s ir = true ->
      exists it, parse_one_item toks = Some it /\ strip_item it = expected_of_source defs s order_tp sd.
Proof. exact source_roundtrip_item. Qed.
Print Assumptions C05_source_roundtrip.

(** ... and for the whole module, in the checker's own terms: the emitted module parses
    ([parse_module]), [lookup_item] finds an item at the definition's path, and its [strip_item] is
    the expected item ([prop_source_roundtrip]: [pitem_eqb (strip_item it) (expected_of c d)]) *)
Theorem C05_source_roundtrip_module :
  forall defs L r s (order_tp : bool -> tpath),
  RegistryOf defs L r -> (forall sd, In sd defs -> def_okb s sd = true) ->
  prelude_okb s = true -> order_resolves s order_tp -> render_okb s defs = true ->
  (forall d1 d2 sd1 sd2,
     nth_error defs d1 = Some sd1 -> nth_error defs d2 = Some sd2 -> sd_path sd1 = sd_path sd2 -> d1 = d2) ->
  forall d sd, nth_error defs d = Some sd ->
  forallb (fun f => no_cow_cow (sf_ty f)) (def_sfields sd) = true ->
  box_names_okb defs sd = true ->
  forallb (fun f => apps_okb defs (sf_ty f) && field_conv_okb f) (def_sfields sd) = true ->
  (forall lsb, sd_path sd <> order_path_of lsb) ->
  (forall id args, L id = Some (SApp d args) ->
     instantiation_cf defs sd args = true /\ map canon args = args /\ compact_fields_okb defs sd args = true) ->
  forall teq m, generate r s teq = Ok m ->
  forall id args toks, L id = Some (SApp d args) ->
  emit_module s m = Ok toks -> items_plain s m = true ->
  exists pm it, parse_module toks = Some pm /\ lookup_item pm (sd_path sd) = Some it /\
                strip_item it = expected_of_source defs s order_tp sd.
Proof. exact source_roundtrip_module. Qed.
Print Assumptions C05_source_roundtrip_module.

(** "all instantiations of one definition yield one and the same item": [C05_one_item] carried
    through the emission - the parse trees of the items printed for two coincidence-free
    instantiations agree up to derives / docs / user attributes (no plainness hypothesis) *)
Theorem C05_one_stripped_item :
  forall defs L r s (order_tp : bool -> tpath),
  RegistryOf defs L r -> (forall sd, In sd defs -> def_okb s sd = true) ->
  prelude_okb s = true -> order_resolves s order_tp ->
  forall d sd, nth_error defs d = Some sd ->
  forallb (fun f => no_cow_cow (sf_ty f)) (def_sfields sd) = true -> box_names_okb defs sd = true ->
  forall args1 args2 t1 t2 flat1 flat2 ir1 ir2,
  instantiation_cf defs sd args1 = true -> map canon args1 = args1 -> compact_fields_okb defs sd args1 = true ->
  instantiation_cf defs sd args2 = true -> map canon args2 = args2 -> compact_fields_okb defs sd args2 = true ->
  entry_of defs L r (SApp d args1) t1 -> entry_of defs L r (SApp d args2) t2 ->
  create_type_ir r s t1 flat1 = Ok (Some ir1) -> create_type_ir r s t2 flat2 = Ok (Some ir2) ->
  strip_item (item_of_ir s ir1) = strip_item (item_of_ir s ir2).
Proof. exact one_stripped_item. Qed.
Print Assumptions C05_one_stripped_item.

(** the correspondence with the checker's [expected_of]: it is [expected_of_settings] at the
    program and the settings of the case (by conversion), and [expected_of_source] equals
    [expected_of_settings] when the bit-order markers read as [::bits::order::{Lsb0,Msb0}] (needed
    only for the bit orders of the bit sequences the definition mentions, [def_mentions_order]) *)
Theorem C05_checker_expected_of :
  forall c d, expected_of c d =
              expected_of_settings (pg_defs (c5_prog c)) (settings_of (tg_spec (c5_tg c))) d.
Proof. reflexivity. Qed.
Print Assumptions C05_checker_expected_of.

Theorem C05_expected_of_source_settings :
  forall defs s order_tp d,
  (forall lsb, def_mentions_order d lsb = true ->
               tpath_pty (ProgramSkel.alloc_segs s) (order_tp lsb) = bits_order_pty lsb) ->
  expected_of_source defs s order_tp d = expected_of_settings defs s d.
Proof. exact expected_of_source_settings. Qed.
Print Assumptions C05_expected_of_source_settings.

(** the reading hypothesis of the last theorem holds for a bit order whose marker the settings
    substitute by [::bits::order::{Lsb0,Msb0}] (the harness does so for the markers that occur in the
    registry, harness/src/tg.rs [bit_order_subs]) *)
Theorem C05_bits_order_reading :
  forall (order_tp : bool -> tpath) lsb,
  order_tp lsb = TPath (abs_path ["bits"; "order"; if lsb then "Lsb0" else "Msb0"]) [] ->
  forall asegs, tpath_pty asegs (order_tp lsb) = bits_order_pty lsb.
Proof. exact bits_order_reading. Qed.
Print Assumptions C05_bits_order_reading.

(** the checker on the model's own output: when the observed tokens ARE the model's tokens
    ([corr_gen]), [prop_source_roundtrip] accepts.  Per definition with [cf_def c k sd] (all of its
    recorded instantiations coincidence-free): the per-definition hypotheses of
    [C05_source_roundtrip], the definition is interned at all, and every interned instantiation
    (labels are in [canon] form) is the [canon] form of a recorded one ([insts_of c k]; coincidence-
    freeness does not depend on the form: [C05_instantiation_cf_canon]) *)
Theorem C05_instantiation_cf_canon :
  forall defs d args, instantiation_cf defs d (map canon args) = instantiation_cf defs d args.
Proof. exact instantiation_cf_canon. Qed.
Print Assumptions C05_instantiation_cf_canon.

Theorem C05_checker_accepts_model :
  forall (c : c05_case) (order_tp : bool -> tpath) teq m toks,
  let defs := pg_defs (c5_prog c) in
  let r := tg_reg (c5_tg c) in
  let s := settings_of (tg_spec (c5_tg c)) in
  let L := label_at (c5_labels c) in
  RegistryOf defs L r ->
  (forall sd, In sd defs -> def_okb s sd = true) ->
  prelude_okb s = true -> order_resolves s order_tp -> render_okb s defs = true ->
  (forall d1 d2 sd1 sd2,
     nth_error defs d1 = Some sd1 -> nth_error defs d2 = Some sd2 -> sd_path sd1 = sd_path sd2 -> d1 = d2) ->
  (forall k sd, nth_error defs k = Some sd -> cf_def c k sd = true ->
     forallb (fun f => no_cow_cow (sf_ty f)) (def_sfields sd) = true /\ box_names_okb defs sd = true /\
     forallb (fun f => apps_okb defs (sf_ty f) && field_conv_okb f) (def_sfields sd) = true /\
     (forall lsb, sd_path sd <> order_path_of lsb) /\
     (forall lsb, def_mentions_order sd lsb = true ->
                  tpath_pty (ProgramSkel.alloc_segs s) (order_tp lsb) = bits_order_pty lsb) /\
     (exists id args, L id = Some (SApp k args)) /\
     (forall id args, L id = Some (SApp k args) ->
        (exists args', In args' (insts_of c k) /\ args = map canon args') /\
        compact_fields_okb defs sd args = true)) ->
  generate r s teq = Ok m -> emit_module s m = Ok toks -> items_plain s m = true ->
  tg_gen (c5_tg c) = OOk toks ->
  prop_source_roundtrip c = true.
Proof. exact prop_source_roundtrip_of_model. Qed.
Print Assumptions C05_checker_accepts_model.

(** ... and all of these hypotheses as ONE boolean on a case, [hyp_emission_theorem]
    (Corr/RunC05Emit.v: [registry_ofb], [prelude_nodocs_b], [def_okb], [prelude_okb],
    [order_resolvesb], [render_okb], pairwise distinct paths, per coincidence-free definition
    [def_emission_okb], the model generates and emits plain items; vacuous when the model does not
    emit a module).  On every case on which it holds, the verdict of the checker is a CONSEQUENCE of
    the model correspondence [corr_gen] *)
From V Require Import Corr.RunC05Emit.
Theorem C05_checker_verdict_from_correspondence :
  forall c : c05_case,
    hyp_emission_theorem c = true -> corr_gen (c5_tg c) = true -> prop_source_roundtrip c = true.
Proof. exact hyp_emission_sound. Qed.
Print Assumptions C05_checker_verdict_from_correspondence.

(** (3) examples, both sides computed: left, the model generates, emits the module, the tokens are
    read back, the item is looked up ([model_item_at]) and stripped; right, [expected_item] of the
    source definition.
    ex8 [a::Ph<T, U, V> { x: Vec<T>, #[codec(compact)] n: u32 }]: two unused parameters, marker
    field [#[codec(skip)] pub __ignore: PhantomData<(_1, _2)>] *)
Theorem C05_example_emission_marker :
  option_map strip_item (model_item_at ex8_reg ex8_s ["a"; "Ph"]) =
    Some (expected_of_source ex8_defs ex8_s ex8_otp ex8_sd) /\
  expected_of_source ex8_defs ex8_s ex8_otp ex8_sd =
  mk_pitem [] false "Ph" ["_0"; "_1"; "_2"]
    (BNamed [mk_pfield [] true (Some "x") (PPath true [("std", []); ("vec", []); ("Vec", [PPath false [("_0", [])]])]);
             mk_pfield [["codec"; "("; "compact"; ")"]] true (Some "n")
                       (PPath true [("core", []); ("primitive", []); ("u32", [])]);
             mk_pfield [["codec"; "("; "skip"; ")"]] true (Some "__ignore")
                       (PPath true [("core", []); ("marker", []);
                                    ("PhantomData", [PTuple [PPath false [("_1", [])]; PPath false [("_2", [])]]])])])
    [] false.
Proof. exact (conj ex8_roundtrip ex8_expected). Qed.
Print Assumptions C05_example_emission_marker.

(** ex9 [a::En<T, U> { A(T, Box<Vec<T>>) = 0, B { n: Compact<u32> } = 1, C = 5 }]: an enum, U unused *)
Theorem C05_example_emission_enum :
  option_map strip_item (model_item_at ex9_reg ex8_s ["a"; "En"]) =
    Some (expected_of_source ex9_defs ex8_s ex8_otp ex9_sd) /\
  expected_of_source ex9_defs ex8_s ex8_otp ex9_sd =
  mk_pitem [] true "En" ["_0"; "_1"] BUnit
    [mk_pvariant [["codec"; "("; "index"; "="; "0"; ")"]] "A"
       (BTuple [mk_pfield [] false None (PPath false [("_0", [])]);
                mk_pfield [] false None
                  (PPath true [("std", []); ("boxed", []);
                               ("Box", [PPath true [("std", []); ("vec", []); ("Vec", [PPath false [("_0", [])]])]])])]);
     mk_pvariant [["codec"; "("; "index"; "="; "1"; ")"]] "B"
       (BNamed [mk_pfield [["codec"; "("; "compact"; ")"]] false (Some "n")
                          (PPath true [("core", []); ("primitive", []); ("u32", [])])]);
     mk_pvariant [["codec"; "("; "index"; "="; "5"; ")"]] "C" BUnit;
     mk_pvariant [] "__Ignore"
       (BTuple [mk_pfield [] false None
                  (PPath true [("core", []); ("marker", []); ("PhantomData", [PPath false [("_1", [])]])])])]
    false.
Proof. exact (conj ex9_roundtrip ex9_expected). Qed.
Print Assumptions C05_example_emission_enum.

(** the programs of Model/ProgramExamples.v and of [C05_example] *)
Theorem C05_example_emission_programs :
  option_map strip_item (model_item_at ex6_reg ex6_s ["a"; "Bar"]) =
    Some (expected_of_source ex6_defs ex6_s ex6_otp ex6_sd) /\
  option_map strip_item (model_item_at ex7_reg f19_s ["a"; "Pt"]) =
    Some (expected_of_source ex7_defs f19_s (order_tp_of f19_s) ex7_sd) /\
  option_map strip_item (model_item_at ex5_reg ex5_s ["a"; "Foo"]) =
    Some (expected_of_source ex5_defs ex5_s ex5_otp ex5_sd).
Proof. exact (conj ex6_roundtrip (conj ex7_roundtrip ex5_roundtrip)). Qed.
Print Assumptions C05_example_emission_programs.

(** non-vacuity of [C05_source_roundtrip_module]: on ex8 the registry is the program's
    ([registry_ofb]), generation and emission succeed on plain items, and the conclusion is obtained
    FROM THE THEOREM (every hypothesis is discharged in Proofs/SourceEmission.v [ex8_by_theorem]) *)
Theorem C05_example_emission_by_theorem :
  registry_ofb ex8_defs ex8_labels ex8_reg = true /\ registry_ofb ex9_defs ex9_labels ex9_reg = true /\
  (exists m toks, generate ex8_reg ex8_s (types_equal ex8_reg) = Ok m /\ emit_module ex8_s m = Ok toks /\
                  items_plain ex8_s m = true) /\
  (forall m toks,
     generate ex8_reg ex8_s (types_equal ex8_reg) = Ok m -> emit_module ex8_s m = Ok toks ->
     items_plain ex8_s m = true ->
     exists pm it, parse_module toks = Some pm /\ lookup_item pm ["a"; "Ph"] = Some it /\
                   strip_item it = expected_of_source ex8_defs ex8_s ex8_otp ex8_sd).
Proof.
  exact (conj (proj1 ex8_facts) (conj (proj1 (proj2 ex8_facts)) (conj (proj2 (proj2 ex8_facts)) ex8_by_theorem))).
Qed.
Print Assumptions C05_example_emission_by_theorem.
