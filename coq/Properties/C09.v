(** C09 - settings switches are honoured and orthogonal (statements only). *)
From Coq Require Import List NArith String Bool.
From V Require Import Base.Strings Base.Result Model.Registry Model.Settings Model.Subst
  Model.TypePath Model.Derives Model.Generate Model.Emit Model.Equal Model.Switches Model.Inputs
  Proofs.GenProofs Proofs.SortDedup Proofs.TpMap Proofs.SubstMap Proofs.EmitMap Proofs.FramesIR
  Proofs.FramesGen Proofs.Frames Proofs.FrameRel Model.Erasure Proofs.ErasureProofs.
Import ListNotations.
Open Scope string_scope. Open Scope list_scope.

Theorem C09_docs_switch :
  forall s docs, docs_from_scale_info s docs = if s_docs s then docs else [].
Proof. exact docs_switch. Qed.
Print Assumptions C09_docs_switch.

(** * 1. IR-level orthogonality of the two boolean switches (all outcomes, errors included) *)
Theorem C09_docs_orthogonal_ir :
  forall r s teq,
    generate r (set_docs false s) teq = rmap (map_items strip_docs_ir) (generate r s teq).
Proof. exact C09_docs_orthogonal_ir. Qed.
Print Assumptions C09_docs_orthogonal_ir.

Theorem C09_codec_orthogonal_ir :
  forall r s b teq,
    generate r (set_codec b s) teq = rmap (map_items (set_codec_ir b)) (generate r s teq).
Proof. exact C09_codec_orthogonal_ir. Qed.
Print Assumptions C09_codec_orthogonal_ir.

(** docs on: an item and its variants carry exactly the registry's doc lines, in order
    (and the variants their registry index and name) *)
Theorem C09_docs_exact :
  forall r s t flat ir,
    s_docs s = true -> create_type_ir r s t flat = Ok (Some ir) ->
    (forall fs, t_def t = TDComposite fs ->
       exists c, ti_kind ir = KStruct c /\ ci_docs c = t_docs t) /\
    (forall vs, t_def t = TDVariant vs ->
       exists name cs, ti_kind ir = KEnum name (t_docs t) cs /\
                       map (fun x => ci_docs (snd x)) cs = map v_docs vs /\
                       map fst cs = map v_index vs /\
                       map (fun x => ci_name (snd x)) cs = map v_name vs).
Proof. exact create_type_ir_docs_exact. Qed.
Print Assumptions C09_docs_exact.

(** every generated item was produced under the settings' switches *)
Theorem C09_generate_item_ok :
  forall r s teq m, generate r s teq = Ok m ->
    Forall (fun e => item_ok (s_docs s) (s_codec s) (snd (snd e))) m.
Proof. exact generate_item_ok. Qed.
Print Assumptions C09_generate_item_ok.

(** * 2. The emitter treats tokens opaquely: it commutes with every token renaming [phi] that
    fixes the generator's own literals ([phi_ok]); module names are path segments. *)
Theorem C09_emit_module_map :
  forall phi d c s1 s2 (m : items),
    phi_ok phi d c ->
    Forall (fun e => item_ok d c (snd (snd e))) m ->
    (forall e seg, In e m -> In seg (fst e) -> phi seg = seg) ->
    alloc_tokens (s_alloc s2) = map phi (alloc_tokens (s_alloc s1)) ->
    s_root s2 = phi (s_root s1) ->
    emit_module s2 (map_items (map_ir phi) m) = rmap (map phi) (emit_module s1 m).
Proof. exact emit_module_map. Qed.
Print Assumptions C09_emit_module_map.

(** the ONE lemma at emitter level: every token of the module is a generator literal or one of
    the inputs stored in the IR (names, path token lists, derive / attribute tokens), the root,
    the alloc path *)
Theorem C09_emit_tokens_from :
  forall d c s (m : items) toks w,
    emit_module s m = Ok toks ->
    Forall (fun e => item_ok d c (snd (snd e))) m ->
    ~ gen_lit d c w ->
    ~ In w (s_root s :: alloc_tokens (s_alloc s) ++ items_inputs m) ->
    ~ In w toks.
Proof. exact emit_tokens_from. Qed.
Print Assumptions C09_emit_tokens_from.

Theorem C09_docs_off_no_doc_attr :
  forall s ir toks,
    type_ir_tokens s (strip_docs_ir ir) = Ok toks ->
    ~ In "doc" (alloc_tokens (s_alloc s) ++ ir_inputs ir) -> ~ In "doc" toks.
Proof. exact docs_off_no_doc_attr. Qed.
Print Assumptions C09_docs_off_no_doc_attr.

Theorem C09_codec_off_no_codec_attr :
  forall s ir toks,
    ti_codec ir = false -> type_ir_tokens s ir = Ok toks ->
    ~ In "codec" (alloc_tokens (s_alloc s) ++ ir_inputs ir) -> ~ In "codec" toks.
Proof. exact codec_off_no_codec_attr. Qed.
Print Assumptions C09_codec_off_no_codec_attr.

(** * 3. Path resolution and the whole generation commute with such a renaming as well *)
Theorem C09_resolve_rec_map :
  forall phi r s1 s2, resolve_frame phi r s1 s2 ->
    forall fuel id is_field parents orig,
      resolve_rec r s2 fuel id is_field parents orig =
      rmap (map_tpath phi) (resolve_rec r s1 fuel id is_field parents orig).
Proof. exact resolve_rec_map. Qed.
Print Assumptions C09_resolve_rec_map.

Theorem C09_generate_map :
  forall phi r s1 s2 teq, gen_frame phi r s1 s2 ->
    generate r s2 teq = rmap (map_items (map_ir phi)) (generate r s1 teq).
Proof. exact generate_map. Qed.
Print Assumptions C09_generate_map.

(** the general frame theorem: generation followed by emission *)
Theorem C09_gen_emit_map :
  forall phi r s1 s2 teq,
    gen_frame phi r s1 s2 -> phi_ok phi (s_docs s1) (s_codec s1) ->
    gen_emit r s2 teq = rmap (map phi) (gen_emit r s1 teq).
Proof. exact gen_emit_map. Qed.
Print Assumptions C09_gen_emit_map.

(** the ONE lemma, end to end: every token of the generated module is a generator literal
    (for the settings' switches) or one of the caller's inputs
    [gen_inputs r s = root :: alloc path ++ user tokens ++ registry identifiers] *)
Theorem C09_tokens_from :
  forall r s teq toks w,
    gen_emit r s teq = Ok toks ->
    ~ gen_lit (s_docs s) (s_codec s) w -> ~ In w (gen_inputs r s) -> ~ In w toks.
Proof. exact gen_tokens_from. Qed.
Print Assumptions C09_tokens_from.

(** its three corollaries: custom alloc path => no [std]; docs off => no [doc]; codec off => no
    [codec] (unless the caller's own tokens / identifiers contain the word) *)
Theorem C09_no_std :
  forall r s a teq toks,
    s_alloc s = ACustom a -> gen_emit r s teq = Ok toks ->
    ~ In "std" (s_root s :: a ++ user_tokens s ++ registry_idents r) -> ~ In "std" toks.
Proof. exact no_std. Qed.
Print Assumptions C09_no_std.

(** ... and in the tokens of every resolved path *)
Theorem C09_no_std_resolved_path :
  forall r s id toks t w,
    resolve_type_path r s id = Ok t ->
    tp_tokens (alloc_tokens (s_alloc s)) t = Ok toks ->
    ~ gen_lit false false w ->
    ~ In w (alloc_tokens (s_alloc s)) ->
    w <> s_root s ->
    (forall e, In e r -> ~ In w (t_path (snd e))) ->
    (forall k v, In (k, v) (s_subs s) -> ~ In w (print_spath (su_path v))) ->
    ~ In w (match s_compact s with Some c => c | None => [] end) ->
    ~ In w (match s_bits s with Some c => c | None => [] end) ->
    ~ In w toks.
Proof. exact resolve_tokens_from. Qed.
Print Assumptions C09_no_std_resolved_path.

Theorem C09_std_not_literal : forall d c, ~ gen_lit d c "std".
Proof. exact std_not_gen_lit. Qed.
Print Assumptions C09_std_not_literal.

Theorem C09_docs_off_no_doc :
  forall r s teq toks,
    s_docs s = false -> gen_emit r s teq = Ok toks ->
    ~ In "doc" (gen_inputs r s) -> ~ In "doc" toks.
Proof. exact docs_off_no_doc. Qed.
Print Assumptions C09_docs_off_no_doc.

Theorem C09_codec_off_no_codec :
  forall r s teq toks,
    s_codec s = false -> gen_emit r s teq = Ok toks ->
    ~ In "codec" (gen_inputs r s) -> ~ In "codec" toks.
Proof. exact codec_off_no_codec. Qed.
Print Assumptions C09_codec_off_no_codec.

(** * 4. Codec on: every variant starts with its index attribute; every compact field of a
    variant is preceded by the compact marker *)
Theorem C09_codec_on_variants :
  forall s ir name docs vs toks,
    ti_codec ir = true -> ti_kind ir = KEnum name docs vs -> type_ir_tokens s ir = Ok toks ->
    exists (bodies : list tokens) ignore,
      Forall2 (fun (v : N * composite_ir) body =>
                 exists fields,
                   enum_field_tokens s (ci_kind (snd v)) true = Ok fields /\
                   body = codec_index (fst v) ++ doc_tokens (ci_docs (snd v)) ++
                          [ci_name (snd v)] ++ fields ++ [","]) vs bodies /\
      toks = derives_tokens (ti_derives ir) ++ doc_tokens docs ++ ["pub"; "enum"; name] ++
             type_params_tokens (ti_params ir) ++ ["{"] ++ List.concat bodies ++ ignore ++ ["}"].
Proof. exact codec_on_variants. Qed.
Print Assumptions C09_codec_on_variants.

Theorem C09_codec_on_named_fields :
  forall s fs codec fields,
    enum_field_tokens s (CNamed fs) codec = Ok fields ->
    exists parts,
      Forall2 (fun (x : string * field_ir) part =>
                 exists t, field_tokens s (snd x) = Ok t /\
                           part = compact_attr_of codec (snd x) ++ [fst x; ":"] ++ t ++ [","])
              fs parts /\
      fields = ["{"] ++ List.concat parts ++ ["}"].
Proof. exact enum_field_tokens_named_decomp. Qed.
Print Assumptions C09_codec_on_named_fields.

Theorem C09_codec_on_struct_named_fields :
  forall s fs phantom codec fields,
    struct_field_tokens s (CNamed fs) phantom codec = Ok fields ->
    exists parts marker,
      Forall2 (fun (x : string * field_ir) part =>
                 exists t, field_tokens s (snd x) = Ok t /\
                           part = compact_attr_of codec (snd x) ++ ["pub"; fst x; ":"] ++ t ++ [","])
              fs parts /\
      fields = ["{"] ++ List.concat parts ++ marker ++ ["}"].
Proof. exact struct_field_tokens_named_decomp. Qed.
Print Assumptions C09_codec_on_struct_named_fields.

Theorem C09_compact_marker :
  forall f, fi_compact f = true -> compact_attr_of true f = compact_attr.
Proof. exact compact_attr_of_true. Qed.
Print Assumptions C09_compact_marker.

(** * 5. Renaming the root module changes nothing except the root token: the two outputs
    (any outcome) are related by the one-token renaming.  [root2] is arbitrary; the old root
    must not be a generator literal nor occur among the caller's other inputs.

    The alloc-prefix, compact-path and bits-path frames replace a token LIST by another list;
    they are proved in section 6 below with the alignment relation [frame_rel].  The docs /
    codec frames are proved at IR level (section 1) together with [C09_emit_module_map]; their
    token-level form "erasing the [#[doc = ..]] / [#[codec(..)]] groups of the switched-on output
    gives the switched-off output" is section 7 below. *)
Theorem C09_root_rename :
  forall r s root2 teq,
    ~ gen_lit (s_docs s) (s_codec s) (s_root s) ->
    ~ In (s_root s) (alloc_tokens (s_alloc s) ++ user_tokens s ++ registry_idents r) ->
    gen_emit r (set_root root2 s) teq =
    rmap (map (rename_tok (s_root s) root2)) (gen_emit r s teq).
Proof. exact root_rename. Qed.
Print Assumptions C09_root_rename.

(** * 6. The list-replacing switches: alloc path, compact path, bits path.
    [frame_rel a1 a2] (Model/Switches.v) is the alignment generated by: a list aligns with
    itself; the list [a1] aligns with the list [a2]; alignments concatenate.  [res_rel R]: both
    outcomes [Ok] with [R]-related token lists, or the SAME error / panic.
    The frames hold for EVERY registry, settings and [teq] - no freshness hypothesis is needed,
    because no decision of the generator inspects path tokens (freshness of the alloc tokens
    would only make the alignment unique).  Specified substitutes are covered: there the tokens of
    the resolved arguments (which contain the alloc / compact / bits paths) are spliced into the
    printed substitute path, and the statement for the resolver is "the path tokens are
    frame-related" ([tpath_rel]). *)

(** the general theorem: any relation on token lists that is reflexive and closed under
    concatenation is preserved by generation + emission, from settings that agree except for
    related alloc / compact / bits paths *)
Theorem C09_list_frame_general :
  forall (R : tokens -> tokens -> Prop),
    (forall l, R l l) ->
    (forall x1 x2 y1 y2, R x1 x2 -> R y1 y2 -> R (x1 ++ y1) (x2 ++ y2)) ->
    forall r s1 s2, settings_rel R s1 s2 ->
    forall teq, res_rel R (gen_emit r s1 teq) (gen_emit r s2 teq).
Proof. exact gen_emit_rel. Qed.
Print Assumptions C09_list_frame_general.

Theorem C09_alloc_frame :
  forall r s a1 a2 teq,
    res_rel (frame_rel (alloc_tokens a1) (alloc_tokens a2))
            (gen_emit r (set_alloc a1 s) teq) (gen_emit r (set_alloc a2 s) teq).
Proof. exact alloc_frame. Qed.
Print Assumptions C09_alloc_frame.

Theorem C09_compact_path_frame :
  forall r s c1 c2 teq,
    res_rel (frame_rel c1 c2)
            (gen_emit r (set_compact (Some c1) s) teq) (gen_emit r (set_compact (Some c2) s) teq).
Proof. exact compact_frame. Qed.
Print Assumptions C09_compact_path_frame.

Theorem C09_bits_path_frame :
  forall r s b1 b2 teq,
    res_rel (frame_rel b1 b2)
            (gen_emit r (set_bits (Some b1) s) teq) (gen_emit r (set_bits (Some b2) s) teq).
Proof. exact bits_frame. Qed.
Print Assumptions C09_bits_path_frame.

(** the three switches changed together *)
Theorem C09_list_switches_frame :
  forall r s a1 a2 c1 c2 b1 b2 teq,
    res_rel (frame_rel3 (alloc_tokens a1) (alloc_tokens a2) c1 c2 b1 b2)
            (gen_emit r (set_alloc a1 (set_compact (Some c1) (set_bits (Some b1) s))) teq)
            (gen_emit r (set_alloc a2 (set_compact (Some c2) (set_bits (Some b2) s))) teq).
Proof. exact list_switches_frame. Qed.
Print Assumptions C09_list_switches_frame.

(** the pieces, for the alloc switch: printing a path, path resolution (the resolved paths are
    equal up to frame-related token lists, Specified substitutes included), generation *)
Theorem C09_alloc_frame_tp_tokens :
  forall a1 a2 t1 t2,
    tpath_rel (frame_rel a1 a2) t1 t2 -> res_rel (frame_rel a1 a2) (tp_tokens a1 t1) (tp_tokens a2 t2).
Proof. exact alloc_frame_tp_tokens. Qed.
Print Assumptions C09_alloc_frame_tp_tokens.

Theorem C09_alloc_frame_resolve :
  forall r s a1 a2 fuel id is_field parents orig,
    res_rel (tpath_rel (frame_rel (alloc_tokens a1) (alloc_tokens a2)))
            (resolve_rec r (set_alloc a1 s) fuel id is_field parents orig)
            (resolve_rec r (set_alloc a2 s) fuel id is_field parents orig).
Proof. exact alloc_frame_resolve. Qed.
Print Assumptions C09_alloc_frame_resolve.

Theorem C09_alloc_frame_generate :
  forall r s a1 a2 teq,
    res_rel (items_rel (frame_rel (alloc_tokens a1) (alloc_tokens a2)))
            (generate r (set_alloc a1 s) teq) (generate r (set_alloc a2 s) teq).
Proof. exact alloc_frame_generate. Qed.
Print Assumptions C09_alloc_frame_generate.

(** for related settings: item tokens and the module emitter *)
Theorem C09_frame_type_ir_tokens :
  forall (R : tokens -> tokens -> Prop),
    (forall l, R l l) ->
    (forall x1 x2 y1 y2, R x1 x2 -> R y1 y2 -> R (x1 ++ y1) (x2 ++ y2)) ->
    forall s1 s2, R (alloc_tokens (s_alloc s1)) (alloc_tokens (s_alloc s2)) ->
    forall a b, ir_rel R a b -> res_rel R (type_ir_tokens s1 a) (type_ir_tokens s2 b).
Proof. exact type_ir_tokens_rel. Qed.
Print Assumptions C09_frame_type_ir_tokens.

Theorem C09_frame_emit_module :
  forall (R : tokens -> tokens -> Prop),
    (forall l, R l l) ->
    (forall x1 x2 y1 y2, R x1 x2 -> R y1 y2 -> R (x1 ++ y1) (x2 ++ y2)) ->
    forall s1 s2, R (alloc_tokens (s_alloc s1)) (alloc_tokens (s_alloc s2)) -> s_root s1 = s_root s2 ->
    forall m1 m2, items_rel R m1 m2 -> res_rel R (emit_module s1 m1) (emit_module s2 m2).
Proof. exact emit_module_rel. Qed.
Print Assumptions C09_frame_emit_module.

(** what an alignment means: a sequence of blocks, each a pair of equal lists or the pair
    [(a1, a2)]; in particular every token of one output occurs in the other output or in the
    switched path, and switching a path to itself changes nothing *)
Theorem C09_frame_rel_blocks :
  forall a1 a2 l1 l2, frame_rel a1 a2 l1 l2 ->
    exists bs : list (tokens * tokens),
      l1 = List.concat (map fst bs) /\ l2 = List.concat (map snd bs) /\
      Forall (fun b => fst b = snd b \/ b = (a1, a2)) bs.
Proof. exact frame_rel_blocks. Qed.
Print Assumptions C09_frame_rel_blocks.

Theorem C09_frame_rel_tokens :
  forall a1 a2 l1 l2, frame_rel a1 a2 l1 l2 ->
    (forall w, In w l2 -> In w l1 \/ In w a2) /\ (forall w, In w l1 -> In w l2 \/ In w a1).
Proof. exact frame_rel_tokens. Qed.
Print Assumptions C09_frame_rel_tokens.

Theorem C09_frame_rel_id : forall a l1 l2, frame_rel a a l1 l2 -> l1 = l2.
Proof. exact frame_rel_id. Qed.
Print Assumptions C09_frame_rel_id.

(** * 7. Token-level frames of the two BOOLEAN switches (Model/Erasure.v, Proofs/ErasureProofs.v).

    [erase_doc_attrs] / [erase_codec_attrs] are explicit functions on token lists: scan left to
    right, at the head of a governed group ( # [ doc = "lit" ]   resp.   # [ codec ( compact ) ] ,
    # [ codec ( skip ) ] ,  # [ codec ( index = k ) ] ) drop the whole group and resume behind it.
    [ins_rel G on off]: [on] is [off] with groups of [G] inserted.  [has_open kw l]: the
    contiguous tokens  # [ kw  occur in [l].

    The codec switch is a PURE erasure as well: a compact field is printed as the bare inner type
    under both settings ([is_field] does not depend on [s_codec]; ir/type_ir.rs:227-287,
    type_path.rs:329-343); codec off only omits the attribute.  (So with codec off the generated
    type silently loses the compact wire format - a remark, not a statement of this file.) *)

(** the alignment holds unconditionally, for every outcome (same error / panic on both sides) *)
Theorem C09_docs_alignment :
  forall r s teq,
    res_rel (ins_rel doc_group) (gen_emit r (set_docs true s) teq) (gen_emit r (set_docs false s) teq).
Proof. exact docs_align. Qed.
Print Assumptions C09_docs_alignment.

Theorem C09_codec_alignment :
  forall r s teq,
    res_rel (ins_rel codec_group) (gen_emit r (set_codec true s) teq) (gen_emit r (set_codec false s) teq).
Proof. exact codec_align. Qed.
Print Assumptions C09_codec_alignment.

(** ... per item and for the module emitter *)
Theorem C09_docs_alignment_item :
  forall s ir,
    res_rel (ins_rel doc_group) (type_ir_tokens s ir) (type_ir_tokens s (strip_docs_ir ir)).
Proof. exact docs_align_item. Qed.
Print Assumptions C09_docs_alignment_item.

Theorem C09_codec_alignment_item :
  forall s ir,
    res_rel (ins_rel codec_group)
            (type_ir_tokens s (set_codec_ir true ir)) (type_ir_tokens s (set_codec_ir false ir)).
Proof. exact codec_align_item. Qed.
Print Assumptions C09_codec_alignment_item.

Theorem C09_docs_alignment_emit :
  forall s (m : items),
    res_rel (ins_rel doc_group) (emit_module s m) (emit_module s (map_items strip_docs_ir m)).
Proof. exact docs_align_emit. Qed.
Print Assumptions C09_docs_alignment_emit.

Theorem C09_codec_alignment_emit :
  forall s (m : items),
    res_rel (ins_rel codec_group) (emit_module s (map_items (set_codec_ir true) m))
            (emit_module s (map_items (set_codec_ir false) m)).
Proof. exact codec_align_emit. Qed.
Print Assumptions C09_codec_alignment_emit.

(** what an alignment means: a sequence of blocks, each a kept token or an inserted group *)
Theorem C09_docs_alignment_blocks :
  forall on off, ins_rel doc_group on off ->
    exists bs, (forall g, In (BGrp g) bs -> doc_group g) /\ on = on_of bs /\ off = off_of bs.
Proof. exact ins_rel_blocks_doc. Qed.
Print Assumptions C09_docs_alignment_blocks.

Theorem C09_codec_alignment_blocks :
  forall on off, ins_rel codec_group on off ->
    exists bs, (forall g, In (BGrp g) bs -> codec_group g) /\ on = on_of bs /\ off = off_of bs.
Proof. exact ins_rel_blocks_codec. Qed.
Print Assumptions C09_codec_alignment_blocks.

(** the list-level lemma: an aligned pair whose off-side does not contain  # [ kw  is related by
    the eraser *)
Theorem C09_erase_doc_aligned :
  forall on off, ins_rel doc_group on off -> has_open "doc" off = false -> erase_doc_attrs on = off.
Proof. exact erase_doc_ins_rel. Qed.
Print Assumptions C09_erase_doc_aligned.

Theorem C09_erase_codec_aligned :
  forall on off, ins_rel codec_group on off -> has_open "codec" off = false -> erase_codec_attrs on = off.
Proof. exact erase_codec_ins_rel. Qed.
Print Assumptions C09_erase_codec_aligned.

(** the docs frame, end to end.  [s_on] has docs on, [s_off = set_docs false s_on] differs from it
    in [s_docs] only.  Hypothesis (decidable; needed, see [ex_docs_hypothesis_needed] in
    Proofs/ExamplesErasure.v): the word [doc] does not occur among the caller's inputs
    [gen_inputs r s] (root, alloc path, user tokens of the settings - derives, attributes,
    substitute / compact / bits paths -, identifiers of the registry).
    - generation has the same outcome kind (same error / panic, or both Ok with the doc lists
      stripped);
    - the module emitter, on the two item maps, has the same outcome kind and the docs-off tokens
      are the docs-on tokens with every doc group erased;
    - the same for generation followed by emission;
    - the docs-off output contains no  # [ doc . *)
Theorem C09_docs_erasure :
  forall r s_on teq,
    s_docs s_on = true -> word_free_inputs "doc" r s_on = true ->
    generate r (set_docs false s_on) teq = rmap (map_items strip_docs_ir) (generate r s_on teq) /\
    (forall m_on, generate r s_on teq = Ok m_on ->
       emit_module (set_docs false s_on) (map_items strip_docs_ir m_on) =
       rmap erase_doc_attrs (emit_module s_on m_on)) /\
    gen_emit r (set_docs false s_on) teq = rmap erase_doc_attrs (gen_emit r s_on teq) /\
    (forall toks_off, gen_emit r (set_docs false s_on) teq = Ok toks_off ->
       has_open "doc" toks_off = false).
Proof. exact docs_erasure_pinned. Qed.
Print Assumptions C09_docs_erasure.

(** the codec frame, end to end: with codec off the output is the codec-on output with every
    [#[codec(index = k)]], [#[codec(compact)]] and [#[codec(skip)]] group erased; every other
    token - in particular the type of a compact field - is identical *)
Theorem C09_codec_erasure :
  forall r s_on teq,
    s_codec s_on = true -> word_free_inputs "codec" r s_on = true ->
    generate r (set_codec false s_on) teq =
      rmap (map_items (set_codec_ir false)) (generate r s_on teq) /\
    (forall m_on, generate r s_on teq = Ok m_on ->
       emit_module (set_codec false s_on) (map_items (set_codec_ir false) m_on) =
       rmap erase_codec_attrs (emit_module s_on m_on)) /\
    gen_emit r (set_codec false s_on) teq = rmap erase_codec_attrs (gen_emit r s_on teq) /\
    (forall toks_off, gen_emit r (set_codec false s_on) teq = Ok toks_off ->
       has_open "codec" toks_off = false).
Proof. exact codec_erasure_pinned. Qed.
Print Assumptions C09_codec_erasure.

(** a-posteriori forms: no hypothesis on the inputs, only that the switched-off OUTPUT does not
    contain  # [ kw  (decidable on the output; allows e.g. a field called [doc]) *)
Theorem C09_docs_erasure_output :
  forall r s teq toks_on toks_off,
    gen_emit r (set_docs true s) teq = Ok toks_on ->
    gen_emit r (set_docs false s) teq = Ok toks_off ->
    has_open "doc" toks_off = false ->
    erase_doc_attrs toks_on = toks_off.
Proof. exact docs_erasure_output. Qed.
Print Assumptions C09_docs_erasure_output.

Theorem C09_codec_erasure_output :
  forall r s teq toks_on toks_off,
    gen_emit r (set_codec true s) teq = Ok toks_on ->
    gen_emit r (set_codec false s) teq = Ok toks_off ->
    has_open "codec" toks_off = false ->
    erase_codec_attrs toks_on = toks_off.
Proof. exact codec_erasure_output. Qed.
Print Assumptions C09_codec_erasure_output.

(** per item *)
Theorem C09_docs_erasure_item :
  forall s ir toks_off,
    type_ir_tokens s (strip_docs_ir ir) = Ok toks_off -> has_open "doc" toks_off = false ->
    exists toks_on, type_ir_tokens s ir = Ok toks_on /\ erase_doc_attrs toks_on = toks_off.
Proof. exact docs_erasure_item. Qed.
Print Assumptions C09_docs_erasure_item.

Theorem C09_codec_erasure_item :
  forall s ir toks_off,
    type_ir_tokens s (set_codec_ir false ir) = Ok toks_off -> has_open "codec" toks_off = false ->
    exists toks_on, type_ir_tokens s (set_codec_ir true ir) = Ok toks_on /\
                    erase_codec_attrs toks_on = toks_off.
Proof. exact codec_erasure_item. Qed.
Print Assumptions C09_codec_erasure_item.
