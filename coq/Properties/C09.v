(** C09 - settings switches are honoured and orthogonal (statements only). *)
From Coq Require Import List NArith String Bool.
From V Require Import Base.Strings Base.Result Model.Registry Model.Settings Model.Subst
  Model.TypePath Model.Derives Model.Generate Model.Emit Model.Equal Proofs.GenProofs Proofs.SortDedup.
Import ListNotations.

Theorem C09_docs_switch :
  forall s docs, docs_from_scale_info s docs = if s_docs s then docs else [].
Proof. exact docs_switch. Qed.
Print Assumptions C09_docs_switch.
