(** C11 — settings validation is sound and complete; the similar-path query.
    Only statements, each closed by [exact]; proofs in Proofs/BuildersProofs.v.
    Model: [validate], [similar_type_paths] (Model/Builders.v); specifications:
    [settings_known], [spec_unknown_*], [spec_similar] (Model/BuildersSpec.v).
    All statements hold for EVERY registry [r], derive registry [dr] and substitute map
    [subs] (lists of any length, any mixture of known and unknown paths). *)
From Coq Require Import List NArith String Bool Permutation.
From V Require Import Base.Strings Model.Registry Model.Settings Model.Subst Model.Builders
  Model.BuildersSpec Model.Reach Model.ValidateSpec Proofs.BuildersProofs Proofs.ValidateSets.
Import ListNotations.

(** Validation succeeds iff every type-specific or recursive key with a non-empty derive
    or attribute set, and every substitute source, is the path of some registry entry. *)
Theorem C11_iff :
  forall (r : registry) (subs : substitutes) (dr : derives_registry),
    verror_is_empty (validate subs dr r) = true <-> settings_known subs dr r.
Proof. exact validate_iff. Qed.
Print Assumptions C11_iff.

(** Otherwise the error lists exactly the unknown paths: no key twice; a key [K] is listed
    among the derives iff some unknown type-specific or recursive entry written [K] has a
    non-empty derive set, and then with ALL derives registered for [K] (type-specific
    entries first, then recursive ones: [spec_unknown_entries] is their concatenation);
    likewise the attributes; the substitutes are exactly the unknown sources, each with
    its target, in map order. *)
Theorem C11_error_exact :
  forall (r : registry) (subs : substitutes) (dr : derives_registry),
    let e := validate subs dr r in
    let l := dr_specific dr ++ dr_recursive dr in
    NoDup (map fst (ve_derives e)) /\ NoDup (map fst (ve_attrs e)) /\
    (forall K ds, In (K, ds) (ve_derives e) <->
                  spec_unknown_listed d_derives r l K = true /\ ds = spec_unknown_entries d_derives r l K) /\
    (forall K ats, In (K, ats) (ve_attrs e) <->
                   spec_unknown_listed d_attrs r l K = true /\ ats = spec_unknown_entries d_attrs r l K) /\
    ve_subs e = spec_unknown_subs r subs.
Proof. exact validate_exact_membership. Qed.
Print Assumptions C11_error_exact.

(** The similar-path query returns exactly the registry paths (in registry order, with
    multiplicity) whose last identifier equals the query's; nothing for the empty path. *)
Theorem C11_similar :
  forall (r : registry) (q : list string), similar_type_paths r q = spec_similar r q.
Proof. exact similar_spec. Qed.
Print Assumptions C11_similar.

(** validation as a function of sets.  [kmap_perm a b] (Model/Reach.v): two key maps with
    pairwise distinct keys, the same keys and set-equal derive / attribute lists under equal
    keys (a hash map iterated in another order, its sets filled in another order or with
    repetitions); [segs_functional l] (Model/ValidateSpec.v): the token string of a key
    determines its ident segments (both are read off the same [syn] path).  For two such
    derive registries and substitute lists that are permutations of each other (any registry,
    known and unknown paths mixed), the two errors are equal as sets: no key twice, the same
    keys among the derives and among the attributes, set-equal lists under each key, and the
    unknown substitutes are a permutation.  The default derives play no role. *)
Theorem C11_validation_as_sets :
  forall (r : registry) (subs1 subs2 : substitutes) (dr1 dr2 : derives_registry),
    kmap_perm (dr_specific dr1) (dr_specific dr2) ->
    kmap_perm (dr_recursive dr1) (dr_recursive dr2) ->
    segs_functional ((dr_specific dr1 ++ dr_recursive dr1) ++ (dr_specific dr2 ++ dr_recursive dr2)) ->
    Permutation subs1 subs2 ->
    let e1 := validate subs1 dr1 r in
    let e2 := validate subs2 dr2 r in
    (NoDup (map fst (ve_derives e1)) /\ NoDup (map fst (ve_derives e2)) /\
     (forall K, In K (map fst (ve_derives e1)) <-> In K (map fst (ve_derives e2))) /\
     (forall K x y, In (K, x) (ve_derives e1) -> In (K, y) (ve_derives e2) -> same_set x y)) /\
    (NoDup (map fst (ve_attrs e1)) /\ NoDup (map fst (ve_attrs e2)) /\
     (forall K, In K (map fst (ve_attrs e1)) <-> In K (map fst (ve_attrs e2))) /\
     (forall K x y, In (K, x) (ve_attrs e1) -> In (K, y) (ve_attrs e2) -> same_set x y)) /\
    Permutation (ve_subs e1) (ve_subs e2).
Proof. exact validate_as_sets. Qed.
Print Assumptions C11_validation_as_sets.

(** ... in particular validation succeeds on both or fails on both *)
Theorem C11_validation_outcome_as_sets :
  forall (r : registry) (subs1 subs2 : substitutes) (dr1 dr2 : derives_registry),
    kmap_perm (dr_specific dr1) (dr_specific dr2) ->
    kmap_perm (dr_recursive dr1) (dr_recursive dr2) ->
    segs_functional ((dr_specific dr1 ++ dr_recursive dr1) ++ (dr_specific dr2 ++ dr_recursive dr2)) ->
    Permutation subs1 subs2 ->
    verror_is_empty (validate subs1 dr1 r) = verror_is_empty (validate subs2 dr2 r).
Proof.
  exact (fun r subs1 subs2 dr1 dr2 PS PR SF P =>
           verror_same_empty _ _ (validate_as_sets r subs1 subs2 dr1 dr2 PS PR SF P)).
Qed.
Print Assumptions C11_validation_outcome_as_sets.
