(** C17 - output depends only on the type graph (statements only). *)
From Coq Require Import List NArith String Bool Permutation.
From V Require Import Base.Strings Base.Result Model.Registry Model.Settings Model.Subst
  Model.TypePath Model.Derives Model.Generate Model.Emit Model.Equal Model.Shape Model.Renumber
  Model.Families Model.Inputs Model.ExamplesTG Model.ExamplesFam
  Proofs.GenProofs Proofs.SortDedup Proofs.ItemsCanonical Proofs.RenumberPerm Proofs.Equivariance
  Proofs.PermFamilies Proofs.Restriction Proofs.ExamplesC17
  Model.WellFormed Proofs.RestrictionOutcome Proofs.ExamplesRestriction.
Import ListNotations.

(** keep-first: the item at an occupied path is never replaced, whatever follows in the registry *)
Theorem C17_keep_first :
  forall r s teq flat l acc m p v,
    gen_loop r s teq flat l acc = Ok m -> items_get acc p = Some v -> items_get m p = Some v.
Proof. exact gen_loop_keeps. Qed.
Print Assumptions C17_keep_first.

(** [renumber pi r]: the entry of old position [i] sits, with all its id references renamed,
    at position [pi i] *)
Theorem C17_resolve_renumber :
  forall pi r, renumbering (N.of_nat (List.length r)) pi ->
    forall id, resolve (renumber pi r) (pi id) = option_map (rename_ty pi) (resolve r id).
Proof. exact resolve_renumber. Qed.
Print Assumptions C17_resolve_renumber.

Theorem C17_renumber_permutation :
  forall pi r, renumbering (N.of_nat (List.length r)) pi ->
    Permutation (renumber pi r) (map (rename_entry pi) r).
Proof. exact renumber_perm. Qed.
Print Assumptions C17_renumber_permutation.

Theorem C17_renumber_ids_consistent :
  forall pi r, renumbering (N.of_nat (List.length r)) pi ->
    ids_consistent r = true -> ids_consistent (renumber pi r) = true.
Proof. exact renumber_ids_consistent. Qed.
Print Assumptions C17_renumber_ids_consistent.

(** path resolution commutes with the renumbering, for every fuel, id, parent list and outcome
    (the only error that carries an id is renamed as well) *)
Theorem C17_resolve_equivariant :
  forall pi r s, renumbering (N.of_nat (List.length r)) pi ->
    forall fuel id is_field parents orig,
      resolve_rec (renumber pi r) s fuel (pi id) is_field (map (rename_tpi pi) parents) orig =
      rmap_e pi (map_ids pi) (resolve_rec r s fuel id is_field parents orig).
Proof. exact resolve_rec_renumber. Qed.
Print Assumptions C17_resolve_equivariant.

(** ids are never printed *)
Theorem C17_tokens_ignore_ids :
  forall pi alloc t, tp_tokens alloc (map_ids pi t) = tp_tokens alloc t.
Proof. exact tp_tokens_map_ids. Qed.
Print Assumptions C17_tokens_ignore_ids.

(** the IR of the renumbered entry is the IR with the ids inside parameters renamed *)
Theorem C17_create_type_ir_equivariant :
  forall pi r s, renumbering (N.of_nat (List.length r)) pi ->
    forall t flat,
      create_type_ir (renumber pi r) s (rename_ty pi t) flat =
      rmap_e pi (option_map (rename_ir pi)) (create_type_ir r s t flat).
Proof. exact create_type_ir_renumber. Qed.
Print Assumptions C17_create_type_ir_equivariant.

(** ... and its tokens are the same *)
Theorem C17_item_tokens_equal :
  forall pi s ir, type_ir_tokens s (rename_ir pi ir) = type_ir_tokens s ir.
Proof. exact type_ir_tokens_rename. Qed.
Print Assumptions C17_item_tokens_equal.

(** the ordered map does not depend on the insertion order, and a sorted map is determined by
    its lookup function *)
Theorem C17_items_insert_canonical :
  forall l1 l2, NoDup (map fst l1) -> Permutation l1 l2 -> insert_all l1 [] = insert_all l2 [].
Proof. exact items_insert_canonical. Qed.
Print Assumptions C17_items_insert_canonical.

Theorem C17_sorted_items_unique :
  forall m1 m2 : items, items_sorted m1 -> items_sorted m2 ->
    (forall p, items_get m1 p = items_get m2 p) -> m1 = m2.
Proof. exact sorted_items_unique. Qed.
Print Assumptions C17_sorted_items_unique.

Theorem C17_gen_loop_sorted :
  forall r s teq flat l acc m,
    items_sorted acc -> gen_loop r s teq flat l acc = Ok m -> items_sorted m.
Proof. exact gen_loop_sorted. Qed.
Print Assumptions C17_gen_loop_sorted.

(** the emitted module is a function of the list of (path, item tokens) *)
Theorem C17_emit_module_ext :
  forall s (m1 m2 : items),
    Forall2 (fun e1 e2 => fst e1 = fst e2 /\
                          type_ir_tokens s (snd (snd e1)) = type_ir_tokens s (snd (snd e2))) m1 m2 ->
    emit_module s m1 = emit_module s m2.
Proof. exact emit_module_ext. Qed.
Print Assumptions C17_emit_module_ext.

(** Permuting the entries with consistent renumbering leaves the module token-identical:
    PARTIAL version, for registries in which every item path has exactly one item-eligible
    entry ([unique_item_paths]) and settings without recursive derives; [teq], [teq'] are
    arbitrary (in particular [types_equal r] and [types_equal (renumber pi r)]).

    The full statement (several item-eligible entries per path, recursive derives) is
    [C17_permutation_tokens] at the end of this file; it needs the consistency hypotheses this
    version does without. *)
Theorem C17_permutation_tokens_partial :
  forall pi r s, renumbering (N.of_nat (List.length r)) pi ->
    forall teq teq' m1 m2,
      dr_recursive (s_dreg s) = [] ->
      unique_item_paths r s ->
      generate r s teq = Ok m1 ->
      generate (renumber pi r) s teq' = Ok m2 ->
      emit_module s m1 = emit_module s m2.
Proof. exact permutation_tokens_partial. Qed.
Print Assumptions C17_permutation_tokens_partial.

(** ** same-path families and recursive derives (Proofs/PermFamilies.v) *)

(** the item tokens are a function of the id-erased IR ([erase_ids], Model/Shape.v), the docs
    recorded in the IR and the derive TOKENS: neither [tpi_id] nor [tpi_orig] is ever printed *)
Theorem C17_tokens_from_skeleton :
  forall s a b,
    erase_ids a = erase_ids b -> ir_docs a = ir_docs b ->
    derives_tokens (ti_derives a) = derives_tokens (ti_derives b) ->
    type_ir_tokens s a = type_ir_tokens s b.
Proof. exact type_ir_tokens_skel. Qed.
Print Assumptions C17_tokens_from_skeleton.

(** the reachability traversal of the recursive derives commutes with the renumbering EXACTLY
    (same visiting order, visited list renamed), for every fuel, start id and visited list *)
Theorem C17_collect_ids_equivariant :
  forall pi r, renumbering (N.of_nat (List.length r)) pi ->
    forall fuel id vis,
      collect_ids fuel (renumber pi r) (pi id) (map pi vis) = rmap (map pi) (collect_ids fuel r id vis).
Proof.
  intros pi r Hpi. apply collect_ids_equivariant; [exact (proj1 Hpi)|apply resolve_renumber; exact Hpi].
Qed.
Print Assumptions C17_collect_ids_equivariant.

Theorem C17_collect_type_ids_equivariant :
  forall pi r, renumbering (N.of_nat (List.length r)) pi ->
    forall id, collect_type_ids (renumber pi r) (pi id) = rmap (map pi) (collect_type_ids r id).
Proof. exact collect_type_ids_renumber. Qed.
Print Assumptions C17_collect_type_ids_equivariant.

(** what a path receives from [flatten_recursive_derives], as a SET: the default derives, the
    specific derives of its key, and the derives of every recursive rule whose root entry
    reaches an entry with that key ([rec_in]); stated for the derive paths, the same holds for
    the attributes *)
Theorem C17_flatten_sets :
  forall dr r flat, ids_consistent r = true -> flatten dr r = Ok flat ->
    forall k x,
      In x (d_derives (resolve_derives flat k)) <->
      In x (d_derives (dr_default dr)) \/
      In x (d_derives (sget (flat_of_specific (dr_specific dr)) k)) \/
      rec_in d_derives r (dr_recursive dr) k x.
Proof. intros dr r flat. apply (flatten_sem d_derives); reflexivity. Qed.
Print Assumptions C17_flatten_sets.

(** ... and that set is invariant under renumbering *)
Theorem C17_recursive_derives_invariant :
  forall pi r, renumbering (N.of_nat (List.length r)) pi ->
    forall proj rec k x, rec_in proj (renumber pi r) rec k x <-> rec_in proj r rec k x.
Proof. exact rec_in_renumber. Qed.
Print Assumptions C17_recursive_derives_invariant.

(** C17_permutation_tokens, FULL: permuting the entries of a registry with consistent
    renumbering of all ids leaves the generated module token-identical.  [teq], [teq'] are
    arbitrary (in particular [types_equal r] and [types_equal (renumber pi r)]); any number of
    item-eligible entries per path; recursive derives allowed.  Hypotheses (Model/Shape.v,
    Model/Families.v), all decidable and evaluated per case:
    - [skeleton_consistent r s]: every item-eligible entry has the same id- and doc-erased IR
      as the first entry with its path (the class of C01_fidelity);
    - [docs_consistent r s]: with docs on, the members of a family carry the same doc strings
      (type and per variant).  NOT implied by skeleton consistency ([erase_ids] forgets docs) and
      NOT droppable: [C17_docs_hypothesis_needed] below.  Same Rust definition = same docs, so
      registries derived from programs satisfy it;
    - [derives_functional s]: over all derive paths (attributes) in the settings, equal sort keys
      carry equal tokens - the hash-set identity of a derive is its token string, so this holds
      for every settings value built by the real builders;
    - both generations are [Ok].  NOT proved: "[Ok] iff [Ok]" (needs [types_equal] to be an
      equivalence on every family, false on the pinned tree: F1/F3/F14).
    The restriction half is [C17_restriction_tokens] below. *)
Theorem C17_permutation_tokens :
  forall pi r s, renumbering (N.of_nat (List.length r)) pi ->
    forall teq teq' m1 m2,
      skeleton_consistent r s -> docs_consistent r s -> derives_functional s ->
      generate r s teq = Ok m1 ->
      generate (renumber pi r) s teq' = Ok m2 ->
      emit_module s m1 = emit_module s m2.
Proof. exact permutation_tokens. Qed.
Print Assumptions C17_permutation_tokens.

(** the same with the hypotheses as the boolean checkers *)
Theorem C17_permutation_tokens_checked :
  forall pi r s teq teq' m1 m2,
    renumbering (N.of_nat (List.length r)) pi ->
    skeleton_consistentb r s = true -> docs_consistentb r s = true -> derives_functionalb s = true ->
    generate r s teq = Ok m1 -> generate (renumber pi r) s teq' = Ok m2 ->
    emit_module s m1 = emit_module s m2.
Proof. exact permutation_tokens_b. Qed.
Print Assumptions C17_permutation_tokens_checked.

(** the hypotheses are satisfiable by a registry with a two-member family, a renumbering that
    swaps the members, and settings with recursive + specific derives *)
Theorem C17_permutation_hypotheses_satisfiable :
  exists pi r s,
    renumbering (N.of_nat (List.length r)) pi /\
    skeleton_consistentb r s = true /\ docs_consistentb r s = true /\ derives_functionalb s = true /\
    dr_recursive (s_dreg s) <> [] /\ ~ unique_item_paths r s /\
    is_ok (generate r s (types_equal r)) = true /\
    is_ok (generate (renumber pi r) s (types_equal (renumber pi r))) = true.
Proof. exact family_hypotheses_satisfiable. Qed.
Print Assumptions C17_permutation_hypotheses_satisfiable.

(** without [docs_consistent] the statement is false (skeleton-consistent family whose members
    differ in docs only; both runs [Ok]; different tokens) *)
Theorem C17_docs_hypothesis_needed :
  exists pi r s,
    renumbering (N.of_nat (List.length r)) pi /\ skeleton_consistent r s /\ derives_functional s /\
    exists m1 m2, generate r s (types_equal r) = Ok m1 /\
                  generate (renumber pi r) s (types_equal (renumber pi r)) = Ok m2 /\
                  emit_module s m1 <> emit_module s m2.
Proof. exact docs_hypothesis_needed. Qed.
Print Assumptions C17_docs_hypothesis_needed.

(** ** restriction (Proofs/Restriction.v).  [restrict pi k r = firstn k (renumber pi r)]
    (Model/Renumber.v): the retained entries are moved to the front by the renumbering [pi]
    (the id map of retained entries) and the registry is cut after [k] entries - the shape of
    every sub-registry produced by scale-info's [retain]. *)

(** a successful path resolution / IR construction / traversal in a prefix of the registry is
    the same successful one in the whole registry (more entries and more fuel never hurt) *)
Theorem C17_resolve_prefix :
  forall r1 r2 s (f1 f : nat) id isf parents orig t,
    (f1 <= f)%nat -> resolve_rec r1 s f1 id isf parents orig = Ok t ->
    resolve_rec (r1 ++ r2) s f id isf parents orig = Ok t.
Proof. exact resolve_rec_prefix. Qed.
Print Assumptions C17_resolve_prefix.

Theorem C17_create_type_ir_prefix :
  forall r1 r2 s t flat o,
    create_type_ir r1 s t flat = Ok o -> create_type_ir (r1 ++ r2) s t flat = Ok o.
Proof. exact create_type_ir_prefix. Qed.
Print Assumptions C17_create_type_ir_prefix.

Theorem C17_collect_prefix :
  forall r1 r2 id v, collect_type_ids r1 id = Ok v -> collect_type_ids (r1 ++ r2) id = Ok v.
Proof. exact collect_type_ids_prefix. Qed.
Print Assumptions C17_collect_prefix.

(** cutting a registry after a prefix keeps the item tokens of every path the prefix still
    generates.  No consistency hypothesis: the kept item is the IR of the same entry in both
    runs.  [no_outside_roots]: no cut-off entry has a path with a recursive derive rule (such
    settings are invalid for the sub-registry, C11) *)
Theorem C17_prefix_tokens :
  forall r1 r2 s teq1 teq m1 m,
    derives_functional s -> no_outside_roots (dr_recursive (s_dreg s)) r2 ->
    generate r1 s teq1 = Ok m1 -> generate (r1 ++ r2) s teq = Ok m ->
    forall p id ir1, items_get m1 p = Some (id, ir1) ->
      exists ir, items_get m p = Some (id, ir) /\ type_ir_tokens s ir1 = type_ir_tokens s ir.
Proof. exact prefix_tokens. Qed.
Print Assumptions C17_prefix_tokens.

(** generation stays successful under renumbering when the comparison oracle is replaced by
    the one that judges everything equal (used as the intermediate run below) *)
Theorem C17_generate_ok_renumber :
  forall pi r s, renumbering (N.of_nat (List.length r)) pi ->
    forall teq m, generate r s teq = Ok m ->
      exists m2, generate (renumber pi r) s teq_true = Ok m2.
Proof. exact generate_ok_renumber. Qed.
Print Assumptions C17_generate_ok_renumber.

(** C17_restriction (items): every item generated from the restricted registry has the tokens
    of the item generated at the same path from the full registry.  Same hypotheses on [r] as
    [C17_permutation_tokens], plus [no_outside_roots] for the dropped entries; both runs [Ok]
    with arbitrary comparison oracles.  Not proved: the [describe] / [has_type] clauses of
    DESIGN's C17_restriction, and that scale-info's [retain] has the form [restrict pi k]
    (validated per use by the harness: closed, ids = positions, mu consistent). *)
Theorem C17_restriction_tokens :
  forall pi k r s teq teq' m m',
    renumbering (N.of_nat (List.length r)) pi ->
    skeleton_consistent r s -> docs_consistent r s -> derives_functional s ->
    no_outside_roots (dr_recursive (s_dreg s)) (dropped pi k r) ->
    generate r s teq = Ok m ->
    generate (restrict pi k r) s teq' = Ok m' ->
    forall p id' ir', items_get m' p = Some (id', ir') ->
      exists id ir, items_get m p = Some (id, ir) /\ type_ir_tokens s ir' = type_ir_tokens s ir.
Proof. exact restriction_tokens. Qed.
Print Assumptions C17_restriction_tokens.

Theorem C17_restriction_hypotheses_satisfiable :
  exists pi k r s,
    renumbering (N.of_nat (List.length r)) pi /\
    skeleton_consistentb r s = true /\ docs_consistentb r s = true /\ derives_functionalb s = true /\
    no_outside_rootsb (dr_recursive (s_dreg s)) (dropped pi k r) = true /\
    dr_recursive (s_dreg s) <> [] /\ (List.length (restrict pi k r) < List.length r)%nat /\
    is_ok (generate r s (types_equal r)) = true /\
    is_ok (generate (restrict pi k r) s (types_equal (restrict pi k r))) = true.
Proof. exact restriction_hypotheses_satisfiable. Qed.
Print Assumptions C17_restriction_hypotheses_satisfiable.

(** ** the OUTCOME relation of the restriction (Proofs/RestrictionOutcome.v).

    If generation from the full registry succeeds and the restricted registry is CLOSED
    ([closed], Model/WellFormed.v: every id referenced by a retained entry is retained - what
    scale-info's [retain] guarantees; boolean form [closed_reg]), then generation from the
    restricted registry succeeds as well, and every item it generates is an item of the full run
    at the same path with the same tokens ([C17_restriction_tokens]).

    The comparison oracle [teq'] of the restricted run: [fam_equal (restrict pi k r) s teq'] -
    [teq'] answers [Ok true] on every pair of item-eligible entries of the restricted registry
    that carry the same path (boolean form [fam_equalb]).  This cannot be derived from the full
    run: there the members of a family are compared with the FIRST member in the full order,
    which may be a dropped entry, so the pairs the restricted run compares may never have been
    compared ("[Ok] iff [Ok]" needs [types_equal] to be an equivalence on every family, false on
    the pinned tree: F1/F3/F14).  It holds for [teq_true], and for every reflexive oracle when
    the restricted registry has no families ([C17_fam_equal_unique]).  The other hypotheses are
    those of [C17_restriction_tokens]. *)
Theorem C17_restriction_outcome :
  forall pi k r s teq teq' m,
    renumbering (N.of_nat (List.length r)) pi ->
    skeleton_consistent r s -> docs_consistent r s -> derives_functional s ->
    no_outside_roots (dr_recursive (s_dreg s)) (dropped pi k r) ->
    closed (restrict pi k r) ->
    fam_equal (restrict pi k r) s teq' ->
    generate r s teq = Ok m ->
    exists m', generate (restrict pi k r) s teq' = Ok m' /\
      forall p id' ir', items_get m' p = Some (id', ir') ->
        exists id ir, items_get m p = Some (id, ir) /\ type_ir_tokens s ir' = type_ir_tokens s ir.
Proof. exact restriction_outcome. Qed.
Print Assumptions C17_restriction_outcome.

(** the [Ok]-transfer alone needs neither the consistency hypotheses nor [no_outside_roots] *)
Theorem C17_restriction_outcome_ok :
  forall pi k r s teq teq' m,
    renumbering (N.of_nat (List.length r)) pi ->
    closed (restrict pi k r) ->
    fam_equal (restrict pi k r) s teq' ->
    generate r s teq = Ok m ->
    exists m', generate (restrict pi k r) s teq' = Ok m'.
Proof. exact restriction_outcome_ok. Qed.
Print Assumptions C17_restriction_outcome_ok.

(** the same with the hypotheses as the boolean checkers *)
Theorem C17_restriction_outcome_checked :
  forall pi k r s teq teq' m,
    renumbering (N.of_nat (List.length r)) pi ->
    skeleton_consistentb r s = true -> docs_consistentb r s = true -> derives_functionalb s = true ->
    no_outside_rootsb (dr_recursive (s_dreg s)) (dropped pi k r) = true ->
    closed_reg (restrict pi k r) = true ->
    fam_equalb (restrict pi k r) s teq' = true ->
    generate r s teq = Ok m ->
    exists m', generate (restrict pi k r) s teq' = Ok m' /\
      forall p id' ir', items_get m' p = Some (id', ir') ->
        exists id ir, items_get m p = Some (id, ir) /\ type_ir_tokens s ir' = type_ir_tokens s ir.
Proof. exact restriction_outcome_checked. Qed.
Print Assumptions C17_restriction_outcome_checked.

Theorem C17_fam_equal_teq_true : forall rr s, fam_equal rr s teq_true.
Proof. exact fam_equal_teq_true. Qed.
Print Assumptions C17_fam_equal_teq_true.

Theorem C17_fam_equal_unique :
  forall rr s teq',
    (forall id, teq' id id = Ok true) -> unique_item_paths rr s -> fam_equal rr s teq'.
Proof. exact fam_equal_unique. Qed.
Print Assumptions C17_fam_equal_unique.

(** the two lemmas the transfer rests on: in a closed registry the fuel of the resolver
    ([fuel0 rr = length rr + 2]) suffices whenever any fuel does; a successful resolution in the
    whole registry of an id of a closed prefix is the same successful resolution in the prefix *)
Theorem C17_resolve_fuel_enough :
  forall rr s, closed rr ->
    forall parents F id isf orig t,
      resolve_rec rr s F id isf parents orig = Ok t ->
      resolve_rec rr s (fuel0 rr) id isf parents orig = Ok t.
Proof. exact resolve_rec_enough. Qed.
Print Assumptions C17_resolve_fuel_enough.

Theorem C17_resolve_to_closed_prefix :
  forall r1 r2 s, closed r1 ->
    forall f id isf parents orig t,
      in_reg r1 id -> resolve_rec (r1 ++ r2) s f id isf parents orig = Ok t ->
      resolve_rec r1 s f id isf parents orig = Ok t.
Proof. exact resolve_rec_to_prefix. Qed.
Print Assumptions C17_resolve_to_closed_prefix.

(** the hypotheses are satisfiable with the real comparison [types_equal] of the restricted
    registry (5 of 8 entries retained, recursive derives) *)
Theorem C17_restriction_outcome_satisfiable :
  exists pi k r s,
    renumbering (N.of_nat (List.length r)) pi /\
    skeleton_consistentb r s = true /\ docs_consistentb r s = true /\ derives_functionalb s = true /\
    no_outside_rootsb (dr_recursive (s_dreg s)) (dropped pi k r) = true /\
    closed_reg (restrict pi k r) = true /\
    fam_equalb (restrict pi k r) s (types_equal (restrict pi k r)) = true /\
    (List.length (restrict pi k r) < List.length r)%nat /\
    is_ok (generate r s (types_equal r)) = true.
Proof. exact restriction_outcome_satisfiable. Qed.
Print Assumptions C17_restriction_outcome_satisfiable.

(** the converse direction is FALSE in general: an entry outside the restriction may be the one
    that makes the full generation fail.  Witness: [ex_reg1] (closed, generates) extended by a
    primitive entry whose path [9bad] is not a [syn] type path; with a recursive derive rule the
    flattening parses every entry's path and fails.  All hypotheses of [C17_restriction_outcome]
    hold, the restricted generation is [Ok], the full one fails for EVERY oracle. *)
Theorem C17_restriction_outcome_converse_refuted :
  exists pi k r s,
    renumbering (N.of_nat (List.length r)) pi /\
    skeleton_consistentb r s = true /\ docs_consistentb r s = true /\ derives_functionalb s = true /\
    no_outside_rootsb (dr_recursive (s_dreg s)) (dropped pi k r) = true /\
    closed_reg (restrict pi k r) = true /\
    fam_equal (restrict pi k r) s (types_equal (restrict pi k r)) /\
    is_ok (generate (restrict pi k r) s (types_equal (restrict pi k r))) = true /\
    (forall teq, is_ok (generate r s teq) = false).
Proof. exact restriction_outcome_converse_refuted. Qed.
Print Assumptions C17_restriction_outcome_converse_refuted.
(** ** restriction: descriptions and example validity of retained ids
    (Proofs/DescribeRestrict.v, Proofs/ExampleRestrict.v; these supersede the remark "not proved:
    the [describe] / [has_type] clauses" above).  [describe] is the model of
    [type_description(id, registry, false)] (Model/Describe.v, C13), [has_typeb] decides the typing
    relation [has_type] of C12 (Model/ExampleValue.v).  Qualified names: both models have a
    [cache]. *)
From V Require Model.Describe Model.ExampleValue Proofs.DescribeRestrict Proofs.ExampleRestrict
  Proofs.ExamplesC17Restrict.

(** [describe] commutes with a renumbering of the registry: the same text (and the same panic);
    the one error that names an id names the renamed id ([rmap_e pi], Model/Renumber.v) *)
Theorem C17_describe_renumber :
  forall pi r, renumbering (N.of_nat (List.length r)) pi ->
    forall id, V.Model.Describe.describe (renumber pi r) (pi id) =
               rmap_e pi (fun d : string => d) (V.Model.Describe.describe r id).
Proof. exact V.Proofs.DescribeRestrict.describe_renumber. Qed.
Print Assumptions C17_describe_renumber.

(** a successful description in a prefix of a registry is the same successful description in the
    whole registry (more entries and more fuel never hurt) *)
Theorem C17_describe_prefix :
  forall r1 r2 id d,
    V.Model.Describe.describe r1 id = Ok d -> V.Model.Describe.describe (r1 ++ r2) id = Ok d.
Proof. exact V.Proofs.DescribeRestrict.describe_prefix. Qed.
Print Assumptions C17_describe_prefix.

(** C17_restriction (descriptions): the text the restricted registry gives for a retained id
    [pi id] is the text the full registry gives for [id].  No hypothesis on the registry. *)
Theorem C17_describe_restriction :
  forall pi k r id d,
    renumbering (N.of_nat (List.length r)) pi ->
    V.Model.Describe.describe (restrict pi k r) (pi id) = Ok d ->
    V.Model.Describe.describe r id = Ok d.
Proof. exact V.Proofs.DescribeRestrict.describe_restriction. Qed.
Print Assumptions C17_describe_restriction.

(** ... and both descriptions exist when the restricted registry is well-formed for descriptions
    ([wf_descb], the hypothesis of [C13_total]: closed, uniform field lists, no cycle along the
    edges followed without the in-progress marker) *)
Theorem C17_describe_restriction_total :
  forall pi k r id,
    renumbering (N.of_nat (List.length r)) pi ->
    V.Model.Describe.wf_descb (restrict pi k r) = true ->
    (pi id < N.of_nat (List.length (restrict pi k r)))%N ->
    exists d, V.Model.Describe.describe (restrict pi k r) (pi id) = Ok d /\
              V.Model.Describe.describe r id = Ok d.
Proof. exact V.Proofs.DescribeRestrict.describe_restriction_total. Qed.
Print Assumptions C17_describe_restriction_total.

(** the formatted description ([type_description(id, registry, true)]) *)
Theorem C17_describe_fmt_restriction :
  forall pi k r id l,
    renumbering (N.of_nat (List.length r)) pi ->
    V.Model.Describe.describe_fmt (restrict pi k r) (pi id) = Ok l ->
    V.Model.Describe.describe_fmt r id = Ok l.
Proof. exact V.Proofs.DescribeRestrict.describe_fmt_restriction. Qed.
Print Assumptions C17_describe_fmt_restriction.

Theorem C17_describe_restriction_satisfiable :
  exists pi k r id d,
    renumbering (N.of_nat (List.length r)) pi /\
    V.Model.Describe.wf_descb (restrict pi k r) = true /\
    (pi id < N.of_nat (List.length (restrict pi k r)))%N /\
    (List.length (restrict pi k r) < List.length r)%nat /\
    pi id <> id /\
    V.Model.Describe.describe (restrict pi k r) (pi id) = Ok d /\
    V.Model.Describe.describe r id = Ok d /\
    d = "enum E<u8>{A(struct Wrap<u8>{v: u8,n: u32}),B{x: u8,c: Compact<u32>}}"%string.
Proof. exact V.Proofs.ExamplesC17Restrict.describe_restriction_satisfiable. Qed.
Print Assumptions C17_describe_restriction_satisfiable.

(** typing of values: invariant under renumbering (an equation between the two verdicts) *)
Theorem C17_has_type_renumber :
  forall pi r, renumbering (N.of_nat (List.length r)) pi ->
    forall id v, V.Model.ExampleValue.has_typeb (renumber pi r) (pi id) v =
                 V.Model.ExampleValue.has_typeb r id v.
Proof. exact V.Proofs.ExampleRestrict.has_typeb_renumber. Qed.
Print Assumptions C17_has_type_renumber.

(** C17_restriction (example validity), one direction: a value that the restricted registry types
    at the retained id [pi id] is an instance of [id] in the full registry; in particular the
    example generated from the restricted registry.  NOT proved (hence [_partial]): the converse
    (typed by the full registry => typed by the restricted one; needs closedness of the restricted
    registry) and that the same word stream yields the same example value on both registries;
    both are evaluated on every observed (retained id, seed) by [prop_example_retained]. *)
Theorem C17_has_type_restriction_partial :
  forall pi k r id v,
    renumbering (N.of_nat (List.length r)) pi ->
    V.Model.ExampleValue.has_typeb (restrict pi k r) (pi id) v = true ->
    V.Model.ExampleValue.has_typeb r id v = true /\ V.Model.ExampleValue.has_type r id v.
Proof. exact V.Proofs.ExampleRestrict.has_type_restriction_both. Qed.
Print Assumptions C17_has_type_restriction_partial.

Theorem C17_example_restriction_typed_partial :
  forall pi k r id ws v,
    renumbering (N.of_nat (List.length r)) pi ->
    V.Model.ExampleValue.example_value (restrict pi k r) (pi id) ws = V.Model.ExampleValue.XOk v ->
    V.Model.ExampleValue.has_type r id v.
Proof. exact V.Proofs.ExampleRestrict.example_restriction_typed. Qed.
Print Assumptions C17_example_restriction_typed_partial.

Theorem C17_example_restriction_satisfiable :
  exists pi k r id ws v,
    renumbering (N.of_nat (List.length r)) pi /\
    (List.length (restrict pi k r) < List.length r)%nat /\
    V.Model.ExampleValue.example_value (restrict pi k r) (pi id) ws = V.Model.ExampleValue.XOk v /\
    V.Model.ExampleValue.example_value r id ws = V.Model.ExampleValue.XOk v /\
    V.Model.ExampleValue.has_typeb (restrict pi k r) (pi id) v = true /\
    V.Model.ExampleValue.has_typeb r id v = true /\
    match v with V.Model.ExampleValue.VVariant _ _ => True | _ => False end.
Proof. exact V.Proofs.ExamplesC17Restrict.example_restriction_satisfiable. Qed.
Print Assumptions C17_example_restriction_satisfiable.

(** ** de-duplication under renumbering (Proofs/TeqEquivariance.v, Proofs/DedupPerm.v): the clause
    "maps de-duplication renames to the same shape groups", so far only evaluated per case by
    [prop_dedup_groups] (Corr/CheckTG.v). *)
From V Require Model.DedupSpec Model.DedupPerm Proofs.TeqEquivariance Proofs.DedupPerm.

(** [types_equal] commutes with a renumbering: same verdict, same error, same panic, for every
    pair of ids (in range or not).  [teq] only tests ids for equality (the [a == b] shortcut,
    membership in the visited sets, the lookup in a [GenericsList] frame) and resolves them. *)
Theorem C17_types_equal_equivariant :
  forall pi r, renumbering (N.of_nat (List.length r)) pi ->
    forall a b, types_equal_res (renumber pi r) (pi a) (pi b) = types_equal_res r a b.
Proof. exact V.Proofs.TeqEquivariance.types_equal_res_renumber. Qed.
Print Assumptions C17_types_equal_equivariant.

(** ... the whole run is the image of the original run: for every fuel, both parameter lists
    ([map_glist]: the ids inside the frames renamed) and every visited state ([map_vstate]: both
    visited sets renamed); [map_tres] renames the two visited sets of an [Ok] outcome and keeps
    verdict, error and panic *)
Theorem C17_teq_equivariant :
  forall pi r, renumbering (N.of_nat (List.length r)) pi ->
    forall fuel a ap b bp st,
      teq (renumber pi r) fuel (pi a) (V.Proofs.TeqEquivariance.map_glist pi ap)
          (pi b) (V.Proofs.TeqEquivariance.map_glist pi bp) (V.Proofs.TeqEquivariance.map_vstate pi st) =
      V.Proofs.TeqEquivariance.map_tres pi (teq r fuel a ap b bp st).
Proof. exact V.Proofs.TeqEquivariance.teq_renumber. Qed.
Print Assumptions C17_teq_equivariant.

(** under the hypothesis [teq_equiv_on_families r] (Model/DedupPerm.v: on the positions carrying
    one namespaced path [types_equal] always answers, symmetrically and transitively; reflexivity
    is unconditional) the groups of [build_groups] ARE the equivalence classes, whatever the
    order of the entries: two members of a family are in one group iff they are judged equal ... *)
Theorem C17_dedup_groups_are_classes :
  forall r m, build_groups r = Ok m -> V.Model.DedupPerm.teq_equiv_on_families r ->
    forall p gs i j,
      In (p, gs) m -> V.Model.DedupSpec.entry_at r i p -> V.Model.DedupSpec.entry_at r j p ->
      ((exists g, In g gs /\ In i g /\ In j g) <-> types_equal_res r i j = Ok true).
Proof. exact V.Proofs.DedupPerm.same_group_iff_equal. Qed.
Print Assumptions C17_dedup_groups_are_classes.

(** ... a family is split (and its members renamed, [C04_minimal]) iff it has two members judged
    different ... *)
Theorem C17_dedup_split_iff :
  forall r m, build_groups r = Ok m -> V.Model.DedupPerm.teq_equiv_on_families r ->
    forall p gs, In (p, gs) m ->
      ((2 <= List.length gs)%nat <-> V.Model.DedupPerm.fam_split r p).
Proof. exact V.Proofs.DedupPerm.split_iff_fam_split. Qed.
Print Assumptions C17_dedup_split_iff.

(** ... and the grouping loop itself cannot fail *)
Theorem C17_build_groups_total :
  forall r, V.Model.DedupPerm.teq_equiv_on_families r -> exists m, build_groups r = Ok m.
Proof. exact V.Proofs.DedupPerm.build_groups_total. Qed.
Print Assumptions C17_build_groups_total.

Theorem C17_teq_equiv_checked :
  forall r, V.Model.DedupPerm.teq_equiv_on_familiesb r = true -> V.Model.DedupPerm.teq_equiv_on_families r.
Proof. exact V.Proofs.DedupPerm.teq_equiv_on_familiesb_sound. Qed.
Print Assumptions C17_teq_equiv_checked.

(** C17, de-duplication half: the model-level statement of what [prop_dedup_groups_raw]
    (Corr/CheckTG.v) evaluates on the observed outputs, with its three clauses.  The entry at
    position [i] of [r] sits at position [pi i] of [renumber pi r] ([C17_resolve_renumber]); [r1],
    [r2] are the registries after the pass.
    - same outcome kind: both passes succeed, or both fail with the id-mismatch error (the only
      error of the pass; under the hypothesis no comparison panics or runs out of fuel);
    - renamed iff renamed: the path at [i] changes iff the path at [pi i] changes;
    - same partition of every family: two entries with one original path share a path after the
      pass on [r] iff their images do after the pass on [renumber pi r].  (The digit a group
      receives follows the order of first appearance and is NOT invariant:
      [C17_dedup_partition_example].)
    PARTIAL: the hypothesis [teq_equiv_on_familiesb r] - [types_equal] is an equivalence relation
    on every same-path family of namespaced entries of [r]; it carries over to [renumber pi r]
    (first conjunct), so it is asked of ONE registry only.  F3 (unsound shortcuts make the
    relation non-transitive) and F18 (incomplete on coincidences, order-dependent) are exactly
    its failures, and without it the statement is false: [C17_dedup_hypothesis_needed]. *)
Theorem C17_dedup_partition_invariant_partial :
  forall pi r,
    renumbering (N.of_nat (List.length r)) pi ->
    V.Model.DedupPerm.teq_equiv_on_familiesb r = true ->
    V.Model.DedupPerm.teq_equiv_on_families (renumber pi r) /\
    ((exists r1 r2, ensure_unique r = Ok r1 /\ ensure_unique (renumber pi r) = Ok r2) \/
     (exists g e g' e', ensure_unique r = Err (EIdsInvalid g e) /\
                        ensure_unique (renumber pi r) = Err (EIdsInvalid g' e'))) /\
    forall r1 r2, ensure_unique r = Ok r1 -> ensure_unique (renumber pi r) = Ok r2 ->
      forall i ei ei1 ei2,
        nth_error r (N.to_nat i) = Some ei ->
        nth_error r1 (N.to_nat i) = Some ei1 ->
        nth_error r2 (N.to_nat (pi i)) = Some ei2 ->
        (t_path (snd ei1) <> t_path (snd ei) <-> t_path (snd ei2) <> t_path (snd ei)) /\
        forall j ej ej1 ej2,
          nth_error r (N.to_nat j) = Some ej ->
          nth_error r1 (N.to_nat j) = Some ej1 ->
          nth_error r2 (N.to_nat (pi j)) = Some ej2 ->
          t_path (snd ei) = t_path (snd ej) ->
          (t_path (snd ei1) = t_path (snd ej1) <-> t_path (snd ei2) = t_path (snd ej2)).
Proof. exact V.Proofs.DedupPerm.dedup_partition_invariant. Qed.
Print Assumptions C17_dedup_partition_invariant_partial.

(** non-vacuity: a::Foo(u8), b::Bar(u8), a::Foo(u16), a::Foo(u8), Foo(u8), u8, u16 with positions
    0 / 2 and 5 / 6 exchanged.  [new_paths]: the paths after the pass, by position.  The same
    entries are renamed and the same pairs share a path; the digits are exchanged. *)
Theorem C17_dedup_partition_example :
  exists pi r,
    renumbering (N.of_nat (List.length r)) pi /\ V.Model.DedupPerm.teq_equiv_on_familiesb r = true /\
    (exists i, pi i <> i) /\
    V.Model.DedupPerm.new_paths r =
      Ok [["a"; "Foo1"]; ["b"; "Bar"]; ["a"; "Foo2"]; ["a"; "Foo1"]; ["Foo"]; []; []]%string /\
    V.Model.DedupPerm.new_paths (renumber pi r) =
      Ok [["a"; "Foo1"]; ["b"; "Bar"]; ["a"; "Foo2"]; ["a"; "Foo2"]; ["Foo"]; []; []]%string.
Proof. exact V.Proofs.DedupPerm.dedup_partition_example. Qed.
Print Assumptions C17_dedup_partition_example.

(** the hypothesis is needed (finding F3; corpus/families/F03_split_instantiations.json
    transcribed): a::F<T = u8> { x: u16 }, then a::F<T> { x: T } at u16 and at u8.  0 ~ 3 and 3 ~ 4
    but not 0 ~ 4; in the given order the family is split (F1, F1, F2), with the instantiation at
    u16 first it is one group and nothing is renamed. *)
Theorem C17_dedup_hypothesis_needed :
  exists pi r,
    renumbering (N.of_nat (List.length r)) pi /\ V.Model.DedupPerm.teq_equiv_on_familiesb r = false /\
    types_equal_res r 0 3 = Ok true /\ types_equal_res r 3 4 = Ok true /\
    types_equal_res r 0 4 = Ok false /\
    V.Model.DedupPerm.new_paths r = Ok [["a"; "F1"]; []; []; ["a"; "F1"]; ["a"; "F2"]]%string /\
    V.Model.DedupPerm.new_paths (renumber pi r) = Ok [["a"; "F"]; []; []; ["a"; "F"]; ["a"; "F"]]%string.
Proof. exact V.Proofs.DedupPerm.dedup_hypothesis_needed. Qed.
Print Assumptions C17_dedup_hypothesis_needed.

(** ** restriction: example values and the converse typing direction
    (Proofs/ExampleRestrictValue.v, Proofs/HasTypeFuel.v; these settle the two items
    [C17_has_type_restriction_partial] lists as not proved). *)
From V Require Proofs.ExampleRestrictValue Proofs.HasTypeFuel.

(** the run of the example transformer commutes with a renumbering: same value, same remaining
    words, cache keys renamed, the two errors that carry an id carry the renamed id ([equiv],
    Proofs/ExampleRestrictValue.v: [x' (mapst s) = mapres (x s)] for every state [s]) *)
Theorem C17_example_run_renumber :
  forall pi r, renumbering (N.of_nat (List.length r)) pi ->
    forall fuel id,
      V.Proofs.ExampleRestrictValue.equiv pi
        (V.Model.ExampleValue.resolve_go fuel (renumber pi r) (pi id))
        (V.Model.ExampleValue.resolve_go fuel r id).
Proof. exact V.Proofs.ExampleRestrictValue.resolve_go_renumber. Qed.
Print Assumptions C17_example_run_renumber.

(** C17_restriction (examples): the example generated from a word stream on the restricted
    registry at the retained id [pi id] is THE example generated from the same word stream on the
    full registry at [id].  No hypothesis on the registry.  PARTIAL: one direction - a successful
    restricted run is the same successful full run; without closedness of the restricted registry
    the converse is false (a full run may leave the prefix).  The equation between the two outcomes
    on a closed restricted registry is [C17_example_restriction_same_outcome] below; with
    [C12_returns] on the restricted registry both examples exist and are equal:
    [C17_example_restriction_same_value_safe]. *)
Theorem C17_example_restriction_same_value_partial :
  forall pi k r id ws v,
    renumbering (N.of_nat (List.length r)) pi ->
    V.Model.ExampleValue.example_value (restrict pi k r) (pi id) ws = V.Model.ExampleValue.XOk v ->
    V.Model.ExampleValue.example_value r id ws = V.Model.ExampleValue.XOk v.
Proof. exact V.Proofs.ExampleRestrictValue.example_restriction_same_value. Qed.
Print Assumptions C17_example_restriction_same_value_partial.

Theorem C17_example_restriction_same_value_safe :
  forall pi k r id ws,
    renumbering (N.of_nat (List.length r)) pi ->
    V.Model.ExampleValue.safeb (restrict pi k r) (pi id) = true ->
    (exists v, V.Model.ExampleValue.example_value (restrict pi k r) (pi id) ws = V.Model.ExampleValue.XOk v /\
               V.Model.ExampleValue.example_value r id ws = V.Model.ExampleValue.XOk v) \/
    V.Model.ExampleValue.example_value (restrict pi k r) (pi id) ws =
      V.Model.ExampleValue.XErr V.Model.ExampleValue.XOutOfWords.
Proof. exact V.Proofs.ExampleRestrictValue.example_restriction_same_value_safe. Qed.
Print Assumptions C17_example_restriction_same_value_safe.

(** typing only follows reachable ids: on a CLOSED restricted registry ([closed], what scale-info's
    [retain] guarantees) the checker of the restricted registry at a retained id [pi id] and the
    checker of the full registry at [id] agree at EVERY fuel *)
Theorem C17_has_type_fuel_restriction :
  forall pi k r, renumbering (N.of_nat (List.length r)) pi -> closed (restrict pi k r) ->
    forall f id v, in_reg (restrict pi k r) (pi id) ->
      V.Model.ExampleValue.has_type_fuel f (restrict pi k r) (pi id) v =
      V.Model.ExampleValue.has_type_fuel f r id v.
Proof. exact V.Proofs.ExampleRestrictValue.has_type_fuel_restriction. Qed.
Print Assumptions C17_has_type_fuel_restriction.

(** the fuel bound: the fuel of [has_typeb] ([value_depth v * S (length r)], which depends on the
    size of the registry) is enough whenever any fuel is - a successful check follows, between two
    value levels, a chain of compact entries that cannot revisit an id *)
Theorem C17_has_type_fuel_enough :
  forall r F id v,
    V.Model.ExampleValue.has_type_fuel F r id v = true -> V.Model.ExampleValue.has_typeb r id v = true.
Proof. exact V.Proofs.HasTypeFuel.has_type_fuel_enough. Qed.
Print Assumptions C17_has_type_fuel_enough.

(** C17_restriction (example validity), the CONVERSE direction of
    [C17_has_type_restriction_partial]: a value typed by the FULL registry at [id] is typed by the
    closed restricted registry at the retained id [pi id] - by its checker (with its own, smaller
    fuel) and in the relation of C12.  Nothing is missing under the stated hypotheses (closed
    restricted registry, retained id), hence no [_partial]. *)
Theorem C17_has_type_restriction_converse :
  forall pi k r id v,
    renumbering (N.of_nat (List.length r)) pi -> closed (restrict pi k r) ->
    in_reg (restrict pi k r) (pi id) ->
    V.Model.ExampleValue.has_typeb r id v = true ->
    V.Model.ExampleValue.has_typeb (restrict pi k r) (pi id) v = true /\
    V.Model.ExampleValue.has_type (restrict pi k r) (pi id) v.
Proof. exact V.Proofs.HasTypeFuel.has_typeb_restriction_converse. Qed.
Print Assumptions C17_has_type_restriction_converse.

(** both directions: "example validity for retained ids is unchanged" as an equation between the
    two verdicts *)
Theorem C17_has_type_restriction_eq :
  forall pi k r id v,
    renumbering (N.of_nat (List.length r)) pi -> closed (restrict pi k r) ->
    in_reg (restrict pi k r) (pi id) ->
    V.Model.ExampleValue.has_typeb (restrict pi k r) (pi id) v = V.Model.ExampleValue.has_typeb r id v.
Proof. exact V.Proofs.HasTypeFuel.has_typeb_restriction_eq. Qed.
Print Assumptions C17_has_type_restriction_eq.

(** C17_restriction (examples), full form: on a closed restricted registry the example run at a
    retained id [pi id] has THE outcome of the run on the full registry at [id] from the same word
    stream - the same value, or the same error ([xmap pi]: the id inside "recursive type" / "not
    found" is the renamed one), never a panic or fuel exhaustion on one side only.  Rests on
    [C12_total] (the fuel [S (length r)] never runs out, so the two different fuels do not matter). *)
Theorem C17_example_restriction_same_outcome :
  forall pi k r id ws,
    renumbering (N.of_nat (List.length r)) pi -> closed (restrict pi k r) ->
    in_reg (restrict pi k r) (pi id) ->
    V.Model.ExampleValue.example_value (restrict pi k r) (pi id) ws =
    V.Proofs.ExampleRestrictValue.xmap pi (V.Model.ExampleValue.example_value r id ws).
Proof. exact V.Proofs.ExampleRestrictValue.example_restriction_same_outcome. Qed.
Print Assumptions C17_example_restriction_same_outcome.

Theorem C17_restriction_closed_satisfiable :
  exists pi k r id,
    renumbering (N.of_nat (List.length r)) pi /\ closed (restrict pi k r) /\
    in_reg (restrict pi k r) (pi id) /\ (List.length (restrict pi k r) < List.length r)%nat /\
    pi id <> id.
Proof. exact V.Proofs.HasTypeFuel.restriction_closed_satisfiable. Qed.
Print Assumptions C17_restriction_closed_satisfiable.

(** the run-time checker of the de-duplication clause, evaluated on the MODEL's own outputs, answers
    [true]: for a pair (case on [r], case on [renumber pi r]) whose recorded de-duplication
    outcomes are the model's ([corr_dedup_obs]) and whose recorded permutation is the inverse of
    [pi] ("entry [j] of b is entry [inv_on pi n j] of a"), under the hypothesis of
    [C17_dedup_partition_invariant_partial].  So what [prop_dedup_groups] demands of the
    implementation is a consequence of that theorem plus the behavioural correspondence. *)
From V Require Corr.RunTG Corr.CheckTG Proofs.DedupChecker.

Theorem C17_dedup_checker_on_model :
  forall pi r,
    renumbering (N.of_nat (List.length r)) pi ->
    V.Model.DedupPerm.teq_equiv_on_familiesb r = true ->
    forall ca cb : V.Corr.RunTG.tg_case,
      V.Corr.RunTG.tg_reg ca = r -> V.Corr.RunTG.tg_reg cb = renumber pi r ->
      V.Corr.RunTG.tg_dedup ca =
        V.Corr.RunTG.obs_of (rmap V.Corr.RunTG.reg_paths (ensure_unique r)) ->
      V.Corr.RunTG.tg_dedup cb =
        V.Corr.RunTG.obs_of (rmap V.Corr.RunTG.reg_paths (ensure_unique (renumber pi r))) ->
      V.Corr.CheckTG.prop_dedup_groups_raw
        (V.Corr.RunTG.mk_pair "renumbered" ca cb
           (map (inv_on pi (List.length r)) (seqN (List.length r)))) = true.
Proof. exact V.Proofs.DedupChecker.dedup_checker_on_model. Qed.
Print Assumptions C17_dedup_checker_on_model.

(** ** "[Ok] implies [Ok]" (Proofs/GenerateOkTransfer.v): the item [C17_permutation_tokens] lists as
    not proved, under the hypothesis that makes it true.  Generation with the REAL comparison stays
    successful under every renumbering when [types_equal] is an equivalence relation on every
    same-path family of [r] ([teq_equiv_on_families]; F1 / F3 / F14 / F18 are its failures): the
    loop compares each item-eligible entry with the first earlier one of its path, and on an
    equivalence "all equal to the first" is "pairwise equal", whatever the order.  PARTIAL: that
    hypothesis; and one direction (the converse is this statement for the inverse renumbering,
    which exists as a renumbering of [renumber pi r] only for closed registries). *)
From V Require Proofs.GenerateOkTransfer.

Theorem C17_generate_ok_transfer_partial :
  forall pi r s m,
    renumbering (N.of_nat (List.length r)) pi ->
    V.Model.DedupPerm.teq_equiv_on_families r ->
    generate r s (types_equal r) = Ok m ->
    exists m', generate (renumber pi r) s (types_equal (renumber pi r)) = Ok m'.
Proof. exact V.Proofs.GenerateOkTransfer.generate_ok_transfer. Qed.
Print Assumptions C17_generate_ok_transfer_partial.

(** ... with [C17_permutation_tokens]: successful AND token-identical *)
Theorem C17_permutation_outcome_partial :
  forall pi r s m1,
    renumbering (N.of_nat (List.length r)) pi ->
    skeleton_consistent r s -> docs_consistent r s -> derives_functional s ->
    V.Model.DedupPerm.teq_equiv_on_familiesb r = true ->
    generate r s (types_equal r) = Ok m1 ->
    exists m2, generate (renumber pi r) s (types_equal (renumber pi r)) = Ok m2 /\
               emit_module s m1 = emit_module s m2.
Proof. exact V.Proofs.GenerateOkTransfer.permutation_outcome. Qed.
Print Assumptions C17_permutation_outcome_partial.

Theorem C17_permutation_outcome_satisfiable :
  exists pi r s,
    renumbering (N.of_nat (List.length r)) pi /\
    skeleton_consistentb r s = true /\ docs_consistentb r s = true /\ derives_functionalb s = true /\
    V.Model.DedupPerm.teq_equiv_on_familiesb r = true /\ ~ unique_item_paths r s /\
    is_ok (generate r s (types_equal r)) = true.
Proof. exact V.Proofs.GenerateOkTransfer.permutation_outcome_satisfiable. Qed.
Print Assumptions C17_permutation_outcome_satisfiable.

(** a semantic class on which the hypothesis [teq_equiv_on_families] holds: the program-derived
    registries of the fragment of [C04_program_untouched_partial] (definitions in
    [teq_program_okb], pairwise distinct definition paths, coincidence-free interned
    instantiations) - there all entries carrying one namespaced path are judged equal.  So on this
    class [C17_dedup_partition_invariant_partial] and [C17_generate_ok_transfer_partial] hold for
    every renumbering without a run-time check.  PARTIAL: the fragment. *)
From V Require Model.Program Model.ProgramSkel Model.ProgramTeq.

Theorem C17_program_teq_equiv_partial :
  forall defs L r,
    V.Model.Program.RegistryOf defs L r ->
    (forall sd, In sd defs ->
       V.Model.ProgramTeq.teq_program_okb sd = true /\
       forall lsb, V.Model.Program.sd_path sd <> V.Model.ProgramSkel.order_path_of lsb) ->
    (forall d1 d2 sd1 sd2,
       nth_error defs d1 = Some sd1 -> nth_error defs d2 = Some sd2 ->
       V.Model.Program.sd_path sd1 = V.Model.Program.sd_path sd2 -> d1 = d2) ->
    (forall id d args sd,
       L id = Some (V.Model.Program.SApp d args) -> nth_error defs d = Some sd ->
       V.Model.Program.instantiation_cf defs sd args = true /\ map V.Model.Program.canon args = args) ->
    V.Model.DedupPerm.teq_equiv_on_families r.
Proof. exact V.Proofs.GenerateOkTransfer.program_teq_equiv. Qed.
Print Assumptions C17_program_teq_equiv_partial.

(** ** restriction with the REAL comparison (Proofs/RestrictionReal.v).  [C17_restriction_outcome]
    asks the oracle of the restricted run to judge every retained family equal ([fam_equal]) and
    remarks that this cannot be derived from the full run.  Under the equivalence hypothesis it
    can. *)
From V Require Proofs.RestrictionReal.

(** a successful comparison in a prefix of the registry is the same successful comparison in the
    whole registry (more entries and more fuel never hurt) *)
Theorem C17_types_equal_prefix :
  forall r1 r2 a b x, types_equal_res r1 a b = Ok x -> types_equal_res (r1 ++ r2) a b = Ok x.
Proof. exact V.Proofs.RestrictionReal.types_equal_prefix. Qed.
Print Assumptions C17_types_equal_prefix.

(** the hypothesis [fam_equal] of [C17_restriction_outcome] for the restricted registry's own
    [types_equal], from a successful FULL generation *)
Theorem C17_fam_equal_real_partial :
  forall pi k r s m,
    renumbering (N.of_nat (List.length r)) pi -> closed (restrict pi k r) ->
    V.Model.DedupPerm.teq_equiv_on_families r ->
    generate r s (types_equal r) = Ok m ->
    fam_equal (restrict pi k r) s (types_equal (restrict pi k r)).
Proof. exact V.Proofs.RestrictionReal.fam_equal_real. Qed.
Print Assumptions C17_fam_equal_real_partial.

(** C17_restriction (items) with the real comparison on both sides: a successful generation from
    the full registry implies a successful generation from every closed restriction of it, and
    every item of the latter is an item of the former at the same path with the same tokens.
    PARTIAL: the hypothesis [teq_equiv_on_familiesb r]; the other hypotheses are those of
    [C17_restriction_outcome]. *)
Theorem C17_restriction_outcome_real_partial :
  forall pi k r s m,
    renumbering (N.of_nat (List.length r)) pi ->
    skeleton_consistent r s -> docs_consistent r s -> derives_functional s ->
    no_outside_roots (dr_recursive (s_dreg s)) (dropped pi k r) ->
    closed (restrict pi k r) ->
    V.Model.DedupPerm.teq_equiv_on_familiesb r = true ->
    generate r s (types_equal r) = Ok m ->
    exists m', generate (restrict pi k r) s (types_equal (restrict pi k r)) = Ok m' /\
      forall p id' ir', items_get m' p = Some (id', ir') ->
        exists id ir, items_get m p = Some (id, ir) /\ type_ir_tokens s ir' = type_ir_tokens s ir.
Proof. exact V.Proofs.RestrictionReal.restriction_outcome_real. Qed.
Print Assumptions C17_restriction_outcome_real_partial.

(** ** the inverse renumbering (Proofs/RenumberInverse.v): a closed registry with ids = positions
    can be renumbered back, so every transfer along [renumber pi] is an equivalence there *)
From V Require Proofs.RenumberInverse.

Theorem C17_inverse_is_renumbering :
  forall pi n, renumbering (N.of_nat n) pi ->
    renumbering (N.of_nat n) (V.Proofs.RenumberInverse.inv_renumbering pi n).
Proof. exact V.Proofs.RenumberInverse.inv_renumbering_is_renumbering. Qed.
Print Assumptions C17_inverse_is_renumbering.

Theorem C17_renumber_inverse :
  forall pi r,
    renumbering (N.of_nat (List.length r)) pi -> ids_consistent r = true -> closed r ->
    renumber (V.Proofs.RenumberInverse.inv_renumbering pi (List.length r)) (renumber pi r) = r.
Proof. exact V.Proofs.RenumberInverse.renumber_inverse. Qed.
Print Assumptions C17_renumber_inverse.

(** "[Ok] iff [Ok]": on a closed registry with ids = positions, generation with the real
    comparison succeeds iff it succeeds on the renumbered registry.  PARTIAL: the equivalence
    hypothesis [teq_equiv_on_families r]. *)
Theorem C17_generate_ok_iff_partial :
  forall pi r s,
    renumbering (N.of_nat (List.length r)) pi -> ids_consistent r = true -> closed r ->
    V.Model.DedupPerm.teq_equiv_on_families r ->
    ((exists m, generate r s (types_equal r) = Ok m) <->
     (exists m', generate (renumber pi r) s (types_equal (renumber pi r)) = Ok m')).
Proof. exact V.Proofs.RenumberInverse.generate_ok_iff_renumber. Qed.
Print Assumptions C17_generate_ok_iff_partial.
