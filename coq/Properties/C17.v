(** C17 - output depends only on the type graph (statements only). *)
From Coq Require Import List NArith String Bool.
From V Require Import Base.Strings Base.Result Model.Registry Model.Settings Model.Subst
  Model.TypePath Model.Derives Model.Generate Model.Emit Model.Equal Proofs.GenProofs Proofs.SortDedup.
Import ListNotations.

(** keep-first: the item at an occupied path is never replaced, whatever follows in the registry *)
Theorem C17_keep_first :
  forall r s teq flat l acc m p v,
    gen_loop r s teq flat l acc = Ok m -> items_get acc p = Some v -> items_get m p = Some v.
Proof. exact gen_loop_keeps. Qed.
Print Assumptions C17_keep_first.
