(** C13 — type descriptions are faithful to the registry and always terminate.
    Only statements, each closed by [exact]; proofs live in Proofs/DescribeProofs.v.

    Model: [describe r id] / [describe_fmt r id] of Model/Describe.v =
    [type_description(id, registry, false | true)].  [Err EOutOfFuel] is the
    model's rendering of unbounded recursion (stack overflow). *)
From Coq Require Import List NArith String.
From V Require Import Base.Util Base.Result Model.Registry Model.Format Model.Describe
  Model.DescribeSpec Model.AsciiSpec Model.Utf8Spec Proofs.FormatProofs Proofs.DescribeProofs Proofs.DescribeExpand
  Proofs.DescribeLockstep Proofs.DescribeFormatTokens Proofs.DescribeAscii Proofs.DescribeUtf8.
Import ListNotations.

(** *** Termination and success.
    [wf_descb r] (decidable, evaluated on every generated case as [hyp_wf]):
      - closed: every referenced id is below [length r];
      - the fields of every composite / variant are all named or all unnamed;
      - the edges followed without the in-progress marker -- element types of
        sequences / arrays / tuples / compact, generic arguments of a struct or
        enum with a path, bit store / order and the fields of a PATH-LESS
        composite / variant -- admit a rank function (the candidate is the
        height, checked by [rank_okb]).
    Cycles through fields of types with a path are allowed (all recursive Rust
    types).  The fuel is the one the model uses ([name_fuel], [desc_fuel]):
    the theorem says it never runs out, no error and no panic occurs, for the
    unformatted and the formatted call. *)
Theorem C13_total :
  forall r : registry, wf_descb r = true ->
  forall id : N, (id < N.of_nat (List.length r))%N ->
    exists s : string, describe r id = Ok s /\ describe_fmt r id = Ok (format_text s).
Proof. exact describe_fmt_total. Qed.
Print Assumptions C13_total.

(** the same for an arbitrary rank function as acyclicity witness *)
Theorem C13_total_any_rank :
  forall (r : registry) (rk : N -> N),
    closed_reg r = true -> fields_all_okb r = true -> rank_okb r rk = true ->
  forall id : N, (id < N.of_nat (List.length r))%N -> exists s : string, describe r id = Ok s.
Proof. exact describe_total_witness. Qed.
Print Assumptions C13_total_any_rank.

(** [Transformer::resolve] itself, from ANY cache state (not only the empty
    one): it succeeds and only extends the cache, provided the fuel exceeds
    (named ids not yet in the cache) * length + rank of the id. *)
Theorem C13_resolve_total :
  forall (r : registry) (rk : N -> N),
    closed_reg r = true -> fields_all_okb r = true -> rank_okb r rk = true ->
  forall nf : nat, (List.length r < nf)%nat ->
  forall (fuel : nat) (c : cache) (id : N),
    (id < N.of_nat (List.length r))%N ->
    (unmarked r c * List.length r + N.to_nat (rk id) < fuel)%nat ->
    exists (s : string) (c' : cache), dresolve r nf fuel c id = Ok (s, c') /\ ext c c'.
Proof. exact dresolve_total. Qed.
Print Assumptions C13_resolve_total.

(** [type_name_with_type_params] terminates without panicking *)
Theorem C13_name_total :
  forall (r : registry) (rk : N -> N),
    closed_reg r = true -> rank_okb r rk = true ->
  forall (fuel : nat) (id : N) (t : ty),
    resolve r id = Some t -> (N.to_nat (rk id) < fuel)%nat -> exists s, tname r fuel t = Ok s.
Proof. exact tname_total. Qed.
Print Assumptions C13_name_total.

(** *** Formatted = unformatted up to whitespace (corollary of C15), for every
    registry and id on which the description succeeds; stated on code points.
    The formatted text is the unformatted one with spaces / newlines inserted. *)
Theorem C13_format_ws :
  forall (r : registry) (id : N) (s : string) (l : list N),
    describe r id = Ok s -> describe_fmt r id = Ok l ->
    strip_ws l = strip_ws (utf8_decode s) /\ ws_ins (utf8_decode s) l.
Proof. exact describe_format_ws. Qed.
Print Assumptions C13_format_ws.

Theorem C13_format_same_outcome :
  forall (r : registry) (id : N),
    match describe r id with
    | Ok s => describe_fmt r id = Ok (format_text s)
    | Err e => describe_fmt r id = Err e
    | Panic m => describe_fmt r id = Panic m
    end.
Proof. exact describe_fmt_same_outcome. Qed.
Print Assumptions C13_format_same_outcome.

(** *** The expand-once-then-name policy, one [resolve] step (any registry).
    A type with a path that is in the cache (being written out, or written
    out) is referred to by its name and generic arguments, cache untouched: *)
Theorem C13_revisit_by_name :
  forall (r : registry) (nf f : nat) (c : cache) (id : N) (t : ty),
    resolve r id = Some t -> is_named t = true -> cache_mem c id = true ->
    dresolve r nf (S f) c id = (let* nm := tname r nf t in Ok (nm, c)).
Proof. exact dresolve_named_revisit. Qed.
Print Assumptions C13_revisit_by_name.

(** a first visit writes the type out in full: prefix, name, definition; the
    id is marked in progress while its definition is described and the text
    is cached afterwards *)
Theorem C13_first_visit_writes_out :
  forall (r : registry) (nf f : nat) (c : cache) (id : N) (t : ty) (s : string) (c' : cache),
    resolve r id = Some t -> cache_mem c id = false ->
    dresolve r nf (S f) c id = Ok (s, c') ->
    exists nm body c1,
      (if is_named t then tname r nf t else Ok ""%string) = Ok nm /\
      typedef_desc (dresolve r nf f) (cache_put c id CRec) (t_def t) = Ok (body, c1) /\
      s = (def_prefix (t_def t) ++ nm ++ body)%string /\
      c' = cache_put c1 id (CDone s).
Proof. exact dresolve_first_visit. Qed.
Print Assumptions C13_first_visit_writes_out.

(** a completed path-less id replays its cached text (why "exactly once" is false) *)
Theorem C13_unnamed_replay :
  forall (r : registry) (nf f : nat) (c : cache) (id : N) (t : ty) (s0 : string),
    resolve r id = Some t -> is_named t = false -> cache_get c id = Some (CDone s0) ->
    dresolve r nf (S f) c id = Ok (s0, c).
Proof. exact dresolve_unnamed_replay. Qed.
Print Assumptions C13_unnamed_replay.

(** *** Lockstep reading.  [spec_tree] (Model/DescribeSpec.v) is a reader of
    the REGISTRY written independently of the string functions of the model:
    it builds a description tree -- field names and order, variant names and
    order (field-less variants: the name only), primitive names, array
    lengths, tuple arity (one-element tuples keep the comma), Box<..> iff the
    recorded type name contains "Box<", Compact<..>, Vec<..>,
    BitSequence(order, store); a struct/enum already started is a reference
    by name and generic arguments ([_] for skipped parameters); a completed
    unnamed id yields the same subtree again.  [tokens] reads a TEXT as words
    and punctuation.  Theorem: the text of the model, tokenized, is exactly
    the atom sequence of that tree -- for every registry whose identifiers are
    words ([words_okb]) and whose paths sit on structs/enums only
    ([paths_only_on_items]; both evaluated on every generated case), and every
    id on which the description succeeds (with C13_total: every well-formed
    registry and id).  The same check is run on the OBSERVED unformatted and
    formatted texts as [prop_lockstep]. *)
Theorem C13_lockstep :
  forall (r : registry) (id : N) (s : string),
    words_okb r = true -> paths_only_on_items r = true ->
    describe r id = Ok s ->
    exists (tr : dtree) (st : sstate),
      spec_tree r (name_fuel r) (desc_fuel r) ([], []) id = Some (tr, st) /\
      tokens s = atoms tr.
Proof. exact describe_lockstep. Qed.
Print Assumptions C13_lockstep.

(** The formatted text reads the same way: the formatter preserves the token
    structure (words and punctuation) of ANY text, for every decision oracle --
    it puts whitespace only next to { } ( ) < > , and never splits or joins a
    word.  Stated with the same tokenizer on code points ([ctokens]), the form
    in which the model produces the formatted text. *)
Theorem C13_format_tokens :
  forall (r : registry) (id : N) (s : string) (l : list N),
    describe r id = Ok s -> describe_fmt r id = Ok l ->
    ctokens l = ctokens (utf8_decode s).
Proof. exact describe_format_ctokens. Qed.
Print Assumptions C13_format_tokens.

Theorem C13_formatter_preserves_tokens :
  forall (O : Type) (decide : O -> N -> N -> list N -> bool * O) (o : O) (input : list N),
    ctokens (format_with O decide o input) = ctokens input.
Proof. exact format_with_ctokens. Qed.
Print Assumptions C13_formatter_preserves_tokens.

(** *** The bridge between the byte tokenizer [tokens s] of C13_lockstep and the code-point
    tokenizer [ctokens (utf8_decode s)] of C13_format_tokens.
    [ctok_of_tok] reads a byte token as a code-point token (a word becomes the list of its
    bytes, a punctuation character its code; injective: [C13_ctok_of_tok_injective]).
    The two tokenizers agree on the BYTES of every text (all separators and punctuation are
    ASCII, so the two automata move in lockstep byte by byte): *)
Theorem C13_tokenizers_agree :
  forall s : string, ctokens (bytes_of_string s) = map ctok_of_tok (tokens s).
Proof. exact tokenizers_agree. Qed.
Print Assumptions C13_tokenizers_agree.

Theorem C13_ctok_of_tok_injective :
  forall a b : list tok, map ctok_of_tok a = map ctok_of_tok b -> a = b.
Proof. exact map_ctok_of_tok_inj. Qed.
Print Assumptions C13_ctok_of_tok_injective.

(** on ASCII-only texts ([asciib]: every byte below 128) the code points ARE the bytes, hence
    the code-point reading of the text is its byte reading *)
Theorem C13_utf8_decode_ascii :
  forall s : string, asciib s = true -> utf8_decode s = bytes_of_string s.
Proof. exact utf8_decode_ascii. Qed.
Print Assumptions C13_utf8_decode_ascii.

Theorem C13_ascii_bridge :
  forall s : string, asciib s = true ->
    utf8_decode s = bytes_of_string s /\ ctokens (utf8_decode s) = map ctok_of_tok (tokens s).
Proof. exact ascii_bridge. Qed.
Print Assumptions C13_ascii_bridge.

(** the description of a registry whose printed names (path segments, field and variant names)
    are ASCII ([ascii_regb]) is ASCII: every other character comes from a literal of
    description.rs, a primitive name or a decimal number *)
Theorem C13_description_ascii :
  forall (r : registry), ascii_regb r = true ->
  forall (id : N) (s : string), describe r id = Ok s -> asciib s = true.
Proof. exact describe_ascii. Qed.
Print Assumptions C13_description_ascii.

(** combined: for registries with ASCII names the FORMATTED description has exactly the atom
    sequence of the spec tree (C13_lockstep shows this for the unformatted text only).
    Non-ASCII identifiers: C13_formatted_lockstep_utf8 below (there the bytes of a word and
    its code points differ -- [utf8_decode_non_ascii] in Proofs/DescribeAscii.v). *)
Theorem C13_formatted_lockstep :
  forall (r : registry) (id : N) (s : string) (l : list N),
    words_okb r = true -> paths_only_on_items r = true -> ascii_regb r = true ->
    describe r id = Ok s -> describe_fmt r id = Ok l ->
    exists (tr : dtree) (st : sstate),
      spec_tree r (name_fuel r) (desc_fuel r) ([], []) id = Some (tr, st) /\
      ctokens l = map ctok_of_tok (atoms tr).
Proof. exact describe_formatted_lockstep. Qed.
Print Assumptions C13_formatted_lockstep.

(** *** ... and beyond ASCII.  [utf8_wfb] (Model/Utf8Spec.v): the byte list splits into single
    bytes below 128 and 2- / 3- / 4-byte sequences (by the lead byte, as the decoder reads
    them) whose bytes are all >= 128 and which decode to a code point >= 128 -- true of every
    valid UTF-8 text.  [dtok_of_tok] reads a byte token as a code-point token by DECODING the
    word.  On such texts decoding commutes with tokenization (no sequence contains or decodes
    to a separator or punctuation character): *)
Theorem C13_utf8_bridge :
  forall s : string, utf8_okb s = true -> ctokens (utf8_decode s) = map dtok_of_tok (tokens s).
Proof. exact utf8_bridge. Qed.
Print Assumptions C13_utf8_bridge.

(** the description of a registry whose printed names are well-formed UTF-8 is well-formed *)
Theorem C13_description_utf8 :
  forall (r : registry) (id : N) (s : string),
    utf8_regb r = true -> describe r id = Ok s -> utf8_okb s = true.
Proof. exact describe_utf8. Qed.
Print Assumptions C13_description_utf8.

Theorem C13_ascii_reg_is_utf8 : forall r : registry, ascii_regb r = true -> utf8_regb r = true.
Proof. exact ascii_reg_utf8. Qed.
Print Assumptions C13_ascii_reg_is_utf8.

(** combined: for every registry whose names are well-formed UTF-8 (what scale-info can carry:
    Rust identifiers are valid UTF-8) the FORMATTED description, read as code points, has the
    atom sequence of the spec tree with every word decoded *)
Theorem C13_formatted_lockstep_utf8 :
  forall (r : registry) (id : N) (s : string) (l : list N),
    words_okb r = true -> paths_only_on_items r = true -> utf8_regb r = true ->
    describe r id = Ok s -> describe_fmt r id = Ok l ->
    exists (tr : dtree) (st : sstate),
      spec_tree r (name_fuel r) (desc_fuel r) ([], []) id = Some (tr, st) /\
      ctokens l = map dtok_of_tok (atoms tr).
Proof. exact describe_formatted_lockstep_utf8. Qed.
Print Assumptions C13_formatted_lockstep_utf8.

(** *** Every type reachable from the id through fields, variants' fields and
    element types -- in particular every struct and enum -- is written out in
    full at least once: the text contains, as a substring, its prefix
    ("struct " / "enum "), its name with generic arguments and a description
    [body] of its definition (made by the same [typedef_desc], in some cache
    state).  Holds for EVERY registry and id on which the description
    succeeds; with C13_total: for every well-formed registry and id.
    ("Otherwise referred to by its name": C13_revisit_by_name.) *)
Theorem C13_expanded_at_least_once :
  forall (r : registry) (id : N) (s : string),
    describe r id = Ok s ->
    forall j : N, reach r id j ->
      exists (t : ty) (nm body : string) (f : nat) (c1 c2 : cache),
        resolve r j = Some t /\
        (if is_named t then tname r (name_fuel r) t else Ok ""%string) = Ok nm /\
        typedef_desc (dresolve r (name_fuel r) f) c1 (t_def t) = Ok (body, c2) /\
        infix (def_prefix (t_def t) ++ nm ++ body)%string s.
Proof. exact describe_expanded. Qed.
Print Assumptions C13_expanded_at_least_once.

(** the invariant of one [Transformer::resolve] call behind it (any registry,
    any cache state): the id is in the cache afterwards, the cache only grows,
    no id becomes "in progress", completed ids keep all their children in the
    cache, and an id that enters the cache during the call is written out
    inside the text of the call *)
Theorem C13_resolve_invariant :
  forall (r : registry) (nf fuel : nat) (c : cache) (id : N) (s : string) (c' : cache),
    dresolve r nf fuel c id = Ok (s, c') ->
    cache_mem c' id = true /\ ext c c' /\ shrinks_ip c c' /\
    (closed_done r c -> closed_done r c') /\
    (forall j, newly c c' j -> expanded r nf j s).
Proof. exact dresolve_inv. Qed.
Print Assumptions C13_resolve_invariant.
