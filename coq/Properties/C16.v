(** C16 — settings builders behave as set/map accumulators over any call history.
    Only statements, each closed by [exact]; proofs live in Proofs/BuildersProofs.v,
    Proofs/SortDedup.v, Proofs/StringOrder.v.  Model: Model/Builders.v ([op],
    [apply_op], [run_ops]); specifications: Model/BuildersSpec.v ([classify],
    [spec_rule], [spec_outcome], [spec_*_derives], written without reference to the model).
    All statements quantify over EVERY finite history [ops] (no length bound). *)
From Coq Require Import List NArith String Bool Permutation Sorted.
From V Require Import Base.Strings Model.Settings Model.Subst Model.Derives Model.Builders
  Model.BuildersSpec Proofs.StringOrder Proofs.SortDedup Proofs.BuildersProofs.
Import ListNotations.

(** After any history the rule stored for a source path [k] (identifiers only, generic
    arguments ignored) is given by the three-line specification [rule_step]: an accepted
    [insert] / [extend] element overwrites, [insert_if_not_exists] only fills an absent key,
    a rejected call changes nothing, a rejected [extend] keeps the elements before the
    rejected one. *)
Theorem C16_rule_for_key :
  forall (ops : list op) (k : list string),
    subs_get (b_subs (fst (run_ops ops))) k = spec_rule ops k.
Proof. exact rule_for_key. Qed.
Print Assumptions C16_rule_for_key.

(** The model's parser of one substitution is exactly the classification of the argument
    forms plus the rule value (key = identifiers of the source, target kept, parameter
    names of the source numbered by position). *)
Theorem C16_rejections_parse :
  forall s t : spath,
    parse_substitution s t =
    match classify s t with
    | Some e => inl e
    | None => inr (idents s, spec_value s t)
    end.
Proof. exact parse_substitution_spec. Qed.
Print Assumptions C16_rejections_parse.

(** The documented error kinds, exhaustively and in the order of the checks:
    not absolute -> ExpectedAbsolutePath; else an empty path -> EmptySubstitutePath; else
    source parenthesised -> ExpectedAngleBracketGenerics; else some source argument not a
    bare identifier -> InvalidFromType; else target parenthesised ->
    ExpectedAngleBracketGenerics; else some target argument not a type path ->
    InvalidToType; else accepted. *)
Theorem C16_rejections_kinds :
  forall s t : spath,
  (absolute t = false -> classify s t = Some SExpectedAbsolutePath) /\
  (absolute t = true -> no_segments s || no_segments t = true ->
   classify s t = Some SEmptySubstitutePath) /\
  (absolute t = true -> no_segments s || no_segments t = false ->
   parenthesised (final_args s) = true -> classify s t = Some SExpectedAngleBracketGenerics) /\
  (absolute t = true -> no_segments s || no_segments t = false ->
   parenthesised (final_args s) = false ->
   forallb (fun g => is_some (bare_ident g)) (angle_args (final_args s)) = false ->
   classify s t = Some SInvalidFromType) /\
  (absolute t = true -> no_segments s || no_segments t = false ->
   parenthesised (final_args s) = false ->
   forallb (fun g => is_some (bare_ident g)) (angle_args (final_args s)) = true ->
   parenthesised (final_args t) = true -> classify s t = Some SExpectedAngleBracketGenerics) /\
  (absolute t = true -> no_segments s || no_segments t = false ->
   parenthesised (final_args s) = false ->
   forallb (fun g => is_some (bare_ident g)) (angle_args (final_args s)) = true ->
   parenthesised (final_args t) = false ->
   forallb is_type_path (angle_args (final_args t)) = false -> classify s t = Some SInvalidToType) /\
  (absolute t = true -> no_segments s || no_segments t = false ->
   parenthesised (final_args s) = false ->
   forallb (fun g => is_some (bare_ident g)) (angle_args (final_args s)) = true ->
   parenthesised (final_args t) = false ->
   forallb is_type_path (angle_args (final_args t)) = true -> classify s t = None).
Proof. exact classify_kinds. Qed.
Print Assumptions C16_rejections_kinds.

(** A rejected [insert] / [insert_if_not_exists] returns the error and leaves the whole
    state (rules and derives) unchanged. *)
Theorem C16_rejected_insert_unchanged :
  forall (st : bstate) (s t : spath) (e : suberr),
    classify s t = Some e ->
    apply_op st (OpSubInsert s t) = (st, Some e) /\
    apply_op st (OpSubInsertIfAbsent s t) = (st, Some e).
Proof. exact rejected_insert_unchanged. Qed.
Print Assumptions C16_rejected_insert_unchanged.

(** [extend]: exactly the elements [ext_elems l] are inserted, in order, and nothing else
    changes; [ext_elems l] is the prefix of accepted elements before the first rejected one
    (empty if some target is relative, because the conversion of the targets to absolute
    paths precedes the call). *)
Theorem C16_rejected_extend_prefix :
  forall (st : bstate) (l : list (spath * spath)),
    apply_op st (OpSubExtend l) =
    (mk_bstate (b_dreg st)
               (fold_left (fun sb '(s, t) => subs_insert sb (idents s) (spec_value s t))
                          (ext_elems l) (b_subs st)),
     spec_outcome (OpSubExtend l))
    /\ exists rest, l = ext_elems l ++ rest /\
         Forall (fun p => classify (fst p) (snd p) = None) (ext_elems l) /\
         (forallb (fun p => absolute (snd p)) l = true ->
          match rest with [] => True | p :: _ => classify (fst p) (snd p) <> None end).
Proof. exact extend_exact_prefix. Qed.
Print Assumptions C16_rejected_extend_prefix.

(** The outcome returned by every call of a history depends on its arguments only. *)
Theorem C16_outcomes :
  forall ops : list op, snd (run_ops ops) = map spec_outcome ops.
Proof. exact run_ops_outcomes. Qed.
Print Assumptions C16_outcomes.

(** After any history the global / type-specific / recursive derive and attribute sets of
    the registry are the unions of the arguments of the corresponding calls
    ([side dr false] = type-specific map, [side dr true] = recursive map).
    Scope: this is the builder state.  That [flatten_recursive_derives] + [resolve] turn
    this state into "global + own path + recursive registrations of the ancestors" for
    every generated type is C08's theorem; for C16 it is checked on the implementation's
    output for every probe registry by [prop_derives_union] (Corr/RunC16.v), not proved here. *)
Theorem C16_derives_union :
  forall ops : list op,
  let dr := b_dreg (fst (run_ops ops)) in
  (forall x, In x (d_derives (dr_default dr)) <-> exists ds, In (OpDerivesAll ds) ops /\ In x ds) /\
  (forall x, In x (d_attrs (dr_default dr)) <-> exists a, In (OpAttrsAll a) ops /\ In x a) /\
  (forall rc key x, In x (d_derives (kmap_get_or_empty (side dr rc) key)) <->
                    exists k ds, In (OpDerivesFor k ds rc) ops /\ k_key k = key /\ In x ds) /\
  (forall rc key x, In x (d_attrs (kmap_get_or_empty (side dr rc) key)) <->
                    exists k a, In (OpAttrsFor k a rc) ops /\ k_key k = key /\ In x a).
Proof. exact derives_union_sets. Qed.
Print Assumptions C16_derives_union.

(** The same with the exact content (lists in call order) and the set of registered keys. *)
Theorem C16_derives_exact :
  forall ops : list op,
  let dr := b_dreg (fst (run_ops ops)) in
  d_derives (dr_default dr) = spec_default_derives ops /\
  d_attrs (dr_default dr) = spec_default_attrs ops /\
  forall rc key,
    d_derives (kmap_get_or_empty (side dr rc) key) = spec_key_derives rc key ops /\
    d_attrs (kmap_get_or_empty (side dr rc) key) = spec_key_attrs rc key ops /\
    is_some (kmap_get (side dr rc) key) = spec_key_registered rc key ops.
Proof. exact derives_after_history. Qed.
Print Assumptions C16_derives_exact.

(** Two histories whose derive / attribute calls are permutations of each other (whatever
    their substitute calls) give derive registries that are equal as finite maps of finite sets. *)
Theorem C16_order_irrelevant :
  forall ops1 ops2 : list op,
    Permutation (filter is_derive_op ops1) (filter is_derive_op ops2) ->
    dreg_equiv (b_dreg (fst (run_ops ops1))) (b_dreg (fst (run_ops ops2))).
Proof. exact order_irrelevant. Qed.
Print Assumptions C16_order_irrelevant.

(** ... and the emitted tokens are EQUAL (hypothesis: a derive's key - its token string -
    determines its tokens; satisfiable: [BuildersExamples.ex_perm_hyps]). *)
Theorem C16_order_irrelevant_emission :
  forall ops1 ops2 : list op,
    key_functional (history_args ops1) ->
    Permutation (filter is_derive_op ops1) (filter is_derive_op ops2) ->
    let dr1 := b_dreg (fst (run_ops ops1)) in
    let dr2 := b_dreg (fst (run_ops ops2)) in
    derives_tokens (dr_default dr1) = derives_tokens (dr_default dr2) /\
    forall key,
      derives_tokens (kmap_get_or_empty (dr_specific dr1) key)
      = derives_tokens (kmap_get_or_empty (dr_specific dr2) key) /\
      derives_tokens (kmap_get_or_empty (dr_recursive dr1) key)
      = derives_tokens (kmap_get_or_empty (dr_recursive dr2) key).
Proof. exact order_irrelevant_emission. Qed.
Print Assumptions C16_order_irrelevant_emission.

(** Sorted duplicate-free emission is canonical: strictly sorted by key, and a function of
    the input read as a set (also used by C06). *)
Theorem C16_sort_dedup_canonical :
  (forall l : list kt, StronglySorted str_lt (map fst (sort_dedup l))) /\
  (forall (l : list kt) k, In k (map fst (sort_dedup l)) <-> In k (map fst l)) /\
  (forall l1 l2 : list kt,
     (forall k, In k (map fst l1) <-> In k (map fst l2)) ->
     map fst (sort_dedup l1) = map fst (sort_dedup l2)) /\
  (forall l1 l2 : list kt,
     key_functional (l1 ++ l2) -> (forall x, In x l1 <-> In x l2) -> sort_dedup l1 = sort_dedup l2).
Proof.
  exact (conj sort_dedup_sorted (conj sort_dedup_keys (conj sort_dedup_keys_canonical sort_dedup_canonical))).
Qed.
Print Assumptions C16_sort_dedup_canonical.

(** [String.compare] is a strict order (missing from the 8.16 standard library). *)
Theorem C16_string_compare_trans :
  forall a b c : string,
    String.compare a b = Lt -> String.compare b c = Lt -> String.compare a c = Lt.
Proof. exact str_compare_lt_trans. Qed.
Print Assumptions C16_string_compare_trans.
