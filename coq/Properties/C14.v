(** C14 — Rust value examples conform to the generated type definitions.
    Only statements, each closed by [exact]; proofs live in Proofs/.

    FULL statement aimed at (DESIGN.md section 6, C14):

      C14_total : for every registry [r] without bit sequences and 256-bit
        integers that is closed, has ids = positions, valid identifiers, paths
        of clause 4 and an acyclic non-field graph (type parameters, sequence /
        array / tuple elements, compact inner), every settings [s], id and word
        stream: [example_rust r s id ws] is [XOk _] or [XErr e] with
        [e <> XOutOfFuel]; never [XPanic].

      C14_conforms : [example_rust r s id ws = XOk e] ->
        [conformsb r root (parse (generate r s)) (paths r s) id e = true]
        for skeleton-consistent [r].

    UPDATE: [C14_total] (end of this file) is now proved WITHOUT the hypothesis [tg_total]:
    the three hypotheses of [C14_total_partial] are derived (Proofs/ExampleRustTotal.v) from the
    class the typegen totality theorems of C10 are stated on ([generable], implied by the
    run-time booleans [wf_regb r && supportedb r s]).  Bit sequences need NOT be excluded (their
    example is a constant); 256-bit integers are excluded by [wf_regb] ([entry_wfb]), because
    printing a path that contains one hits [unimplemented!] in the type generator.
    [C14_total_partial] is kept (it applies to registries outside the C10 class).

    What is PROVED below (universally, by induction on the two fuels and on
    the structure of field lists; no evaluation of samples):

      [C14_total_partial] = C14_total with the totality of the two calls into
      the TYPE GENERATOR ([resolve_type_path] + token printing,
      [create_type_ir]) taken as the hypothesis [tg_total r s] instead of being
      derived from the well-formedness clauses.  [tg_total] is a statement about
      the typegen model only (it is the content of C10's totality theorem, not
      yet available in this development); it is decidable and is EVALUATED on
      every generated case ([prop_total_in_class] evaluates the conclusion on
      every in-class case, [hyp_total_hyps] counts them).  Everything that
      belongs to rust_value.rs / transformer.rs is proved: the cache invariant
      (a finished [resolve] leaves the in-progress set unchanged), the bound on
      the nesting of [resolve] by the number of entries, the termination of the
      marker-bypassing sequence / array arms and of [type_def_is_copy] along
      ranked edges, the absence of [format_ident!] / [unwrap] / [expect] panics.
      Closedness and "ids = positions" turn out not to be needed: a dangling id
      is a documented error.  [XOutOfWords] (the finite word list handed to the
      model was too short) counts as an error outcome of the MODEL; the
      implementation draws from an infinite stream.

      UPDATE 2: C14_conforms IS NOW PROVED for the model, against the model's GENERATED ITEMS
      (the IR map returned by [generate], which [Model/Emit.v] prints) instead of the parsed
      token text: [Model.Conforms.conforms r s m id ts rest] is an inductive relation ("[ts] is an
      instance of the type generated for [id], followed by [rest]") and [C14_conforms] (end of
      this file) states: [generate r s teq = Ok m -> skeleton_consistent r s ->
      example_rust r s id ws = XOk ts -> conforms r s m id ts []] -- for EVERY registry (no
      well-formedness hypothesis is needed: an [XOk] outcome presupposes everything; bit
      sequences and 256-bit integers are covered by their fixed forms), id, word list and
      settings.  [skeleton_consistent] (DESIGN 3.3) excludes F15; without it the statement is
      false (the marker is decided on the instantiation, the item is the first entry's).
      [Cow] entries (F14, fixed) are instances of their parameter.
      AT THAT TIME ONLY CHECKED (superseded by UPDATE 3 below, which proves the direction
      relation => reader): that the relation on the model's IR coincides with what the
      independent reader [Corr.RunC14.conformsb] decides on the PARSED OBSERVED module, i.e. the
      passage through [emit_module] + [parse_module].  It is tied down by a proved-sound boolean
      reader for the relation ([conforms_irb], [C14_conforms_irb_sound]) whose verdict is compared
      with [conformsb] on every observed example (tag [corr_conforms_agree]); [prop_conforms]
      still evaluates [conformsb] on every observed example.

      UPDATE 3: the passage through [emit_module] + [parse_module] IS NOW PROVED (end of this file,
      Proofs/ConformsTokens.v, Proofs/ConformsCase.v): inside the decidable scope [reader_scopeb]
      the relation on the IR implies acceptance by the independent reader [conformsb] run on
      [parse_module] of the model's emission and on the model's resolved paths
      ([C14_conformsb_of_ir]); every Ok example of the model is accepted ([C14_conforms_tokens]);
      on a case whose observed module / paths / examples equal the model's, [prop_conforms] holds
      ([C14_prop_conforms_of_corr]).  The scope is necessary ([C14_reader_scope_clauses_needed]):
      the reader is stricter than the relation e.g. on [Cow<Cow<T>>] (fuel) and on a field called
      [__ignore].  The converse (reader accepts => relation) is not proved; on the F15 witness both
      refuse ([C14_F15_refused_by_reader]).  The run evaluates the hypotheses of
      [C14_prop_conforms_of_corr] on every case (harness/src/c14.rs: tags [corr_module],
      [corr_model_paths], [hyp_reader_scope], defined in Proofs/ConformsCase.v), so on an in-scope
      case a [prop_conforms] failure can only appear together with a failing correspondence tag;
      [corr_conforms_agree] is kept.

      UPDATE 4 (specification strengthened): the array REPEAT form [[ e ; <n>usize ]] used to be accepted
      for ANY element type by the relation, by [conforms_irb] and by the token-level reader.  In Rust
      a repeat expression with n >= 2 is a value of [[T; n]] only if [T : Copy]; a seeded bug that made
      [(String, u32)] count as copy printed [[("Fizz".into(), 3u32,); 3usize]] and was seen only by the
      model/implementation comparison [corr_example], not by [prop_conforms].  Now all three demand
      [n <= 1 \/ copy_ty .. elem = true] for the repeat form, where [Model.Conforms.copy_ty] is a predicate
      on the REGISTRY alone (primitive other than str; array of ANY length / tuple / compact of copy;
      composite, variant, sequence, bit sequence: no), independent of the implementation's heuristic.
      NO pinned statement above changed textually ([conforms] is referenced by name; all were
      re-proved: [C14_conforms] via [C14_model_copy_is_copy]).  New at the end of this file:
      [C14_model_copy_is_copy], [C14_repeat_needs_copy], [C14_repeat_needs_copy_tokens],
      [C14_repeat_examples], [C14_copy_tyb_iff], [C14_copy_ty_fuel], [C14_reader_repeat_needs_copy],
      [C14_reader_refuses_repeat].

    Determinism: [example_rust] is a Gallina function of (r, s, id, ws). *)
From Coq Require Import List NArith ZArith String.
From V Require Import Base.Result Model.Registry Model.Settings Model.RngWords Model.Generate Model.Equal
  Model.Shape Model.ExampleRust Model.Conforms
  Model.WellFormed Proofs.ExampleRustProofs Proofs.ExampleRustTotal Proofs.ConformsProofs
  Proofs.ConformsExamples.
(* [Require] without [Import]: the names of the pinned statements above keep their meaning; the
   statements added at the end of this file use qualified names *)
From V Require Proofs.CopyTy Proofs.ConformsRepeat.
From V Require Model.Emit Checkers.Parse Model.Unparse Corr.RunTG Corr.RunC14
  Proofs.ConformsTokens Proofs.ConformsTokensExamples Proofs.ConformsCase.
Import ListNotations.

Theorem C14_total_partial :
  forall (r : registry) (s : settings) (rk : N -> nat),
    ExampleRustProofs.ranked r rk ->          (* element edges strictly decrease a rank bounded by the number of entries *)
    names_lex r ->          (* field and variant names are lexically identifiers *)
    tg_total r s ->         (* the type generator neither panics nor diverges on the struct / enum entries *)
    forall (id : N) (ws : words),
      match example_rust r s id ws with
      | XPanic _ => False
      | XErr XOutOfFuel => False
      | _ => True
      end.
Proof. exact example_total. Qed.
Print Assumptions C14_total_partial.

(** the same theorem with the hypotheses as boolean checkers that are
    evaluated on concrete registries ([rk] lists one rank per position); the
    hypotheses are satisfiable: [Proofs.ExampleRustProofs.demo_hypotheses]
    evaluates them to [true] on a registry with a struct that is recursive
    through a Vec field, a generic unit struct with an unused parameter, an
    enum, an array of tuples and an explicit compact field *)
Theorem C14_total_checked_partial :
  forall (r : registry) (s : settings) (rk : list nat),
    rankedb r rk = true -> names_lexb r = true -> tg_totalb r s = true ->
    forall (id : N) (ws : words),
      match example_rust r s id ws with
      | XPanic _ => False
      | XErr XOutOfFuel => False
      | _ => True
      end.
Proof. exact example_total_b. Qed.
Print Assumptions C14_total_checked_partial.

Theorem C14_hypotheses_satisfiable :
  exists (r : registry) (s : settings) (rk : list nat),
    rankedb r rk = true /\ names_lexb r = true /\ tg_totalb r s = true /\
    (exists id ws e, example_rust r s id ws = XErr e) /\
    (exists id ws t, example_rust r s id ws = XOk t).
Proof. exact hypotheses_satisfiable. Qed.
Print Assumptions C14_hypotheses_satisfiable.

(** determinism is by construction: equal inputs give equal outputs *)
Theorem C14_deterministic :
  forall (r : registry) (s : settings) (id : N) (ws ws' : words),
    ws = ws' -> example_rust r s id ws = example_rust r s id ws'.
Proof. exact example_deterministic. Qed.
Print Assumptions C14_deterministic.

(** a recursive visit is an error, not a crash: the in-progress marker *)
Theorem C14_recursion_is_error :
  forall (r : registry) (s : settings) (fo : nat) (id : N) (t : ty) (c : cache) (ws : words),
    lookup r id = Some t -> cache_get c id = Some CRecursive ->
    resolve_go r s (S fo) id (c, ws) = XErr (XRecursive id).
Proof. exact resolve_in_progress_is_error. Qed.
Print Assumptions C14_recursion_is_error.

(** ** C14_total, unconditional.  [generable r s rank] (Model/WellFormed.v; the class of
    C10_total): ids = positions; closed; [rank] strictly decreases along the non-field edges
    (typed type parameters, sequence / array / tuple elements, compact inner, bit store / order)
    and is bounded by the number of entries; every Composite / Variant entry has a >= 2 segment
    path of [ident_okb] segments or a 1 segment prelude path, [ident_okb] field / variant names
    and all-named-or-all-unnamed field lists; a last path segment [Cow] comes with a typed first
    parameter; no U256 / I256 primitive; the settings have a compact (bits) path whenever a
    Compact (BitSequence) entry exists.  Bit sequences are allowed.
    Conclusion: for EVERY id (dangling ids included) and EVERY word list the example is [XOk _]
    or a documented error; never a panic, never fuel exhaustion. *)
Theorem C14_total_generable :
  forall (r : registry) (s : settings) (rank : N -> nat),
    generable r s rank ->
    forall (id : N) (ws : words),
      match example_rust r s id ws with
      | XPanic _ => False
      | XErr XOutOfFuel => False
      | _ => True
      end.
Proof. exact example_total_generable. Qed.
Print Assumptions C14_total_generable.

(** the same on the run-time booleans evaluated on every generated case ([hyp_wf]) *)
Theorem C14_total :
  forall (r : registry) (s : settings),
    wf_regb r = true -> supportedb r s = true ->
    forall (id : N) (ws : words),
      match example_rust r s id ws with
      | XPanic _ => False
      | XErr XOutOfFuel => False
      | _ => True
      end.
Proof. exact example_total_wf. Qed.
Print Assumptions C14_total.

(** the hypothesis of [C14_total_partial] that used to be assumed *)
Theorem C14_tg_total :
  forall (r : registry) (s : settings) (rank : N -> nat), generable r s rank -> tg_total r s.
Proof. exact tg_total_generable. Qed.
Print Assumptions C14_tg_total.

Theorem C14_total_hypotheses_satisfiable :
  exists (r : registry) (s : settings),
    wf_regb r = true /\ supportedb r s = true /\
    (exists id ws e, example_rust r s id ws = XErr e) /\
    (exists id ws t, example_rust r s id ws = XOk t).
Proof. exact wf_hypotheses_satisfiable. Qed.
Print Assumptions C14_total_hypotheses_satisfiable.

(** ** C14_conforms (lockstep half), for the model, against the generated items.

    [conforms r s m id ts rest] (Model/Conforms.v, an inductive relation; [m] = the generated
    items): [ts = e ++ rest] where [e] is an instance of the type the generator emits for [id]:
    - struct / variant literal: the generated path of [id] without generics
      ([path_omit_generics] = [resolve_type_path] + printing, cut at the first top-level '<'); if
      the entry is turned into an item ([item_eligible]) the item is LOOKED UP in [m] at the entry's
      path and the literal has the ITEM's field names in the item's order / the item's arity, plus the
      [__ignore : ::core::marker::PhantomData] / positional [::core::marker::PhantomData] slot
      exactly when the item has unused type parameters ([ti_unused] non-empty); a variant literal
      names a variant of the registry entry that the item also has, with that item variant's
      fields and no marker; every field value is an instance of the registry field's type;
    - no generated item (prelude / substituted path): the registry definition's form, marker
      optional; [None] for a field-less [None] variant when the printed path is the bare [Option];
    - [Cow<T>]: an instance of [T]; compact entries: an instance of the inner type;
    - literals: [<n>u8 .. u128] with [n < 2^bits]; signed [- <n>iN] / [<n>iN] in range; [true] /
      [false]; ['c']; ["..." . into ( )]; 256-bit integers as 32 [u8] literals in brackets;
    - tuples [( e1 , .. , en , )] of exactly the tuple's arity (1-tuple [( e , )]); arrays:
      exactly [len] comma-separated elements, or [[ e ; <len>usize ]] PROVIDED [len <= 1] or the
      element type is [Copy] ([copy_tyb], see the end of this file); [vec ! [ e , .. ]] of any length;
    - [Compact ( e )] exactly around fields whose recorded type name starts with "Compact<".

    Quantifier: EVERY registry, settings, [types_equal] oracle, id and word list such that the
    module is generated ([generate .. = Ok m]) and same-path entries have equal skeletons
    ([skeleton_consistent], DESIGN 3.3 -- excludes the known finding F15; trivially true when item
    paths are unique and each IR is built).  Bit sequences and 256-bit integers need not be excluded. *)
Theorem C14_conforms :
  forall (r : registry) (s : settings) (teq : N -> N -> result bool) (m : items),
    generate r s teq = Ok m -> skeleton_consistent r s ->
    forall (id : N) (ws : words) (ts : tokens),
      example_rust r s id ws = XOk ts -> conforms r s m id ts [].
Proof. exact example_conforms. Qed.
Print Assumptions C14_conforms.

(** the same with the hypotheses as the run-time booleans / the real [types_equal] *)
Theorem C14_conforms_checked :
  forall (r : registry) (s : settings) (m : items),
    generate r s (types_equal r) = Ok m -> skeleton_consistentb r s = true ->
    forall (id : N) (ws : words) (ts : tokens),
      example_rust r s id ws = XOk ts -> conforms r s m id ts [].
Proof. exact example_conforms_checked. Qed.
Print Assumptions C14_conforms_checked.

(** the boolean reader that is run on every OBSERVED example next to the independent reader
    ([corr_conforms_agree]) is sound for the relation *)
Theorem C14_conforms_irb_sound :
  forall (r : registry) (s : settings) (m : items) (id : N) (ts : tokens),
    conforms_irb r s m id ts = true -> conforms r s m id ts [].
Proof. exact conforms_irb_sound. Qed.
Print Assumptions C14_conforms_irb_sound.

Theorem C14_conf_ir_sound :
  forall (r : registry) (s : settings) (m : items) (fuel : nat) (id : N) (ts rest : tokens),
    conf_ir r s m fuel id ts = Some rest -> conforms r s m id ts rest.
Proof. exact conf_ir_sound. Qed.
Print Assumptions C14_conf_ir_sound.

(** the item consulted for an item-eligible entry has the signature of the entry's OWN IR (the one
    [has_unused_type_params] looks at): the step that needs [skeleton_consistent] (F15) *)
Theorem C14_item_of_entry :
  forall (r : registry) (s : settings) (teq : N -> N -> result bool) (m : items),
    generate r s teq = Ok m -> skeleton_consistent r s ->
    forall (id : N) (X : ty), In (id, X) r -> item_eligible s X = true ->
    exists (id0 : N) (ir0 irX : type_ir),
      items_get m (t_path X) = Some (id0, ir0) /\
      create_type_ir r s X flat0 = Ok (Some irX) /\
      sig_of_ir ir0 = sig_of_ir irX.
Proof. exact item_of_entry. Qed.
Print Assumptions C14_item_of_entry.

(** non-vacuity: the hypotheses hold on a registry with an unused-parameter struct, and the
    conclusion is inhabited by an example that carries the marker (Proofs/ConformsExamples.v also
    evaluates the reader on a variant, a 1-tuple, arrays, a Compact field, a sequence, [Option],
    and on near misses that must be rejected) *)
Theorem C14_conforms_nonvacuous :
  exists (r : registry) (s : settings) (m : items) (id : N) (ws : words) (ts : tokens),
    generate r s (types_equal r) = Ok m /\ skeleton_consistent r s /\
    example_rust r s id ws = XOk ts /\ In "PhantomData"%string ts /\ conforms r s m id ts [].
Proof. exact conforms_nonvacuous. Qed.
Print Assumptions C14_conforms_nonvacuous.

(** the hypothesis [skeleton_consistent] cannot be dropped: the registry of the known finding F15
    (corpus/C14/F15_marker_per_instance.json) is generated without error, yet the example of its
    second same-path entry is not an instance (it lacks the marker the stored item declares) *)
Theorem C14_conforms_needs_consistency :
  exists (r : registry) (s : settings) (m : items) (id : N) (ws : words) (ts : tokens),
    generate r s (types_equal r) = Ok m /\ skeleton_consistentb r s = false /\
    example_rust r s id ws = XOk ts /\ ~ conforms r s m id ts [].
Proof. exact conforms_needs_consistency. Qed.
Print Assumptions C14_conforms_needs_consistency.

(** the literal path of an item-eligible entry ("the generated path without generics") is the
    location of the item in the module, [root :: <entry path>] -- the key [conforms] looks up *)
Theorem C14_literal_path :
  forall (r : registry) (s : settings) (id : N) (X : ty) (p : tokens),
    resolve r id = Some X -> item_eligible s X = true ->
    path_ident (t_path X) <> Some "Cow"%string ->
    Strings.ident_lexb (s_root s) = true ->
    path_omit_generics r s id = Ok p -> p = TypePath.rel_path (s_root s :: t_path X).
Proof. exact eligible_literal_path. Qed.
Print Assumptions C14_literal_path.

(** without any consistency hypothesis when no two item-eligible entries share a path *)
Theorem C14_conforms_unique_paths :
  forall (r : registry) (s : settings) (teq : N -> N -> result bool) (m : items),
    generate r s teq = Ok m ->
    (forall (id : N) (X : ty) (id' : N) (X' : ty), In (id, X) r -> In (id', X') r ->
       item_eligible s X = true -> item_eligible s X' = true -> t_path X = t_path X' -> X = X') ->
    forall (id : N) (ws : words) (ts : tokens),
      example_rust r s id ws = XOk ts -> conforms r s m id ts [].
Proof. exact example_conforms_unique. Qed.
Print Assumptions C14_conforms_unique_paths.

(** ** C14_conforms, token level: the relation on the IR agrees with the INDEPENDENT reader.

    [Corr.RunC14.conformsb r root pm paths id ts] is the token-level reader the harness runs on every
    observed example ([prop_conforms]): it walks [ts] in lockstep with the registry [r], the PARSED
    module [pm : option pmod] and the resolved paths [paths]; it shares no code with the model.
    Here it is instantiated with the model's own outputs: [pm] = [Checkers.Parse.parse_module] of the
    tokens [Model.Emit.emit_module] prints for the generated items (by [C02_emit_parses] this is
    [Some (pmod_of_items s m)]), [paths] = [model_paths r s] = the model's [resolve_type_path] +
    printing of every id by position (what [Corr.RunTG.corr_paths] compares with the observed paths).

    [reader_scopeb r s m] (Proofs/ConformsTokens.v, decidable; EVERY clause is necessary, see the
    witnesses [C14_reader_scope_clauses_needed]): the reader is stricter than the relation in corners
    that the relation leaves open --
    - the root ident is lexically an identifier;
    - [Cow] directly inside [Cow] (through compact wrappers) does not occur: the reader's fuel is the
      number of tokens + 1 and a [Cow] level consumes fuel without consuming a token;
    - an enum is not called [Cow] (the resolver would collapse it to its parameter);
    - the variant names of an enum are pairwise distinct (both sides take the FIRST variant of a name;
      the relation lets any be chosen);
    - the literal path of an entry without a generated item (prelude / substituted) is non-empty, does
      not start with the tokens []] / [None], and does not name something under the root module;
    - a path printed as the bare [Option] belongs to an entry whose registry path is [Option] (the
      reader accepts [None] only there);
    - no named field of a generated item is called [__ignore] and no positional field has a type whose
      last segment is [PhantomData] (the reader recognises the marker slot by these).
    Token condition: [~ In empty_str_lit ts] -- the relation allows the string literal [""] (all of
    its zero characters are alphanumeric), the reader's [quoted] wants a character between the quotes. *)
Theorem C14_conformsb_of_ir :
  forall (r : registry) (s : settings) (teq : N -> N -> result bool) (m : items) (toks : tokens),
    generate r s teq = Ok m -> skeleton_consistent r s ->
    ConformsTokens.reader_scopeb r s m = true ->
    Unparse.items_plain s m = true -> Emit.emit_module s m = Ok toks ->
    forall (id : N) (ts : tokens),
      conforms r s m id ts [] -> ~ In ConformsTokens.empty_str_lit ts ->
      RunC14.conformsb r (s_root s) (Parse.parse_module toks) (ConformsTokens.model_paths r s) id ts = true.
Proof. exact ConformsTokens.conformsb_of_ir. Qed.
Print Assumptions C14_conformsb_of_ir.

(** the same for the reader's fuelled core [conf], for every remainder [rest] that does not open a
    group and every fuel above the number of tokens read, on the tree [pmod_of_items s m] *)
Theorem C14_conf_of_ir :
  forall (r : registry) (s : settings) (teq : N -> N -> result bool) (m : items),
    generate r s teq = Ok m -> skeleton_consistent r s ->
    ConformsTokens.reader_scopeb r s m = true ->
    forall (id : N) (ts rest : tokens),
      conforms r s m id ts rest -> Unparse.hd_is "(" rest = false ->
      ~ In ConformsTokens.empty_str_lit ts ->
      forall fuel : nat, (List.length ts + 1 <= fuel + List.length rest)%nat ->
      RunC14.conf r (s_root s) (Some (Unparse.pmod_of_items s m)) (ConformsTokens.model_paths r s) fuel id ts
      = Some rest.
Proof. exact ConformsTokens.conf_of_conforms. Qed.
Print Assumptions C14_conf_of_ir.

(** the model never prints the empty string literal, provided no literal path contains that token
    ([literal_paths_plainb r s]: for every position [i], [path_omit_generics r s i = Ok p] implies
    [""] is not among [p]; path tokens are identifiers and punctuation in practice) *)
Theorem C14_example_no_empty_literal :
  forall (r : registry) (s : settings),
    ConformsTokens.literal_paths_plainb r s = true ->
    forall (id : N) (ws : words) (ts : tokens),
      example_rust r s id ws = XOk ts -> ~ In ConformsTokens.empty_str_lit ts.
Proof. exact ConformsTokens.example_no_empty_lit. Qed.
Print Assumptions C14_example_no_empty_literal.

(** ** C14_conforms_tokens: every Ok example of the model is accepted by the token-level reader run on
    the parse of the model's own emission and on the model's resolved paths
    ([C14_conforms] + [C14_conformsb_of_ir] + [C02_emit_parses] + [C14_example_no_empty_literal]).
    With the run-time [corr_example] (observed example tokens = model tokens), [corr_gen] (observed
    module tokens = model tokens) and [corr_paths] (observed paths = model paths) this makes the
    verdict of [prop_conforms] on a case inside the scope a consequence of theorems about the model.
    Quantifier: every registry, settings, [types_equal] oracle, id, word list such that the module
    is generated, same-path entries have equal skeletons (excludes F15), the reader scope and
    [literal_paths_plainb] hold, the items are plain (scope of [C02_emit_parses]) and emission succeeds. *)
Theorem C14_conforms_tokens :
  forall (r : registry) (s : settings) (teq : N -> N -> result bool) (m : items) (toks : tokens),
    generate r s teq = Ok m -> skeleton_consistent r s ->
    ConformsTokens.reader_scopeb r s m = true ->
    ConformsTokens.literal_paths_plainb r s = true ->
    Unparse.items_plain s m = true -> Emit.emit_module s m = Ok toks ->
    forall (id : N) (ws : words) (ts : tokens),
      example_rust r s id ws = XOk ts ->
      RunC14.conformsb r (s_root s) (Parse.parse_module toks) (ConformsTokens.model_paths r s) id ts = true.
Proof. exact ConformsTokens.conforms_tokens_full. Qed.
Print Assumptions C14_conforms_tokens.

(** non-vacuity: all hypotheses hold on the registry of Proofs/ConformsExamples.v (unit struct and
    named struct with an unused parameter, enum, 1-tuple, arrays, Compact field, sequence, prelude
    [Option]); Proofs/ConformsTokensExamples.v also evaluates the reader on the parse of the emitted
    tokens for all 14 examples ([cdemo_all_read]) and on corrupted examples ([cdemo_corrupted]) *)
Theorem C14_conforms_tokens_nonvacuous :
  exists (r : registry) (s : settings) (m : items) (toks : tokens) (id : N) (ws : words) (ts : tokens),
    generate r s (types_equal r) = Ok m /\ skeleton_consistent r s /\
    ConformsTokens.reader_scopeb r s m = true /\
    ConformsTokens.literal_paths_plainb r s = true /\
    Unparse.items_plain s m = true /\ Emit.emit_module s m = Ok toks /\
    example_rust r s id ws = XOk ts /\ In "PhantomData"%string ts /\
    RunC14.conformsb r (s_root s) (Parse.parse_module toks) (ConformsTokens.model_paths r s) id ts = true.
Proof. exact ConformsTokensExamples.conforms_tokens_nonvacuous. Qed.
Print Assumptions C14_conforms_tokens_nonvacuous.

(** the clauses of the scope / the token condition cannot be dropped: (1) [Cow<Cow<u8>>] -- generated,
    consistent, the model's example [5u8] is an instance, the reader refuses it (fuel); (2) a struct
    field called [__ignore]; (3) the empty string literal inside the scope *)
Theorem C14_reader_scope_clauses_needed :
  (exists (r : registry) (s : settings) (m : items) (id : N) (ws : words) (ts : tokens),
     generate r s (types_equal r) = Ok m /\ skeleton_consistentb r s = true /\
     ConformsTokens.reader_scopeb r s m = false /\ example_rust r s id ws = XOk ts /\ conforms r s m id ts [] /\
     RunC14.conformsb r (s_root s) (Some (Unparse.pmod_of_items s m)) (ConformsTokens.model_paths r s) id ts = false /\
     ts = ["5u8"%string]) /\
  (exists (r : registry) (s : settings) (m : items) (id : N) (ws : words) (ts : tokens),
     generate r s (types_equal r) = Ok m /\ skeleton_consistentb r s = true /\
     ConformsTokens.reader_scopeb r s m = false /\ example_rust r s id ws = XOk ts /\ conforms r s m id ts [] /\
     RunC14.conformsb r (s_root s) (Some (Unparse.pmod_of_items s m)) (ConformsTokens.model_paths r s) id ts = false /\
     In "__ignore"%string ts) /\
  (exists (r : registry) (s : settings) (m : items) (id : N) (ts : tokens),
     generate r s (types_equal r) = Ok m /\ ConformsTokens.reader_scopeb r s m = true /\
     In ConformsTokens.empty_str_lit ts /\ conforms r s m id ts [] /\
     RunC14.conformsb r (s_root s) (Some (Unparse.pmod_of_items s m)) (ConformsTokens.model_paths r s) id ts = false).
Proof. exact ConformsTokensExamples.reader_scope_clauses_needed. Qed.
Print Assumptions C14_reader_scope_clauses_needed.

(** converse direction on the F15 witness: where [skeleton_consistent] fails, the model's example of
    the second same-path entry is not an instance AND is refused by the token-level reader on the
    parse of the model's emission (the reader scope holds on this registry) *)
Theorem C14_F15_refused_by_reader :
  exists (r : registry) (s : settings) (m : items) (toks : tokens) (id : N) (ws : words) (ts : tokens),
    generate r s (types_equal r) = Ok m /\ skeleton_consistentb r s = false /\
    ConformsTokens.reader_scopeb r s m = true /\ Emit.emit_module s m = Ok toks /\
    example_rust r s id ws = XOk ts /\ ~ conforms r s m id ts [] /\
    RunC14.conformsb r (s_root s) (Parse.parse_module toks) (ConformsTokens.model_paths r s) id ts = false.
Proof. exact ConformsTokensExamples.f15_refused_by_reader. Qed.
Print Assumptions C14_F15_refused_by_reader.

(** ** [prop_conforms] on a case is a consequence of the correspondence booleans.
    [RunC14.prop_conforms c] is the property checker of the harness: the token-level reader on the parse
    of the OBSERVED module ([c_gen]), the OBSERVED paths ([c_paths]) and every OBSERVED Ok example.
    If the observed module, paths and examples are the model's ([corr_module], [corr_model_paths]
    -- Proofs/ConformsCase.v, the C14 analogues of [RunTG.corr_gen] / [RunTG.corr_paths] --, and
    [RunC14.corr_example]) and the case is in the scope of [C14_conforms_tokens]
    ([hyp_reader_scope c]: the model generates; [skeleton_consistentb], [reader_scopeb],
    [literal_paths_plainb], [items_plain] hold), then [prop_conforms c = true]: a violation of
    [prop_conforms] on such a case can only come with a failing [corr_*] tag (model and
    implementation differ) -- the reader is no longer separately trusted there. *)
Theorem C14_prop_conforms_of_corr :
  forall c : RunC14.case,
    ConformsCase.hyp_reader_scope c = true ->
    ConformsCase.corr_module c = true -> ConformsCase.corr_model_paths c = true ->
    RunC14.corr_example c = true ->
    RunC14.prop_conforms c = true.
Proof. exact ConformsCase.prop_conforms_of_corr. Qed.
Print Assumptions C14_prop_conforms_of_corr.

(** the hypotheses hold on a case (all 14 ids of the registry of Proofs/ConformsExamples.v) *)
Theorem C14_prop_conforms_of_corr_nonvacuous :
  exists c : RunC14.case,
    ConformsCase.hyp_reader_scope c = true /\ ConformsCase.corr_module c = true /\
    ConformsCase.corr_model_paths c = true /\ RunC14.corr_example c = true /\
    RunC14.hyp_ok c = true /\ RunC14.hyp_marker c = true /\ RunC14.prop_conforms c = true.
Proof. exists ConformsCase.demo_case. exact (proj2 ConformsCase.demo_case_in_scope). Qed.
Print Assumptions C14_prop_conforms_of_corr_nonvacuous.

(** ** the array repeat form and [Copy].

    [Model.Conforms.copy_ty r fuel id] ("the type generated for [id] is [Copy]"; a Fixpoint on the
    registry, independent of the implementation): a primitive other than [str]; an array -- of ANY
    length -- of a copy type; a tuple of copy types; a Compact entry of a copy type; Composite /
    Variant / Sequence / BitSequence: [false] (generated structs / enums do not derive [Copy] by
    default; user-configured derives are ignored, which is conservative: the explicit list is always
    a value).  Out of fuel = [false]; [copy_tyb r id = copy_ty r (S (length r)) id].
    The constructor [c_array_repeat] of [conforms] carries the side condition
    [repeat_ok r len e := len <= 1 \/ copy_tyb r e = true]; the explicit-list constructor is unchanged.

    The model's [is_copy] (= the implementation's [type_def_is_copy]: additionally arrays longer than
    32 are not copy) implies [copy_ty] with the SAME fuel, in particular with the fuel the model uses
    ([copy_fuel r] = number of entries + 1 = the fuel of [copy_tyb]).  This is the step that
    re-establishes [C14_conforms]. *)
Theorem C14_model_copy_is_copy :
  forall (r : registry) (fuel : nat) (id : N) (t : ty) (st st' : ExampleRust.st),
    lookup r id = Some t -> is_copy r fuel (t_def t) st = XOk (true, st') -> copy_ty r fuel id = true.
Proof. exact is_copy_copy_ty. Qed.
Print Assumptions C14_model_copy_is_copy.

Theorem C14_model_copy_is_copyb :
  forall (r : registry) (id : N) (t : ty) (st st' : ExampleRust.st),
    lookup r id = Some t -> is_copy r (copy_fuel r) (t_def t) st = XOk (true, st') -> copy_tyb r id = true.
Proof. exact model_copy_is_copy. Qed.
Print Assumptions C14_model_copy_is_copyb.

(** an instance of an array entry with >= 2 elements of a non-[Copy] type is NEVER the repeat form:
    every derivation ends with the explicit-list constructor, i.e. the tokens are [[ ts' ]] with
    [ts'] = exactly [len] comma-separated instances of the element type *)
Theorem C14_repeat_needs_copy :
  forall (r : registry) (s : settings) (m : items) (id : N) (t : ty) (len e : N) (ts rest : tokens),
    conforms r s m id ts rest ->
    lookup r id = Some t -> t_def t = TDArray len e -> (2 <= len)%N -> copy_tyb r e = false ->
    exists ts' : tokens,
      ts = "["%string :: ts' /\ conf_sep (conforms r s m) e len ts' ("]"%string :: rest).
Proof. exact repeat_needs_copy. Qed.
Print Assumptions C14_repeat_needs_copy.

(** token shape: after the opening bracket comes an instance of the element type followed by a COMMA
    (not by [; <len>usize ]]) and [len - 1] further comma-separated instances up to the bracket *)
Theorem C14_repeat_needs_copy_tokens :
  forall (r : registry) (s : settings) (m : items) (id : N) (t : ty) (len e : N) (ts rest : tokens),
    conforms r s m id ts rest ->
    lookup r id = Some t -> t_def t = TDArray len e -> (2 <= len)%N -> copy_tyb r e = false ->
    exists ts' mid : tokens,
      ts = "["%string :: ts' /\ conforms r s m e ts' (","%string :: mid) /\
      conf_sep (conforms r s m) e (N.pred len) mid ("]"%string :: rest).
Proof. exact repeat_needs_copy_tokens. Qed.
Print Assumptions C14_repeat_needs_copy_tokens.

(** evaluated ([vm_compute]) on the registry
      0: str  1: u32  2: (0, 1)  3: [2; 3]  4: u8  5: (4, 1)  6: [5; 3]  (7: [2; 1]  8: [4; 40]  9: [8; 2])
    ([ConformsTokensExamples.rpt_reg]; no struct / enum, hence no module and no paths):
    the token-level reader [conformsb] and the model-side reader [conforms_irb] REFUSE
    [[ ( "a" . into ( ) , 1u32 , ) ; 3usize ]] for [[(String, u32); 3]] and accept the explicit list of
    three; they accept [[ ( 1u8 , 2u32 , ) ; 3usize ]] for [[(u8, u32); 3]].  The refused token list is
    not an instance (proved by inversion), the accepted ones are. *)
Theorem C14_repeat_examples :
  let r : registry :=
    [ (0, mk_ty [] [] (TDPrimitive PStr) []); (1, mk_ty [] [] (TDPrimitive PU32) []);
      (2, mk_ty [] [] (TDTuple [0; 1]) []); (3, mk_ty [] [] (TDArray 3 2) []);
      (4, mk_ty [] [] (TDPrimitive PU8) []); (5, mk_ty [] [] (TDTuple [4; 1]) []);
      (6, mk_ty [] [] (TDArray 3 5) []); (7, mk_ty [] [] (TDArray 1 2) []);
      (8, mk_ty [] [] (TDArray 40 4) []); (9, mk_ty [] [] (TDArray 2 8) []) ]%N in
  let a : tokens := ["("; """a"""; "."; "into"; "("; ")"; ","; "1u32"; ","; ")"]%string in
  let b : tokens := ["("; "1u8"; ","; "2u32"; ","; ")"]%string in
  let rep (x : tokens) : tokens := ("["%string :: x ++ [";"; "3usize"; "]"]%string)%list in
  let lst (x : tokens) : tokens := ("["%string :: x ++ ","%string :: x ++ ","%string :: x ++ ["]"%string])%list in
  let reads := RunC14.conformsb r "types"%string None [] in
  let accepts := conforms_irb r ExampleRustProofs.demo_settings [] in
  copy_tyb r 2 = false /\ copy_tyb r 5 = true /\
  reads 3%N (rep a) = false /\ reads 3%N (lst a) = true /\ reads 6%N (rep b) = true /\
  accepts 3%N (rep a) = false /\ accepts 3%N (lst a) = true /\ accepts 6%N (rep b) = true /\
  ~ conforms r ExampleRustProofs.demo_settings [] 3 (rep a) [] /\
  conforms r ExampleRustProofs.demo_settings [] 3 (lst a) [] /\
  conforms r ExampleRustProofs.demo_settings [] 6 (rep b) [].
Proof. exact ConformsTokensExamples.repeat_examples. Qed.
Print Assumptions C14_repeat_examples.

(** ** [copy_tyb] against its fuel-free reading.  [CopyTy.copy_type r id] (Proofs/CopyTy.v, an
    inductive predicate): the entry [id] is a primitive other than [str] / an array (any length)
    whose element is [copy_type] / a tuple all of whose members are / a Compact entry whose inner
    type is; nothing else.  The boolean with the fuel "number of entries + 1" decides exactly this
    predicate: out of fuel never refuses a type with a finite derivation, and whatever ANY fuel
    accepts, the fuel of [copy_tyb] accepts. *)
Theorem C14_copy_tyb_iff :
  forall (r : registry) (id : N), copy_tyb r id = true <-> CopyTy.copy_type r id.
Proof. exact CopyTy.copy_tyb_iff. Qed.
Print Assumptions C14_copy_tyb_iff.

Theorem C14_copy_ty_fuel :
  forall (r : registry) (n : nat) (id : N), copy_ty r n id = true -> copy_tyb r id = true.
Proof. exact CopyTy.copy_ty_fuel. Qed.
Print Assumptions C14_copy_ty_fuel.

(** ** the INDEPENDENT token reader refuses the repeat form for a non-[Copy] element type -- universally
    (every registry, root, parsed module, path list, fuel; no scope hypothesis): whenever
    [RunC14.conf] accepts a token list for an array entry with >= 2 elements whose element type is not
    [copy_tyb], the list starts with [[], and the first element the reader reads is followed by a
    COMMA; if the first element is followed by [;] the reader returns [None]. *)
Theorem C14_reader_repeat_needs_copy :
  forall (r : registry) (root : String.string) (pm : option Parse.pmod) (paths : list (RunTG.obs tokens))
         (fuel : nat) (id : N) (t : ty) (len e : N) (ts rest : tokens),
    lookup r id = Some t -> t_def t = TDArray len e -> (2 <= len)%N -> copy_tyb r e = false ->
    RunC14.conf r root pm paths (S fuel) id ts = Some rest ->
    exists ts1 r3 : tokens,
      ts = "["%string :: ts1 /\ RunC14.conf r root pm paths fuel e ts1 = Some (","%string :: r3).
Proof. exact ConformsRepeat.reader_repeat_needs_copy. Qed.
Print Assumptions C14_reader_repeat_needs_copy.

Theorem C14_reader_refuses_repeat :
  forall (r : registry) (root : String.string) (pm : option Parse.pmod) (paths : list (RunTG.obs tokens))
         (fuel : nat) (id : N) (t : ty) (len e : N) (ts1 x : tokens),
    lookup r id = Some t -> t_def t = TDArray len e -> (2 <= len)%N -> copy_tyb r e = false ->
    RunC14.conf r root pm paths fuel e ts1 = Some (";"%string :: x) ->
    RunC14.conf r root pm paths (S fuel) id ("["%string :: ts1) = None.
Proof. exact ConformsRepeat.reader_refuses_repeat. Qed.
Print Assumptions C14_reader_refuses_repeat.
