(** C14 — Rust value examples conform to the generated type definitions.
    Only statements, each closed by [exact]; proofs live in Proofs/.

    FULL statement aimed at (DESIGN.md section 6, C14):

      C14_total : for every registry [r] without bit sequences and 256-bit
        integers that is closed, has ids = positions, valid identifiers, paths
        of clause 4 and an acyclic non-field graph (type parameters, sequence /
        array / tuple elements, compact inner), every settings [s], id and word
        stream: [example_rust r s id ws] is [XOk _] or [XErr e] with
        [e <> XOutOfFuel]; never [XPanic].

      C14_conforms : [example_rust r s id ws = XOk e] ->
        [conformsb r root (parse (generate r s)) (paths r s) id e = true]
        for skeleton-consistent [r].

    What is PROVED below (universally, by induction on the two fuels and on
    the structure of field lists; no evaluation of samples):

      [C14_total_partial] = C14_total with the totality of the two calls into
      the TYPE GENERATOR ([resolve_type_path] + token printing,
      [create_type_ir]) taken as the hypothesis [tg_total r s] instead of being
      derived from the well-formedness clauses.  [tg_total] is a statement about
      the typegen model only (it is the content of C10's totality theorem, not
      yet available in this development); it is decidable and is EVALUATED on
      every generated case ([prop_total_in_class] evaluates the conclusion on
      every in-class case, [hyp_total_hyps] counts them).  Everything that
      belongs to rust_value.rs / transformer.rs is proved: the cache invariant
      (a finished [resolve] leaves the in-progress set unchanged), the bound on
      the nesting of [resolve] by the number of entries, the termination of the
      marker-bypassing sequence / array arms and of [type_def_is_copy] along
      ranked edges, the absence of [format_ident!] / [unwrap] / [expect] panics.
      Closedness and "ids = positions" turn out not to be needed: a dangling id
      is a documented error.  [XOutOfWords] (the finite word list handed to the
      model was too short) counts as an error outcome of the MODEL; the
      implementation draws from an infinite stream.

      NOT proved: C14_conforms (the lockstep of literal / composite / variant /
      tuple / array / vec forms with the parsed module).  It is checked on every
      observed example by the independent reader [Corr.RunC14.conformsb]
      ([prop_conforms], evaluated by the kernel's VM), which found the two known
      findings F14 (Cow) and F15 (marker decided per instantiation); on the
      model side the statement is false without the [skeleton_consistent]
      hypothesis (F15) and for [Cow] entries (F14).

    Determinism: [example_rust] is a Gallina function of (r, s, id, ws). *)
From Coq Require Import List NArith ZArith String.
From V Require Import Base.Result Model.Registry Model.Settings Model.RngWords Model.ExampleRust
  Proofs.ExampleRustProofs.
Import ListNotations.

Theorem C14_total_partial :
  forall (r : registry) (s : settings) (rk : N -> nat),
    ranked r rk ->          (* element edges strictly decrease a rank bounded by the number of entries *)
    names_lex r ->          (* field and variant names are lexically identifiers *)
    tg_total r s ->         (* the type generator neither panics nor diverges on the struct / enum entries *)
    forall (id : N) (ws : words),
      match example_rust r s id ws with
      | XPanic _ => False
      | XErr XOutOfFuel => False
      | _ => True
      end.
Proof. exact example_total. Qed.
Print Assumptions C14_total_partial.

(** the same theorem with the hypotheses as boolean checkers that are
    evaluated on concrete registries ([rk] lists one rank per position); the
    hypotheses are satisfiable: [Proofs.ExampleRustProofs.demo_hypotheses]
    evaluates them to [true] on a registry with a struct that is recursive
    through a Vec field, a generic unit struct with an unused parameter, an
    enum, an array of tuples and an explicit compact field *)
Theorem C14_total_checked_partial :
  forall (r : registry) (s : settings) (rk : list nat),
    rankedb r rk = true -> names_lexb r = true -> tg_totalb r s = true ->
    forall (id : N) (ws : words),
      match example_rust r s id ws with
      | XPanic _ => False
      | XErr XOutOfFuel => False
      | _ => True
      end.
Proof. exact example_total_b. Qed.
Print Assumptions C14_total_checked_partial.

Theorem C14_hypotheses_satisfiable :
  exists (r : registry) (s : settings) (rk : list nat),
    rankedb r rk = true /\ names_lexb r = true /\ tg_totalb r s = true /\
    (exists id ws e, example_rust r s id ws = XErr e) /\
    (exists id ws t, example_rust r s id ws = XOk t).
Proof. exact hypotheses_satisfiable. Qed.
Print Assumptions C14_hypotheses_satisfiable.

(** determinism is by construction: equal inputs give equal outputs *)
Theorem C14_deterministic :
  forall (r : registry) (s : settings) (id : N) (ws ws' : words),
    ws = ws' -> example_rust r s id ws = example_rust r s id ws'.
Proof. exact example_deterministic. Qed.
Print Assumptions C14_deterministic.

(** a recursive visit is an error, not a crash: the in-progress marker *)
Theorem C14_recursion_is_error :
  forall (r : registry) (s : settings) (fo : nat) (id : N) (t : ty) (c : cache) (ws : words),
    lookup r id = Some t -> cache_get c id = Some CRecursive ->
    resolve_go r s (S fo) id (c, ws) = XErr (XRecursive id).
Proof. exact resolve_in_progress_is_error. Qed.
Print Assumptions C14_recursion_is_error.
