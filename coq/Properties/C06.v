(** C06 - output is a deterministic function of registry and settings-as-sets (statements only). *)
From Coq Require Import List NArith String Bool.
From V Require Import Base.Strings Base.Result Model.Registry Model.Settings Model.Subst
  Model.TypePath Model.Derives Model.Generate Model.Emit Model.Equal Proofs.GenProofs Proofs.SortDedup.
Import ListNotations.

(** derive and attribute lists in the output are sorted by key and duplicate free *)
Theorem C06_emission_sorted : forall l, ksorted (sort_dedup l).
Proof. exact sort_dedup_sorted. Qed.
Print Assumptions C06_emission_sorted.

(** ... and depend only on the registered SETS, not on registration order or repetition *)
Theorem C06_emission_canonical :
  forall d1 d2,
    key_functional (d_derives d1 ++ d_derives d2) -> key_functional (d_attrs d1 ++ d_attrs d2) ->
    (forall x, In x (d_derives d1) <-> In x (d_derives d2)) ->
    (forall x, In x (d_attrs d1) <-> In x (d_attrs d2)) ->
    derives_tokens d1 = derives_tokens d2.
Proof. exact derives_tokens_canonical. Qed.
Print Assumptions C06_emission_canonical.
