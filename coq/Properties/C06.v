(** C06 - output is a deterministic function of registry and settings-as-sets (statements only). *)
From Coq Require Import List NArith String Bool Permutation.
From V Require Import Base.Strings Base.Result Model.Registry Model.Settings Model.Subst
  Model.TypePath Model.Derives Model.Generate Model.Emit Model.Equal Model.Reach
  Model.Builders Model.BuildersSpec Model.ValidateSpec Proofs.GenProofs Proofs.SortDedup
  Proofs.OrderFree Proofs.DerivesExamples Proofs.ValidateSets.
Import ListNotations.

(** derive and attribute lists in the output are sorted by key and duplicate free *)
Theorem C06_emission_sorted : forall l, ksorted (sort_dedup l).
Proof. exact sort_dedup_sorted. Qed.
Print Assumptions C06_emission_sorted.

(** ... and depend only on the registered SETS, not on registration order or repetition *)
Theorem C06_emission_canonical :
  forall d1 d2,
    key_functional (d_derives d1 ++ d_derives d2) -> key_functional (d_attrs d1 ++ d_attrs d2) ->
    (forall x, In x (d_derives d1) <-> In x (d_derives d2)) ->
    (forall x, In x (d_attrs d1) <-> In x (d_attrs d2)) ->
    derives_tokens d1 = derives_tokens d2.
Proof. exact derives_tokens_canonical. Qed.
Print Assumptions C06_emission_canonical.

(** * Universal theorems: the output is a function of the settings read as finite maps of
    finite sets.

    Vocabulary (Model/Reach.v): [same_set a b] = the lists have the same members;
    [dreg_same dr1 dr2] = equal defaults as sets, the same keys with a recursive
    registration, and for every key set-equal type-specific and recursive registrations;
    [kmap_perm a b] = pairwise distinct keys, the same keys, set-equal values under equal
    keys (a reordering of a hash map whose sets were filled in any order, with repetitions);
    [settings_same s1 s2] = all fields but the derive registry equal, the substitute maps
    agreeing on every lookup; [dreg_all sel dr] = every derive (attribute) mentioned in [dr];
    [well_keyed] (Proofs/OrderFree.v) = a key (token string) determines the tokens. *)

(** maps that are reorderings of each other are equal as finite maps of finite sets *)
Theorem C06_reorderings_same :
  forall dr1 dr2,
    same_set (d_derives (dr_default dr1)) (d_derives (dr_default dr2)) ->
    same_set (d_attrs (dr_default dr1)) (d_attrs (dr_default dr2)) ->
    kmap_perm (dr_specific dr1) (dr_specific dr2) ->
    kmap_perm (dr_recursive dr1) (dr_recursive dr2) ->
    dreg_same dr1 dr2.
Proof. exact dreg_perm_same. Qed.
Print Assumptions C06_reorderings_same.

(** [flatten_order_free]: the flat registries resolve every key to the same sets ... *)
Theorem C06_flatten_order_free :
  forall dr1 dr2 r fl1 fl2,
    dreg_same dr1 dr2 -> flatten dr1 r = Ok fl1 -> flatten dr2 r = Ok fl2 ->
    forall k,
      same_set (d_derives (resolve_derives fl1 k)) (d_derives (resolve_derives fl2 k)) /\
      same_set (d_attrs (resolve_derives fl1 k)) (d_attrs (resolve_derives fl2 k)).
Proof.
  exact (fun dr1 dr2 r fl1 fl2 Hs H1 H2 k =>
           conj (flatten_order_free dr1 dr2 r fl1 fl2 Hs H1 H2 d_derives (or_introl eq_refl) k)
                (flatten_order_free dr1 dr2 r fl1 fl2 Hs H1 H2 d_attrs (or_intror eq_refl) k)).
Qed.
Print Assumptions C06_flatten_order_free.

(** ... hence to EQUAL emitted derive / attribute lists (with and without CompactAs) when a
    key determines its tokens *)
Theorem C06_flatten_tokens_order_free :
  forall dr1 dr2 r fl1 fl2 s1 s2,
    dreg_same dr1 dr2 -> s_compact_as s1 = s_compact_as s2 ->
    key_functional (dreg_all d_derives dr1 ++ dreg_all d_derives dr2 ++ opt_list (s_compact_as s1)) /\
    key_functional (dreg_all d_attrs dr1 ++ dreg_all d_attrs dr2) ->
    flatten dr1 r = Ok fl1 -> flatten dr2 r = Ok fl2 ->
    forall k,
      derives_tokens (resolve_derives fl1 k) = derives_tokens (resolve_derives fl2 k) /\
      derives_tokens (add_as_compact s1 (resolve_derives fl1 k)) =
      derives_tokens (add_as_compact s2 (resolve_derives fl2 k)).
Proof. exact resolve_tokens_order_free. Qed.
Print Assumptions C06_flatten_tokens_order_free.

(** substitutes: a reordering of a map with distinct keys answers every lookup alike *)
Theorem C06_subs_order_free :
  forall s1 s2 : substitutes,
    NoDup (map fst s1) -> Permutation s1 s2 -> forall p, subs_get s1 p = subs_get s2 p.
Proof. exact subs_perm_get. Qed.
Print Assumptions C06_subs_order_free.

(** [generate_order_free]: settings equal as maps of sets give token-identical modules *)
Theorem C06_generate_order_free :
  forall r s1 s2 teq m1 m2,
    settings_same s1 s2 -> dreg_same (s_dreg s1) (s_dreg s2) ->
    key_functional (dreg_all d_derives (s_dreg s1) ++ dreg_all d_derives (s_dreg s2) ++
                    opt_list (s_compact_as s1)) /\
    key_functional (dreg_all d_attrs (s_dreg s1) ++ dreg_all d_attrs (s_dreg s2)) ->
    generate r s1 teq = Ok m1 -> generate r s2 teq = Ok m2 ->
    emit_module s1 m1 = emit_module s2 m2.
Proof. exact generate_order_free. Qed.
Print Assumptions C06_generate_order_free.

(** two registration histories whose derive / attribute calls are permutations of each
    other and whose substitute maps answer alike (e.g. the substitute calls are the same
    sub-history: [C16_rule_for_key]) generate token-identical modules *)
Theorem C06_histories_order_free :
  forall r s teq ops1 ops2 m1 m2,
    Permutation (filter is_derive_op ops1) (filter is_derive_op ops2) ->
    (forall p, subs_get (b_subs (fst (run_ops ops1))) p = subs_get (b_subs (fst (run_ops ops2))) p) ->
    key_functional (history_args ops1 ++ opt_list (s_compact_as s)) ->
    generate r (with_state s (fst (run_ops ops1))) teq = Ok m1 ->
    generate r (with_state s (fst (run_ops ops2))) teq = Ok m2 ->
    emit_module (with_state s (fst (run_ops ops1))) m1 =
    emit_module (with_state s (fst (run_ops ops2))) m2.
Proof. exact histories_order_free. Qed.
Print Assumptions C06_histories_order_free.

(** [output_order_free]: the WHOLE outcome of generation + emission (the tokens, or the
    error, or the panic) is the same; [generate_tokens r s teq] is
    [let* m := generate r s teq in emit_module s m] *)
Theorem C06_output_order_free :
  forall r s1 s2 teq,
    settings_same s1 s2 -> dreg_same (s_dreg s1) (s_dreg s2) ->
    key_functional (dreg_all d_derives (s_dreg s1) ++ dreg_all d_derives (s_dreg s2) ++
                    opt_list (s_compact_as s1)) /\
    key_functional (dreg_all d_attrs (s_dreg s1) ++ dreg_all d_attrs (s_dreg s2)) ->
    generate_tokens r s1 teq = generate_tokens r s2 teq.
Proof. exact generate_tokens_order_free. Qed.
Print Assumptions C06_output_order_free.

(** histories whose derive / attribute calls are permutations of each other and whose
    substitute calls are the same sub-history (same relative order): same whole outcome *)
Theorem C06_histories_output_order_free :
  forall r s teq ops1 ops2,
    Permutation (filter is_derive_op ops1) (filter is_derive_op ops2) ->
    filter (fun o => negb (is_derive_op o)) ops1 = filter (fun o => negb (is_derive_op o)) ops2 ->
    key_functional (history_args ops1 ++ opt_list (s_compact_as s)) ->
    generate_tokens r (with_state s (fst (run_ops ops1))) teq =
    generate_tokens r (with_state s (fst (run_ops ops2))) teq.
Proof.
  exact (fun r s teq ops1 ops2 P E KF =>
           histories_tokens_order_free r s teq ops1 ops2 P
             (same_sub_history_same_lookups ops1 ops2 E) KF).
Qed.
Print Assumptions C06_histories_output_order_free.

(** [dedup]: [ensure_unique] has no iteration oracle in the model - it is a function of the
    registry by construction.  What the implementation iterates in hash order are the path
    groups; the new name of index [i] depends only on the groups of the one path that
    lists it ... *)
Theorem C06_dedup_suffix_local :
  forall (m : groups) i,
    (forall e1 e2 n1 n2, In e1 m -> In e2 m -> entry_suffix i (snd e1) = Some n1 ->
                         entry_suffix i (snd e2) = Some n2 -> n1 = n2) ->
    forall e, In e m -> entry_suffix i (snd e) <> None -> suffix_for m i = entry_suffix i (snd e).
Proof. exact suffix_for_local. Qed.
Print Assumptions C06_dedup_suffix_local.

(** ... so every reordering of path groups in which an index is listed under one path
    only renames every index the same way *)
Theorem C06_dedup_suffix_perm :
  forall (m1 m2 : groups) i,
    Permutation m1 m2 ->
    (forall e1 e2 g1 g2, In e1 m1 -> In e2 m1 -> In g1 (snd e1) -> In g2 (snd e2) ->
                         In i g1 -> In i g2 -> e1 = e2) ->
    suffix_for m1 i = suffix_for m2 i.
Proof. exact suffix_for_perm_disjoint. Qed.
Print Assumptions C06_dedup_suffix_perm.

(** [dedup_order_free]: [ensure_unique] is the sanity pass, the grouping, and one renaming
    pass ([rename_go m], Proofs/OrderFree.v) that looks the groups map up per index; the
    groups map built by [build_groups] lists every index under its own path only (proved
    invariant), hence visiting the path groups in ANY order [m'] gives every index the same
    suffix and the same de-duplicated registry *)
Theorem C06_dedup_order_free :
  forall r,
    ensure_unique r =
    (let* _ := sanity r in let* m := build_groups r in Ok (rename_go m 0%N r)) /\
    forall m m',
      build_groups r = Ok m -> Permutation m m' ->
      (forall i, suffix_for m i = suffix_for m' i) /\ rename_go m 0%N r = rename_go m' 0%N r.
Proof.
  exact (fun r => conj (ensure_unique_unfold r)
                       (fun m m' Hb P => conj (build_groups_suffix_perm r m m' Hb P)
                                              (ensure_unique_order_free r m m' Hb P))).
Qed.
Print Assumptions C06_dedup_order_free.

(** the hypotheses are satisfiable (Proofs/DerivesExamples.v): two registries that are
    reorderings with repetitions of each other on the cyclic registry with a generic root;
    both generations succeed and the emitted tokens are equal *)
Example C06_witness :
  is_ok (generate ex_reg ex_settings (types_equal ex_reg)) = true /\
  is_ok (generate ex_reg ex_settings' (types_equal ex_reg)) = true /\
  (let* m := generate ex_reg ex_settings (types_equal ex_reg) in emit_module ex_settings m) =
  (let* m := generate ex_reg ex_settings' (types_equal ex_reg) in emit_module ex_settings' m).
Proof. exact ex_order_free. Qed.

Example C06_witness_hyps :
  settings_same ex_settings ex_settings' /\
  dreg_same (s_dreg ex_settings) (s_dreg ex_settings') /\
  well_keyed (s_dreg ex_settings) (s_dreg ex_settings') (s_compact_as ex_settings).
Proof. exact ex_order_free_hyps. Qed.

(** [validation_as_sets] (the same statement as C11_validation_as_sets).  [kmap_perm a b] (Model/Reach.v): two key maps with
    pairwise distinct keys, the same keys and set-equal derive / attribute lists under equal
    keys (a hash map iterated in another order, its sets filled in another order or with
    repetitions); [segs_functional l] (Model/ValidateSpec.v): the token string of a key
    determines its ident segments (both are read off the same [syn] path).  For two such
    derive registries and substitute lists that are permutations of each other (any registry,
    known and unknown paths mixed), the two errors are equal as sets: no key twice, the same
    keys among the derives and among the attributes, set-equal lists under each key, and the
    unknown substitutes are a permutation.  The default derives play no role. *)
Theorem C06_validation_as_sets :
  forall (r : registry) (subs1 subs2 : substitutes) (dr1 dr2 : derives_registry),
    kmap_perm (dr_specific dr1) (dr_specific dr2) ->
    kmap_perm (dr_recursive dr1) (dr_recursive dr2) ->
    segs_functional ((dr_specific dr1 ++ dr_recursive dr1) ++ (dr_specific dr2 ++ dr_recursive dr2)) ->
    Permutation subs1 subs2 ->
    let e1 := validate subs1 dr1 r in
    let e2 := validate subs2 dr2 r in
    (NoDup (map fst (ve_derives e1)) /\ NoDup (map fst (ve_derives e2)) /\
     (forall K, In K (map fst (ve_derives e1)) <-> In K (map fst (ve_derives e2))) /\
     (forall K x y, In (K, x) (ve_derives e1) -> In (K, y) (ve_derives e2) -> same_set x y)) /\
    (NoDup (map fst (ve_attrs e1)) /\ NoDup (map fst (ve_attrs e2)) /\
     (forall K, In K (map fst (ve_attrs e1)) <-> In K (map fst (ve_attrs e2))) /\
     (forall K x y, In (K, x) (ve_attrs e1) -> In (K, y) (ve_attrs e2) -> same_set x y)) /\
    Permutation (ve_subs e1) (ve_subs e2).
Proof. exact validate_as_sets. Qed.
Print Assumptions C06_validation_as_sets.

(** ... for the public builders: two registration histories whose derive / attribute calls are
    permutations of each other (substitute calls: any, as long as the resulting substitute
    lists are permutations) yield validation errors equal as sets *)
Theorem C06_validation_histories_as_sets :
  forall (r : registry) (ops1 ops2 : list op),
    Permutation (filter is_derive_op ops1) (filter is_derive_op ops2) ->
    let st1 := fst (run_ops ops1) in
    let st2 := fst (run_ops ops2) in
    segs_functional ((dr_specific (b_dreg st1) ++ dr_recursive (b_dreg st1)) ++
                     (dr_specific (b_dreg st2) ++ dr_recursive (b_dreg st2))) ->
    Permutation (b_subs st1) (b_subs st2) ->
    let e1 := validate (b_subs st1) (b_dreg st1) r in
    let e2 := validate (b_subs st2) (b_dreg st2) r in
    (NoDup (map fst (ve_derives e1)) /\ NoDup (map fst (ve_derives e2)) /\
     (forall K, In K (map fst (ve_derives e1)) <-> In K (map fst (ve_derives e2))) /\
     (forall K x y, In (K, x) (ve_derives e1) -> In (K, y) (ve_derives e2) -> same_set x y)) /\
    (NoDup (map fst (ve_attrs e1)) /\ NoDup (map fst (ve_attrs e2)) /\
     (forall K, In K (map fst (ve_attrs e1)) <-> In K (map fst (ve_attrs e2))) /\
     (forall K x y, In (K, x) (ve_attrs e1) -> In (K, y) (ve_attrs e2) -> same_set x y)) /\
    Permutation (ve_subs e1) (ve_subs e2).
Proof. exact validate_histories_as_sets. Qed.
Print Assumptions C06_validation_histories_as_sets.
