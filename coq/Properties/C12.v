(** C12 -- example SCALE values are valid instances of their type.
    Only statements, each closed by [exact]; proofs live in
    Proofs/ExampleValueProofs.v.

    Model: [example_value r id ws] ([Model/ExampleValue.v]) is
    [scale_value_from_seed(id, r, seed)] where [ws] is the 32-bit word stream
    of [ChaCha8Rng::seed_from_u64(seed)] (an oracle supplied by the harness;
    the theorems hold for EVERY list of numbers).  Outcomes: [XOk v],
    [XErr] with [XRecursive | XEmptyEnum | XMixedFields | XNotFound] (the
    anyhow errors of the code), [XOutOfWords] (supplied stream too short),
    [XOutOfFuel] (unbounded recursion) and [XPanic].

    Determinism ("the same seed always gives the same value"): the model is a
    Gallina function of (r, id, ws), so it holds by construction; that the
    implementation is this function of the seed is the correspondence
    obligation [corr_value] plus the in-process repeat [prop_deterministic].

    Not proved (executed on every observed value instead, [prop_roundtrip]):
    that scale-value's [encode_as_type]/[decode_as_type] round-trip every
    value of the typing relation [has_type]. *)
From Coq Require Import List NArith ZArith String.
From V Require Import Model.Registry Model.RngWords Model.ExampleValue Proofs.ExampleValueProofs.
Import ListNotations.
Open Scope N_scope.

(** Main theorem: every returned value is an instance of the requested type
    (any registry -- closed or not, cyclic or not -- any id, any word stream). *)
Theorem C12_valid :
  forall (r : registry) (id : N) (ws : words) (v : value),
    example_value r id ws = XOk v -> has_type r id v.
Proof. exact example_value_has_type. Qed.
Print Assumptions C12_valid.

(** the same with the boolean checker that is evaluated on the observed values *)
Theorem C12_valid_checker :
  forall (r : registry) (id : N) (ws : words) (v : value),
    example_value r id ws = XOk v -> has_typeb r id v = true.
Proof. exact example_value_typedb. Qed.
Print Assumptions C12_valid_checker.

(** the checker is sound for the typing relation, whatever its fuel *)
Theorem C12_checker_sound :
  forall (r : registry) (fuel : nat) (id : N) (v : value),
    has_type_fuel fuel r id v = true -> has_type r id v.
Proof. exact has_type_fuel_sound. Qed.
Print Assumptions C12_checker_sound.

(** Totality: with the fuel the model uses ([S (length r)]: a nested visit of
    an in-progress id is an error, so the nesting depth is bounded by the
    number of entries) the result is [Ok] or a documented error -- never a
    panic, never out of fuel.  No acyclicity or closedness assumption. *)
Theorem C12_total :
  forall (r : registry) (id : N) (ws : words),
    match example_value r id ws with
    | XOk _ => True
    | XErr e => match e with
                | XRecursive _ | XEmptyEnum | XMixedFields | XNotFound _ | XOutOfWords => True
                | XOutOfFuel => False
                end
    | XPanic _ => False
    end.
Proof. exact example_value_total. Qed.
Print Assumptions C12_total.

(** in a closed registry, for an id of the registry, "not found" is excluded too *)
Theorem C12_total_closed :
  forall (r : registry) (id : N) (ws : words),
    closed_reg r = true -> id < N.of_nat (List.length r) ->
    match example_value r id ws with
    | XOk _ => True
    | XErr e => match e with
                | XRecursive _ | XEmptyEnum | XMixedFields | XOutOfWords => True
                | XNotFound _ | XOutOfFuel => False
                end
    | XPanic _ => False
    end.
Proof. exact example_value_total_closed. Qed.
Print Assumptions C12_total_closed.

(** A value is returned whenever no cycle, no empty enum and no mixed field
    list is reachable from the id ([safeb], written independently of the
    example model), given enough words: the only other outcome is the explicit
    "supplied word stream too short".  (No bound on the number of words exists
    for all streams: the rejection loop of [choose] may reject any finite
    number of words.) *)
Theorem C12_returns :
  forall (r : registry) (id : N) (ws : words),
    safeb r id = true ->
    (exists v, example_value r id ws = XOk v) \/ example_value r id ws = XErr XOutOfWords.
Proof. exact example_value_returns. Qed.
Print Assumptions C12_returns.

(** [choose] (variant selection, the 7 chars, the 4 strings) returns a member
    of the slice, and [None] only for the empty slice, for every word stream
    (the widening-multiply rejection sampler never produces an index out of bounds) *)
Theorem C12_choose_member :
  forall (A : Type) (l : list A) (ws : words) (o : option A) (rest : words),
    choose l ws = Drawn o rest ->
    match o with Some a => In a l | None => l = [] end.
Proof. exact @choose_inv. Qed.
Print Assumptions C12_choose_member.
