(** C03 - no silent conflation (statements only; proofs in Proofs/). *)
From Coq Require Import List NArith String Bool Sorted.
From V Require Import Base.Strings Base.Result Model.Registry Model.Settings Model.Subst
  Model.TypePath Model.Derives Model.Generate Model.Equal Model.Shape Model.DedupSpec Model.EqualPlain Model.WellFormed Proofs.GenProofs
  Proofs.FidelityBase Proofs.Fidelity Proofs.FidelityGen Proofs.KeepFirst Proofs.DedupGroups Proofs.EqualSound.
Import ListNotations.

(** structure of the loop, any registry, any comparison function: when nothing else fails
    ([all_ok]: every item-eligible entry yields an IR and a lexical module path), the outcome
    of generation is exactly the outcome of running, in registry order, the comparison of
    every item-eligible entry with the FIRST earlier item-eligible entry of its path *)
Theorem C03_keep_first_or_error :
  forall r s teq flat,
    sanity_pass r = Ok tt -> flatten (s_dreg s) r = Ok flat -> all_ok r s flat r ->
    rmap (fun _ => tt) (generate r s teq) = run_cmps teq (comparisons r s).
Proof. exact generate_keep_first_or_error. Qed.
Print Assumptions C03_keep_first_or_error.

(** ... success iff every such comparison answers "equal" *)
Theorem C03_ok_iff_all_equal :
  forall r s teq flat,
    sanity_pass r = Ok tt -> flatten (s_dreg s) r = Ok flat -> all_ok r s flat r ->
    ((exists m, generate r s teq = Ok m) <->
     Forall (fun c : cmp => teq (fst (fst c)) (snd (fst c)) = Ok true) (comparisons r s)).
Proof. exact generate_ok_iff. Qed.
Print Assumptions C03_ok_iff_all_equal.

(** ... and the duplicate-path error names the path of the first comparison answering
    "different" *)
Theorem C03_duplicate_path_is_first_failure :
  forall r s teq flat c1 id id0 p c2,
    sanity_pass r = Ok tt -> flatten (s_dreg s) r = Ok flat -> all_ok r s flat r ->
    comparisons r s = c1 ++ (id, id0, p) :: c2 ->
    Forall (fun c : cmp => teq (fst (fst c)) (snd (fst c)) = Ok true) c1 ->
    teq id id0 = Ok false ->
    generate r s teq = Err (EDuplicatePath (join "::" p)).
Proof. exact generate_duplicate_path. Qed.
Print Assumptions C03_duplicate_path_is_first_failure.

(** whenever the same-path families are skeleton-consistent, success implies that every
    member of every family is faithfully represented by the single item kept for its path,
    instantiated with the member's own arguments (= C01_fidelity with the hypothesis
    spelled out per family) *)
Theorem C03_consistent_is_faithful :
  forall r s teq m,
    (forall id X id0 X0,
        In (id, X) r -> item_eligible s X = true ->
        first_eligible r s (t_path X) = Some (id0, X0) ->
        skeleton r s X = skeleton r s X0) ->
    root_fresh s -> generate r s teq = Ok m ->
    forall n id t, resolve_type_path r s id = Ok t -> shape_rust m s n t = shape_reg r s n id.
Proof. exact generate_faithful. Qed.
Print Assumptions C03_consistent_is_faithful.

(** ... explicitly: the type expression named for a member X (at id) of a same-path family is
    the path of the ONE item kept for that path (the IR of the first member) applied to X's
    own resolved arguments, and that item so instantiated has the registry shape of X *)
Theorem C03_member_represented :
  forall r s teq m,
    skeleton_consistent r s -> root_fresh s -> generate r s teq = Ok m ->
    forall id X t,
      resolve r id = Some X -> item_eligible s X = true ->
      path_ident (t_path X) <> Some "Cow"%string ->
      resolve_type_path r s id = Ok t ->
      exists params id0 X0 ir0,
        t = TPath (rel_path (s_root s :: t_path X)) params /\
        first_eligible r s (t_path X) = Some (id0, X0) /\
        items_get m (t_path X) = Some (id0, ir0) /\
        forall n, item_shape m s n ir0 params = shape_reg r s (S n) id.
Proof. exact member_represented. Qed.
Print Assumptions C03_member_represented.

(** the groups map [m] of [ensure_unique_type_paths] (utils.rs:43-70), for ANY registry on which
    the grouping loop succeeds.  [entry_at r i p]: the entry at position [i] has path [p];
    [all_members m]: every index listed anywhere in [m]; [group_first g = g[0]].
    - the path keys are distinct, every path has a group and no group is empty;
    - (i) every position with a namespaced path is listed exactly once in the whole map
      ([NoDup] of the flattening), under its own path; positions without namespace nowhere;
    - (ii) every member of a group other than the first is [Ok true] against the first;
    - (iii) every member of a group (in particular the member that started it) is [Ok false]
      against the first member of every EARLIER group of its path;
    - (iv) members are in increasing index order, the groups of a path in order of their first
      members, and the paths in order of first appearance. *)
Theorem C03_dedup_groups :
  forall r m, build_groups r = Ok m ->
    NoDup (map fst m) /\
    (forall p gs, In (p, gs) m -> gs <> [] /\ Forall (fun g => g <> []) gs) /\
    NoDup (all_members m) /\
    (forall i, In i (all_members m) <-> exists p, entry_at r i p /\ namespace p <> []) /\
    (forall p gs g i, In (p, gs) m -> In g gs -> In i g -> entry_at r i p) /\
    (forall p gs g i, In (p, gs) m -> In g gs -> In i (tl g) ->
                      types_equal_res r i (group_first g) = Ok true) /\
    (forall p gs gs1 g gs2 g0 i, In (p, gs) m -> gs = gs1 ++ g :: gs2 -> In g0 gs1 -> In i g ->
                                 types_equal_res r i (group_first g0) = Ok false) /\
    (forall p gs, In (p, gs) m ->
                  Forall (StronglySorted N.lt) gs /\ StronglySorted N.lt (map group_first gs)) /\
    StronglySorted N.lt (map entry_first m).
Proof. exact dedup_groups. Qed.
Print Assumptions C03_dedup_groups.

(** existence half of (i), directly: a namespaced position is a member of a group of its path *)
Theorem C03_dedup_member :
  forall r m i p, build_groups r = Ok m -> entry_at r i p -> namespace p <> [] ->
    exists gs g, In (p, gs) m /\ In g gs /\ In i g.
Proof. exact dedup_member. Qed.
Print Assumptions C03_dedup_member.

(** *** soundness of [types_equal], partial.

    FULL statement (refuted below): [types_equal_res r a b = Ok true] implies that [a] and [b]
    denote the same type: equal registry shapes at every depth and, for generic definitions,
    equal skeletons.

    PROVED: the class where the algorithm is plain structural recursion.  [types_equal_plain]
    (Model/EqualPlain.v) is [types_equal] without the [GenericsList] and with the two
    visited-set shortcuts replaced by a marker outcome: it answers [Ok v] exactly when, during
    the comparison, neither side reaches an id a second time and no type met has a non-skipped
    type parameter (otherwise [Panic "revisit"] / [Panic "type parameter in scope"]); this is
    decidable by running it (two versions of a non-generic crate, assoc-type variants with
    skipped parameters).  On that class it agrees with [types_equal] and [true] implies equal
    registry shapes at every depth, for every settings value, up to [shape_core]: the Box flag
    of a field (read off the recorded type name) is forgotten -- [types_equal] does not compare
    recorded type names there (C03_equal_sound_refuted_boxed: the conclusion cannot be
    strengthened to full shape equality even inside the class); field names, variant names
    and indices, primitive kinds, array lengths, tuple arities and the nesting are all equal.
    MISSING for the full statement: generics in scope, shared or recursive ids -- exactly
    where the refutations live -- and the skeleton half of the conclusion. *)
Theorem C03_equal_plain_agrees :
  forall r a b v, types_equal_plain r a b = Ok v -> types_equal_res r a b = Ok v.
Proof. exact types_equal_plain_agrees. Qed.
Print Assumptions C03_equal_plain_agrees.

Theorem C03_equal_sound_partial :
  forall r a b,
    types_equal_plain r a b = Ok true ->
    forall s n, shape_core (shape_reg r s n a) = shape_core (shape_reg r s n b).
Proof. exact types_equal_plain_sound. Qed.
Print Assumptions C03_equal_sound_partial.

(** the same with the verdict of [types_equal] itself as hypothesis *)
Theorem C03_equal_sound_on_plain_class_partial :
  forall r a b,
    (exists v, types_equal_plain r a b = Ok v) -> types_equal_res r a b = Ok true ->
    forall s n, shape_core (shape_reg r s n a) = shape_core (shape_reg r s n b).
Proof. exact types_equal_sound_partial. Qed.
Print Assumptions C03_equal_sound_on_plain_class_partial.

(** the class stated declaratively (Model/EqualPlain.v): [unfold_ids r fuel a] lists, with
    repetitions, the ids met when [a] is unfolded along fields, element types, tuple members,
    compact inner types and bit-sequence store / order; [tree_like r a] = that list (at the fuel
    of the comparison) has no repetition: no id is reached twice; [no_params_reachable r a] =
    no type in it has a non-skipped type parameter.  On a closed registry these hypotheses put
    the pair into the plain class: [types_equal_plain] answers, with the verdict of
    [types_equal] ... *)
Theorem C03_plain_class_declarative :
  forall r a b,
    closed r -> in_reg r a -> in_reg r b ->
    tree_like r a -> tree_like r b -> no_params_reachable r a -> no_params_reachable r b ->
    exists v, types_equal_plain r a b = Ok v /\ types_equal_res r a b = Ok v.
Proof. exact plain_class_declarative. Qed.
Print Assumptions C03_plain_class_declarative.

(** ... hence soundness in declarative form *)
Theorem C03_equal_sound_declarative_partial :
  forall r a b,
    closed r -> in_reg r a -> in_reg r b ->
    tree_like r a -> tree_like r b -> no_params_reachable r a -> no_params_reachable r b ->
    types_equal_res r a b = Ok true ->
    forall s n, shape_core (shape_reg r s n a) = shape_core (shape_reg r s n b).
Proof. exact types_equal_sound_declarative. Qed.
Print Assumptions C03_equal_sound_declarative_partial.

(** outside the markers the two algorithms have the same outcome, errors and panics included *)
Theorem C03_equal_plain_same_outcome :
  forall r a b,
    types_equal_plain r a b <> Panic "revisit" ->
    types_equal_plain r a b <> Panic "type parameter in scope" ->
    types_equal_res r a b = types_equal_plain r a b.
Proof. exact types_equal_plain_same. Qed.
Print Assumptions C03_equal_plain_same_outcome.

(** refutations of the unrestricted statement on the faithful model (findings F1, F3, F3b);
    witnesses: corpus/families/F03_same_id_coincidence.json, F14_nested_generic_explains.json
    (transcribed in Model/EqualPlain.v) and a hand-made registry without any generics.
    - same-id shortcut under different parameter bindings: Header<u8, u16> and Header<u8, i64>
      share their field ids; the registry shapes coincide, the generic definitions recovered
      from the two (skeletons) do not (U is used by the first, unused by the second); *)
Theorem C03_equal_sound_refuted_same_id :
  exists r s a b ta tb,
    resolve r a = Some ta /\ resolve r b = Some tb /\
    types_equal_res r a b = Ok true /\
    shape_reg r s 4 a = shape_reg r s 4 b /\
    skeleton r s ta <> skeleton r s tb.
Proof. exact equal_sound_refuted_same_id. Qed.
Print Assumptions C03_equal_sound_refuted_same_id.

(** - a difference inside a nested generic type (Option<i32> against Option<u8>) is "explained"
      by that type's own parameter: the depth-3 shapes differ; *)
Theorem C03_equal_sound_refuted_nested_generic :
  exists r s a b,
    types_equal_res r a b = Ok true /\
    shape_core (shape_reg r s 3 a) <> shape_core (shape_reg r s 3 b).
Proof. exact equal_sound_refuted_nested_generic. Qed.
Print Assumptions C03_equal_sound_refuted_nested_generic.

(** - both-visited shortcut, no type parameter anywhere in the registry:
      Foo { x: X, y: Y, z: X } against Foo { x: X', y: Y', z: Y' }. *)
Theorem C03_equal_sound_refuted_revisit :
  exists r s a b,
    (forall e, In e r -> param_ids (snd e) = []) /\
    types_equal_res r a b = Ok true /\
    shape_core (shape_reg r s 3 a) <> shape_core (shape_reg r s 3 b).
Proof. exact equal_sound_refuted_revisit. Qed.
Print Assumptions C03_equal_sound_refuted_revisit.

(** why the conclusion of C03_equal_sound_partial is up to [shape_core]: INSIDE the plain class
    recorded type names are never compared (S { x: Box<u8> } against S { x: u8 }: same on the
    wire, different Rust type).  Variant indices ARE part of [shape_core]: finding F19 (the
    comparison ignored them; found by this proof, confirmed on the implementation and repaired
    in /repo and in the model) has the regression witness [variant_index_compared] in
    Proofs/EqualSound.v. *)
Theorem C03_equal_sound_refuted_boxed :
  exists r s a b,
    types_equal_plain r a b = Ok true /\ types_equal_res r a b = Ok true /\
    shape_reg r s 2 a <> shape_reg r s 2 b.
Proof. exact equal_sound_refuted_boxed. Qed.
Print Assumptions C03_equal_sound_refuted_boxed.
(** completeness of [types_equal] on instantiations of one definition (the converse direction of
    the refuted soundness; proof and fragment: see [C04_instantiations_stay_partial],
    Properties/C04.v and Proofs/TeqComplete.v): in a program-derived registry two coincidence-free
    instantiations of a definition of the fragment [teq_program_okb] are judged equal, so the loop
    of [C03_keep_first_or_error] keeps the first and does not fail on the second.  Outside the
    fragment this is false for [instantiation_cf] ([C04_instantiations_stay_cf_refuted]). *)
From V Require Import Model.Program Model.ProgramTeq Proofs.TeqComplete.

Theorem C03_equal_complete_partial :
  forall defs L r,
  RegistryOf defs L r ->
  forall d sd, nth_error defs d = Some sd -> teq_program_okb sd = true ->
  forall args1 args2,
  instantiation_cf defs sd args1 = true -> map canon args1 = args1 ->
  instantiation_cf defs sd args2 = true -> map canon args2 = args2 ->
  forall id1 id2, L id1 = Some (SApp d args1) -> L id2 = Some (SApp d args2) ->
  types_equal r id1 id2 = Ok true.
Proof. exact teq_instantiations_labels. Qed.
Print Assumptions C03_equal_complete_partial.
