(** C03 - no silent conflation (statements only; proofs in Proofs/). *)
From Coq Require Import List NArith String Bool.
From V Require Import Base.Strings Base.Result Model.Registry Model.Settings Model.Subst
  Model.TypePath Model.Derives Model.Generate Model.Equal Model.Shape Proofs.GenProofs
  Proofs.FidelityBase Proofs.Fidelity Proofs.FidelityGen Proofs.KeepFirst.
Import ListNotations.

(** structure of the loop, any registry, any comparison function: when nothing else fails
    ([all_ok]: every item-eligible entry yields an IR and a lexical module path), the outcome
    of generation is exactly the outcome of running, in registry order, the comparison of
    every item-eligible entry with the FIRST earlier item-eligible entry of its path *)
Theorem C03_keep_first_or_error :
  forall r s teq flat,
    sanity_pass r = Ok tt -> flatten (s_dreg s) r = Ok flat -> all_ok r s flat r ->
    rmap (fun _ => tt) (generate r s teq) = run_cmps teq (comparisons r s).
Proof. exact generate_keep_first_or_error. Qed.
Print Assumptions C03_keep_first_or_error.

(** ... success iff every such comparison answers "equal" *)
Theorem C03_ok_iff_all_equal :
  forall r s teq flat,
    sanity_pass r = Ok tt -> flatten (s_dreg s) r = Ok flat -> all_ok r s flat r ->
    ((exists m, generate r s teq = Ok m) <->
     Forall (fun c : cmp => teq (fst (fst c)) (snd (fst c)) = Ok true) (comparisons r s)).
Proof. exact generate_ok_iff. Qed.
Print Assumptions C03_ok_iff_all_equal.

(** ... and the duplicate-path error names the path of the first comparison answering
    "different" *)
Theorem C03_duplicate_path_is_first_failure :
  forall r s teq flat c1 id id0 p c2,
    sanity_pass r = Ok tt -> flatten (s_dreg s) r = Ok flat -> all_ok r s flat r ->
    comparisons r s = c1 ++ (id, id0, p) :: c2 ->
    Forall (fun c : cmp => teq (fst (fst c)) (snd (fst c)) = Ok true) c1 ->
    teq id id0 = Ok false ->
    generate r s teq = Err (EDuplicatePath (join "::" p)).
Proof. exact generate_duplicate_path. Qed.
Print Assumptions C03_duplicate_path_is_first_failure.

(** whenever the same-path families are skeleton-consistent, success implies that every
    member of every family is faithfully represented by the single item kept for its path,
    instantiated with the member's own arguments (= C01_fidelity with the hypothesis
    spelled out per family) *)
Theorem C03_consistent_is_faithful :
  forall r s teq m,
    (forall id X id0 X0,
        In (id, X) r -> item_eligible s X = true ->
        first_eligible r s (t_path X) = Some (id0, X0) ->
        skeleton r s X = skeleton r s X0) ->
    root_fresh s -> generate r s teq = Ok m ->
    forall n id t, resolve_type_path r s id = Ok t -> shape_rust m s n t = shape_reg r s n id.
Proof. exact generate_faithful. Qed.
Print Assumptions C03_consistent_is_faithful.

(** ... explicitly: the type expression named for a member X (at id) of a same-path family is
    the path of the ONE item kept for that path (the IR of the first member) applied to X's
    own resolved arguments, and that item so instantiated has the registry shape of X *)
Theorem C03_member_represented :
  forall r s teq m,
    skeleton_consistent r s -> root_fresh s -> generate r s teq = Ok m ->
    forall id X t,
      resolve r id = Some X -> item_eligible s X = true ->
      path_ident (t_path X) <> Some "Cow"%string ->
      resolve_type_path r s id = Ok t ->
      exists params id0 X0 ir0,
        t = TPath (rel_path (s_root s :: t_path X)) params /\
        first_eligible r s (t_path X) = Some (id0, X0) /\
        items_get m (t_path X) = Some (id0, ir0) /\
        forall n, item_shape m s n ir0 params = shape_reg r s (S n) id.
Proof. exact member_represented. Qed.
Print Assumptions C03_member_represented.

(** completeness of [types_equal] on instantiations of one definition (the converse direction of
    the refuted soundness; proof and fragment: see [C04_instantiations_stay_partial],
    Properties/C04.v and Proofs/TeqComplete.v): in a program-derived registry two coincidence-free
    instantiations of a definition of the fragment [teq_program_okb] are judged equal, so the loop
    of [C03_keep_first_or_error] keeps the first and does not fail on the second.  Outside the
    fragment this is false for [instantiation_cf] ([C04_instantiations_stay_cf_refuted]). *)
From V Require Import Model.Program Model.ProgramTeq Proofs.TeqComplete.

Theorem C03_equal_complete_partial :
  forall defs L r,
  RegistryOf defs L r ->
  forall d sd, nth_error defs d = Some sd -> teq_program_okb sd = true ->
  forall args1 args2,
  instantiation_cf defs sd args1 = true -> map canon args1 = args1 ->
  instantiation_cf defs sd args2 = true -> map canon args2 = args2 ->
  forall id1 id2, L id1 = Some (SApp d args1) -> L id2 = Some (SApp d args2) ->
  types_equal r id1 id2 = Ok true.
Proof. exact teq_instantiations_labels. Qed.
Print Assumptions C03_equal_complete_partial.
