(** Outcomes of modelled functions: [Ok], a documented error, or an explicit
    Rust panic (expect / unwrap / indexing / unimplemented!).  Fuel exhaustion
    is the distinct error [EOutOfFuel] (unbounded recursion in the code). *)
From Coq Require Import List NArith String.
Import ListNotations.

Inductive err :=
| EIdsInvalid (given expected : N)
| EInvalidFields
| EInvalidType
| ECompactPathNone
| EBitsPathNone
| ETypeNotFound (id : N)
| ESynParse
| EDuplicatePath (p : string)
| EOutOfFuel.

Inductive result (A : Type) :=
| Ok (a : A)
| Err (e : err)
| Panic (msg : string).
Arguments Ok {A} a.
Arguments Err {A} e.
Arguments Panic {A} msg.

Definition bind {A B} (x : result A) (f : A -> result B) : result B :=
  match x with
  | Ok a => f a
  | Err e => Err e
  | Panic m => Panic m
  end.

Declare Scope res_scope.
Notation "'let*' x ':=' c1 'in' c2" := (bind c1 (fun x => c2))
  (at level 61, x pattern, c1 at next level, right associativity) : res_scope.
Open Scope res_scope.

Definition rmap {A B} (f : A -> B) (x : result A) : result B :=
  let* a := x in Ok (f a).

(** left-to-right [collect::<Result<Vec<_>,_>>()]: stops at the first failure *)
Fixpoint mapM {A B} (f : A -> result B) (l : list A) : result (list B) :=
  match l with
  | [] => Ok []
  | x :: l' => let* y := f x in let* ys := mapM f l' in Ok (y :: ys)
  end.

Definition is_ok {A} (x : result A) : bool := match x with Ok _ => true | _ => false end.

Lemma bind_ok {A B} (x : result A) (f : A -> result B) b :
  bind x f = Ok b -> exists a, x = Ok a /\ f a = Ok b.
Proof. destruct x; cbn; intros H; try discriminate. eauto. Qed.

Lemma mapM_ok_length {A B} (f : A -> result B) l ys :
  mapM f l = Ok ys -> List.length ys = List.length l.
Proof.
  revert ys; induction l as [|x l IH]; cbn; intros ys H.
  - inversion H; reflexivity.
  - apply bind_ok in H as (y & Hy & H). apply bind_ok in H as (ys' & Hys & H).
    inversion H; subst; cbn. f_equal. auto.
Qed.

Lemma mapM_ok_Forall2 {A B} (f : A -> result B) l ys :
  mapM f l = Ok ys -> Forall2 (fun x y => f x = Ok y) l ys.
Proof.
  revert ys; induction l as [|x l IH]; cbn; intros ys H.
  - inversion H; constructor.
  - apply bind_ok in H as (y & Hy & H). apply bind_ok in H as (ys' & Hys & H).
    inversion H; subst. constructor; auto.
Qed.

Lemma mapM_ext {A B} (f g : A -> result B) l :
  (forall x, In x l -> f x = g x) -> mapM f l = mapM g l.
Proof.
  induction l as [|x l IH]; cbn; intros H; auto.
  rewrite (H x) by auto. destruct (g x); cbn; auto.
  rewrite IH by auto. reflexivity.
Qed.
