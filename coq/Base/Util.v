(** Small shared utilities for the correspondence evaluation. *)
From Coq Require Import List NArith String Bool.
Import ListNotations.
Open Scope N_scope.

Fixpoint list_eqb {A} (eqb : A -> A -> bool) (a b : list A) : bool :=
  match a, b with
  | [], [] => true
  | x :: a', y :: b' => eqb x y && list_eqb eqb a' b'
  | _, _ => false
  end.

Lemma list_eqb_sound {A} (eqb : A -> A -> bool)
  (H : forall x y, eqb x y = true -> x = y) :
  forall a b, list_eqb eqb a b = true -> a = b.
Proof.
  induction a as [|x a IH]; destruct b as [|y b]; cbn; intros E; try discriminate; auto.
  apply andb_prop in E as [E1 E2]. f_equal; auto.
Qed.

Lemma list_eqb_refl {A} (eqb : A -> A -> bool)
  (H : forall x, eqb x x = true) : forall a, list_eqb eqb a a = true.
Proof. induction a; cbn; auto. rewrite H; auto. Qed.

(** indices (from 0) of the elements on which [f] is false *)
Fixpoint failing_from {A} (f : A -> bool) (i : N) (l : list A) : list N :=
  match l with
  | [] => []
  | x :: l' => if f x then failing_from f (i + 1) l' else i :: failing_from f (i + 1) l'
  end.
Definition failing {A} (f : A -> bool) (l : list A) : list N := failing_from f 0 l.

Definition count_true {A} (f : A -> bool) (l : list A) : N :=
  N.of_nat (List.length (filter f l)).

Definition option_eqb {A} (eqb : A -> A -> bool) (a b : option A) : bool :=
  match a, b with
  | None, None => true
  | Some x, Some y => eqb x y
  | _, _ => false
  end.

(** ** UTF-8 decoding of Coq strings (byte sequences) into code points.
    The harness only writes valid UTF-8; malformed bytes decode to themselves. *)
From Coq Require Import Ascii.
Fixpoint bytes_of_string (s : string) : list N :=
  match s with
  | EmptyString => []
  | String a s' => N_of_ascii a :: bytes_of_string s'
  end.

Fixpoint utf8_decode_bytes (fuel : nat) (l : list N) : list N :=
  match fuel with
  | O => []
  | S fuel' =>
    match l with
    | [] => []
    | b0 :: r0 =>
      if b0 <? 128 then b0 :: utf8_decode_bytes fuel' r0
      else if b0 <? 224 then
        match r0 with
        | b1 :: r1 => ((b0 - 192) * 64 + (b1 - 128)) :: utf8_decode_bytes fuel' r1
        | _ => [b0]
        end
      else if b0 <? 240 then
        match r0 with
        | b1 :: b2 :: r2 =>
            ((b0 - 224) * 4096 + (b1 - 128) * 64 + (b2 - 128)) :: utf8_decode_bytes fuel' r2
        | _ => b0 :: r0
        end
      else
        match r0 with
        | b1 :: b2 :: b3 :: r3 =>
            ((b0 - 240) * 262144 + (b1 - 128) * 4096 + (b2 - 128) * 64 + (b3 - 128))
              :: utf8_decode_bytes fuel' r3
        | _ => b0 :: r0
        end
    end
  end.

Definition utf8_decode (s : string) : list N :=
  let b := bytes_of_string s in utf8_decode_bytes (S (List.length b)) b.
