(** Strings: Rust's [String] order (bytewise lexicographic = [String.compare]),
    decimal printing, identifier predicates, substring search. *)
From Coq Require Import List NArith String Ascii Bool DecimalString.
Import ListNotations.
Open Scope string_scope.

Definition N_to_string (n : N) : string := NilEmpty.string_of_uint (N.to_uint n).

Definition str_leb (a b : string) : bool :=
  match String.compare a b with Gt => false | _ => true end.
Definition str_ltb (a b : string) : bool :=
  match String.compare a b with Lt => true | _ => false end.

(** [Vec<String>] order: lexicographic *)
Fixpoint path_compare (a b : list string) : comparison :=
  match a, b with
  | [], [] => Eq
  | [], _ => Lt
  | _, [] => Gt
  | x :: a', y :: b' =>
      match String.compare x y with
      | Eq => path_compare a' b'
      | c => c
      end
  end.

Definition path_eqb (a b : list string) : bool :=
  match path_compare a b with Eq => true | _ => false end.

Lemma str_compare_refl s : String.compare s s = Eq.
Proof.
  pose proof (String.compare_antisym s s) as H. destruct (String.compare s s); cbn in H; congruence.
Qed.

Lemma str_compare_eq a b : String.compare a b = Eq <-> a = b.
Proof. split; [apply String.compare_eq_iff | intros ->; apply str_compare_refl]. Qed.

Lemma path_compare_eq a b : path_compare a b = Eq <-> a = b.
Proof.
  revert b; induction a as [|x a IH]; destruct b as [|y b]; cbn; try (split; congruence).
  destruct (String.compare x y) eqn:E.
  - apply String.compare_eq_iff in E; subst. rewrite IH. split; congruence.
  - split; try discriminate. intros H; inversion H; subst. rewrite str_compare_refl in E; discriminate.
  - split; try discriminate. intros H; inversion H; subst. rewrite str_compare_refl in E; discriminate.
Qed.

Lemma path_eqb_eq a b : path_eqb a b = true <-> a = b.
Proof.
  unfold path_eqb. rewrite <- path_compare_eq. destruct (path_compare a b); split; congruence.
Qed.

Lemma path_eqb_refl a : path_eqb a a = true.
Proof. apply path_eqb_eq; reflexivity. Qed.

(** ** identifiers *)
Definition is_alpha (c : ascii) : bool :=
  let n := N_of_ascii c in
  ((65 <=? n) && (n <=? 90) || (97 <=? n) && (n <=? 122))%N.
Definition is_digit (c : ascii) : bool :=
  let n := N_of_ascii c in ((48 <=? n) && (n <=? 57))%N.
Definition is_underscore (c : ascii) : bool := (N_of_ascii c =? 95)%N.

Fixpoint all_chars (f : ascii -> bool) (s : string) : bool :=
  match s with
  | EmptyString => true
  | String c s' => f c && all_chars f s'
  end.

(** lexically an identifier (what [proc_macro2::Ident::new] accepts, ASCII part) *)
Definition ident_lexb (s : string) : bool :=
  match s with
  | EmptyString => false
  | String c s' =>
      (is_alpha c || is_underscore c)
      && all_chars (fun c => is_alpha c || is_digit c || is_underscore c) s'
  end.

Definition keywords : list string :=
  ["abstract"; "as"; "async"; "await"; "become"; "box"; "break"; "const"; "continue"; "crate";
   "do"; "dyn"; "else"; "enum"; "extern"; "false"; "final"; "fn"; "for"; "if"; "impl"; "in";
   "let"; "loop"; "macro"; "match"; "mod"; "move"; "mut"; "override"; "priv"; "pub"; "ref";
   "return"; "Self"; "self"; "static"; "struct"; "super"; "trait"; "true"; "try"; "type";
   "typeof"; "unsafe"; "unsized"; "use"; "virtual"; "where"; "while"; "yield"].

Definition is_keyword (s : string) : bool := existsb (String.eqb s) keywords.

(** what [syn::parse_str::<Ident>] accepts (ASCII part) *)
Definition ident_okb (s : string) : bool :=
  ident_lexb s && negb (String.eqb s "_") && negb (is_keyword s).

(** what [syn]'s path-segment parser accepts as the identifier of a segment (ASCII part):
    identifiers, and the keywords [super self Self crate try] ([PathSegment::parse_helper]) *)
Definition path_keywords : list string := ["super"; "self"; "Self"; "crate"; "try"].
Definition path_seg_okb (s : string) : bool :=
  ident_lexb s && negb (String.eqb s "_")
  && (negb (is_keyword s) || existsb (String.eqb s) path_keywords).

(** ** substring search: [str::contains], [str::starts_with] *)
Fixpoint starts_with (p s : string) : bool :=
  match p with
  | EmptyString => true
  | String a p' => match s with
                   | EmptyString => false
                   | String b s' => Ascii.eqb a b && starts_with p' s'
                   end
  end.

Fixpoint contains (p s : string) : bool :=
  starts_with p s ||
  match s with
  | EmptyString => false
  | String _ s' => contains p s'
  end.

Definition join (sep : string) (l : list string) : string := String.concat sep l.
