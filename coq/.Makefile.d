Base/Util.vo Base/Util.glob Base/Util.v.beautified Base/Util.required_vo: Base/Util.v 
Base/Util.vio: Base/Util.v 
Base/Util.vos Base/Util.vok Base/Util.required_vos: Base/Util.v 
Model/Format.vo Model/Format.glob Model/Format.v.beautified Model/Format.required_vo: Model/Format.v 
Model/Format.vio: Model/Format.v 
Model/Format.vos Model/Format.vok Model/Format.required_vos: Model/Format.v 
Model/FormatSpec.vo Model/FormatSpec.glob Model/FormatSpec.v.beautified Model/FormatSpec.required_vo: Model/FormatSpec.v Model/Format.vo
Model/FormatSpec.vio: Model/FormatSpec.v Model/Format.vio
Model/FormatSpec.vos Model/FormatSpec.vok Model/FormatSpec.required_vos: Model/FormatSpec.v Model/Format.vos
Proofs/FormatProofs.vo Proofs/FormatProofs.glob Proofs/FormatProofs.v.beautified Proofs/FormatProofs.required_vo: Proofs/FormatProofs.v Model/Format.vo
Proofs/FormatProofs.vio: Proofs/FormatProofs.v Model/Format.vio
Proofs/FormatProofs.vos Proofs/FormatProofs.vok Proofs/FormatProofs.required_vos: Proofs/FormatProofs.v Model/Format.vos
Corr/RunC15.vo Corr/RunC15.glob Corr/RunC15.v.beautified Corr/RunC15.required_vo: Corr/RunC15.v Base/Util.vo Model/Format.vo Model/FormatSpec.vo Proofs/FormatProofs.vo
Corr/RunC15.vio: Corr/RunC15.v Base/Util.vio Model/Format.vio Model/FormatSpec.vio Proofs/FormatProofs.vio
Corr/RunC15.vos Corr/RunC15.vok Corr/RunC15.required_vos: Corr/RunC15.v Base/Util.vos Model/Format.vos Model/FormatSpec.vos Proofs/FormatProofs.vos
Properties/C15.vo Properties/C15.glob Properties/C15.v.beautified Properties/C15.required_vo: Properties/C15.v Model/Format.vo Proofs/FormatProofs.vo
Properties/C15.vio: Properties/C15.v Model/Format.vio Proofs/FormatProofs.vio
Properties/C15.vos Properties/C15.vok Properties/C15.required_vos: Properties/C15.v Model/Format.vos Proofs/FormatProofs.vos
