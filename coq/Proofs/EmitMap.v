(** The emitter treats tokens opaquely: it commutes with every renaming [phi]
    of tokens that fixes the generator's own literal tokens ([phi_ok]).
    Corollary: a token that is neither a generator literal nor an input
    does not occur in the output. *)
From Coq Require Import List NArith String Bool Lia.
From V Require Import Base.Strings Base.Result Model.Registry Model.Settings Model.Subst
  Model.TypePath Model.Derives Model.Generate Model.Emit Model.Switches Proofs.TpMap.
Import ListNotations.
Open Scope string_scope. Open Scope list_scope.

(** * 1. [phi_ok] plumbing *)

Lemma phi_ok_lit phi d c w : phi_ok phi d c -> In w base_lits -> phi w = w.
Proof.
  intros Hok Hin. apply Hok. left. unfold lits_of. apply in_or_app. left. exact Hin.
Qed.

Lemma em_phi_param phi d c n : phi_ok phi d c -> phi (String.append "_" (N_to_string n)) = String.append "_" (N_to_string n).
Proof. intros Hok. apply Hok. right. left. exists n. reflexivity. Qed.

Lemma em_phi_tpi phi d c p : phi_ok phi d c -> phi (tpi_name p) = tpi_name p.
Proof. intros Hok. unfold tpi_name. eapply em_phi_param; eauto. Qed.

Lemma em_phi_num phi d c n : phi_ok phi d c -> phi (N_to_string n) = N_to_string n.
Proof. intros Hok. apply Hok. right. right. left. exists n. reflexivity. Qed.

Lemma em_phi_usize phi d c n :
  phi_ok phi d c -> phi (String.append (N_to_string n) "usize") = String.append (N_to_string n) "usize".
Proof. intros Hok. apply Hok. right. right. right. left. exists n. reflexivity. Qed.

Lemma em_phi_lit_string phi d c x : phi_ok phi d c -> phi (lit_string x) = lit_string x.
Proof. intros Hok. apply Hok. right. right. right. right. exists x. reflexivity. Qed.

Lemma phi_ok_doc phi c : phi_ok phi true c -> phi "doc" = "doc".
Proof.
  intros Hok. apply Hok. left. unfold lits_of. apply in_or_app. right.
  apply in_or_app. left. cbn. auto.
Qed.

Lemma phi_ok_codec phi d w : phi_ok phi d true -> In w codec_lits -> phi w = w.
Proof.
  intros Hok Hin. apply Hok. left. unfold lits_of. apply in_or_app. right.
  apply in_or_app. right. exact Hin.
Qed.

Lemma gen_lit_mono_codec d c w : gen_lit d c w -> gen_lit d true w.
Proof.
  intros [H|H]; [left|right; exact H].
  unfold lits_of in *. apply in_app_or in H as [H|H]; [apply in_or_app; left; exact H|].
  apply in_app_or in H as [H|H]; apply in_or_app; right; apply in_or_app; [left; exact H|].
  right. destruct c; [exact H|destruct H].
Qed.

Lemma gen_lit_mono_docs d c w : gen_lit d c w -> gen_lit true c w.
Proof.
  intros [H|H]; [left|right; exact H].
  unfold lits_of in *. apply in_app_or in H as [H|H]; [apply in_or_app; left; exact H|].
  apply in_app_or in H as [H|H]; apply in_or_app; right; apply in_or_app; [|right; exact H].
  left. destruct d; [exact H|destruct H].
Qed.

Lemma phi_ok_weaken phi d c : phi_ok phi d true -> phi_ok phi d c.
Proof. intros Hok w Hw. apply Hok. eapply gen_lit_mono_codec; eauto. Qed.

Lemma phi_ok_weaken_docs phi d c : phi_ok phi true c -> phi_ok phi d c.
Proof. intros Hok w Hw. apply Hok. eapply gen_lit_mono_docs; eauto. Qed.

Lemma map_phi_fixed (phi : string -> string) l : (forall w, In w l -> phi w = w) -> map phi l = l.
Proof.
  induction l as [|a l IH]; cbn [map]; intros H; [reflexivity|].
  rewrite (H a) by (left; reflexivity). f_equal. apply IH. intros w Hw. apply H. right. exact Hw.
Qed.

Lemma em_lit1 phi d c w :
  phi_ok phi d c -> existsb (String.eqb w) (lits_of d c) = true -> phi w = w.
Proof.
  intros Hok H. apply existsb_exists in H as (x & Hin & E).
  apply String.eqb_eq in E. subst x. apply Hok. left. exact Hin.
Qed.

Lemma lits_fixed phi d c l :
  phi_ok phi d c -> forallb (fun w => existsb (String.eqb w) (lits_of d c)) l = true -> map phi l = l.
Proof.
  intros Hok H. apply map_phi_fixed. intros w Hw.
  rewrite forallb_forall in H. eapply em_lit1; eauto.
Qed.

(** the same test, arranged so that it computes with [d] / [c] unknown *)
Definition em_litb (d c : bool) (w : string) : bool :=
  existsb (String.eqb w) base_lits ||
  (existsb (String.eqb w) doc_lits && d) ||
  (existsb (String.eqb w) codec_lits && c).

Lemma em_existsb_In w l : existsb (String.eqb w) l = true -> In w l.
Proof.
  intros H. apply existsb_exists in H as (x & Hin & E). apply String.eqb_eq in E. subst x. exact Hin.
Qed.

Lemma em_litb_ok phi d c w : phi_ok phi d c -> em_litb d c w = true -> phi w = w.
Proof.
  intros Hok H. apply Hok. left. unfold lits_of. unfold em_litb in H.
  apply orb_true_iff in H as [H|H]; [apply orb_true_iff in H as [H|H]|].
  - apply in_or_app. left. apply em_existsb_In. exact H.
  - apply andb_true_iff in H as [H Hd]. subst d.
    apply in_or_app. right. apply in_or_app. left. apply em_existsb_In. exact H.
  - apply andb_true_iff in H as [H Hc]. subst c.
    apply in_or_app. right. apply in_or_app. right. apply em_existsb_In. exact H.
Qed.

Lemma em_lits_fixed phi d c l :
  phi_ok phi d c -> forallb (em_litb d c) l = true -> map phi l = l.
Proof.
  intros Hok H. apply map_phi_fixed. intros w Hw.
  rewrite forallb_forall in H. eapply em_litb_ok; eauto.
Qed.

(** rewrite every [phi "literal"] of the goal to ["literal"] *)
Ltac fix_lits phi Hok :=
  repeat match goal with
  | |- context [phi ?w] =>
      let H := fresh "Hfix" in
      assert (H : phi w = w) by (apply (em_litb_ok phi _ _ w Hok); vm_compute; reflexivity);
      rewrite !H; clear H
  end.

(** generic list / monad helpers *)
Lemma em_rmap_ok {A B} (f : A -> B) (x : result A) a : x = Ok a -> rmap f x = Ok (f a).
Proof. intros H. subst x. reflexivity. Qed.

Lemma em_mapM_map {A A' B B'} (f : A -> result B) (g : A' -> result B') (h : A -> A') (k : B -> B') l :
  (forall x, In x l -> g (h x) = rmap k (f x)) ->
  mapM g (map h l) = rmap (map k) (mapM f l).
Proof.
  induction l as [|x l IH]; intros H; [reflexivity|].
  cbn [map mapM]. rewrite (H x) by (left; reflexivity).
  rewrite IH by (intros y Hy; apply H; right; exact Hy).
  destruct (f x) as [y|e|msg]; cbn [rmap bind]; try reflexivity.
  destruct (mapM f l) as [ys|e|msg]; cbn [rmap bind map]; reflexivity.
Qed.

Lemma em_flat_map_map {A B C} (f : A -> B) (g : B -> list C) l :
  flat_map g (map f l) = flat_map (fun x => g (f x)) l.
Proof. induction l as [|a l IH]; cbn [map flat_map]; [reflexivity|]. rewrite IH. reflexivity. Qed.

Lemma em_map_flat_map {A B C} (f : B -> C) (g : A -> list B) l :
  map f (flat_map g l) = flat_map (fun x => map f (g x)) l.
Proof.
  induction l as [|a l IH]; cbn [map flat_map]; [reflexivity|]. rewrite map_app, IH. reflexivity.
Qed.

Lemma em_fixed_no_occ (phi : string -> string) w toks :
  map phi toks = toks -> phi w <> w -> ~ In w toks.
Proof.
  induction toks as [|a l IH]; cbn [map]; intros H Hw Hin; [destruct Hin|].
  injection H as Ha Hl. destruct Hin as [E|Hin]; [subst a; auto|]. exact (IH Hl Hw Hin).
Qed.

(** * 2. Derives / attributes *)

Lemma insert_sorted_map phi x l :
  insert_sorted (map_kt phi x) (map (map_kt phi) l) = map (map_kt phi) (insert_sorted x l).
Proof.
  induction l as [|y l IH]; [reflexivity|].
  cbn [map insert_sorted map_kt fst].
  destruct (String.compare (fst x) (fst y)); cbn [map]; try reflexivity.
  f_equal. exact IH.
Qed.

Lemma sort_dedup_map phi l :
  sort_dedup (map (map_kt phi) l) = map (map_kt phi) (sort_dedup l).
Proof.
  unfold sort_dedup. induction l as [|x l IH]; [reflexivity|].
  cbn [map fold_right]. rewrite IH. apply insert_sorted_map.
Qed.

Lemma em_derive_go_map phi (Hc : phi "," = ",") ds :
  (fix go (l : list kt) : list string :=
     match l with
     | [] => []
     | [x] => snd x
     | x :: l' => snd x ++ [","] ++ go l'
     end) (map (map_kt phi) ds) =
  map phi ((fix go (l : list kt) : list string :=
     match l with
     | [] => []
     | [x] => snd x
     | x :: l' => snd x ++ [","] ++ go l'
     end) ds).
Proof.
  induction ds as [|x ds IH]; [reflexivity|].
  destruct ds as [|y ds]; [reflexivity|].
  cbn [map] in IH |- *. rewrite IH.
  rewrite !map_app. cbn [map map_kt snd]. rewrite Hc. reflexivity.
Qed.

Lemma em_flat_snd_map phi (l : list kt) :
  flat_map snd (map (map_kt phi) l) = map phi (flat_map snd l).
Proof.
  induction l as [|x l IH]; [reflexivity|].
  cbn [map flat_map map_kt snd]. rewrite map_app, IH. reflexivity.
Qed.

Lemma derives_tokens_map phi d c dv :
  phi_ok phi d c -> derives_tokens (map_derives phi dv) = map phi (derives_tokens dv).
Proof.
  intros Hok. unfold derives_tokens.
  cbn [map_derives d_derives d_attrs].
  rewrite !sort_dedup_map, map_app, em_flat_snd_map. f_equal.
  destruct (sort_dedup (d_derives dv)) as [|x ds]; [reflexivity|].
  assert (Hc : phi "," = ",") by (apply (em_lit1 phi _ _ _ Hok); vm_compute; reflexivity).
  change (map (map_kt phi) (x :: ds)) with (map_kt phi x :: map (map_kt phi) ds) at 1.
  cbv iota.
  rewrite !map_app. rewrite <- (em_derive_go_map phi Hc (x :: ds)).
  cbn [map]. fix_lits phi Hok. reflexivity.
Qed.

Lemma doc_tokens_map phi d c docs :
  phi_ok phi d c -> (d = false -> docs = []) -> map phi (doc_tokens docs) = doc_tokens docs.
Proof.
  intros Hok Hd. destruct d.
  - clear Hd. unfold doc_tokens. induction docs as [|x docs IH]; [reflexivity|].
    cbn [flat_map]. rewrite map_app, IH. f_equal.
    cbn [map]. rewrite (em_phi_lit_string phi _ _ x Hok). fix_lits phi Hok. reflexivity.
  - rewrite Hd by reflexivity. reflexivity.
Qed.

Lemma em_sep_params_map phi d c (ps : list tparam_ir) :
  phi_ok phi d c ->
  map phi (sep_by [","] (map (fun p => [tpi_name p]) ps)) =
  sep_by [","] (map (fun p => [tpi_name p]) ps).
Proof.
  intros Hok. induction ps as [|p ps IH]; [reflexivity|].
  destruct ps as [|q ps].
  - cbn [map sep_by]. rewrite (em_phi_tpi phi _ _ p Hok). reflexivity.
  - cbn [map sep_by] in IH |- *. rewrite !map_app, IH. cbn [map].
    rewrite (em_phi_tpi phi _ _ p Hok). fix_lits phi Hok. reflexivity.
Qed.

Lemma em_phantom_one a :
  phantom_tokens [a] = Some (abs_path ["core"; "marker"; "PhantomData"] ++ ["<"; tpi_name a; ">"]).
Proof. reflexivity. Qed.

Lemma em_phantom_many a b l :
  phantom_tokens (a :: b :: l) =
  Some (abs_path ["core"; "marker"; "PhantomData"] ++
        ["<"; "("] ++ sep_by [","] (map (fun p => [tpi_name p]) (a :: b :: l)) ++ [")"; ">"]).
Proof. reflexivity. Qed.

Lemma em_some_inj {A} (x y : A) : Some x = Some y -> x = y.
Proof. intros H. congruence. Qed.

Lemma phantom_tokens_map phi d c unused p :
  phi_ok phi d c -> phantom_tokens unused = Some p -> map phi p = p.
Proof.
  intros Hok H.
  assert (Habs : map phi (abs_path ["core"; "marker"; "PhantomData"]) =
                 abs_path ["core"; "marker"; "PhantomData"]).
  { apply (lits_fixed phi _ _ _ Hok). vm_compute. reflexivity. }
  destruct unused as [|a [|b l]]; [discriminate| |].
  - rewrite em_phantom_one in H. apply em_some_inj in H. subst p.
    rewrite map_app, Habs. f_equal. cbn [map].
    rewrite (em_phi_tpi phi _ _ a Hok). fix_lits phi Hok. reflexivity.
  - rewrite em_phantom_many in H. apply em_some_inj in H. subst p.
    rewrite !map_app, (em_sep_params_map phi _ _ _ Hok), Habs.
    cbn [map]. fix_lits phi Hok. reflexivity.
Qed.

Lemma type_params_tokens_map phi d c ps :
  phi_ok phi d c -> map phi (type_params_tokens ps) = type_params_tokens ps.
Proof.
  intros Hok. unfold type_params_tokens. destruct ps as [|a l]; [reflexivity|].
  rewrite !map_app, (em_sep_params_map phi _ _ _ Hok).
  cbn [map]. fix_lits phi Hok. reflexivity.
Qed.

Lemma em_map_id {A} (f : A -> A) l : (forall x, In x l -> f x = x) -> map f l = l.
Proof.
  induction l as [|a l IH]; cbn [map]; intros H; [reflexivity|].
  rewrite (H a) by (left; reflexivity). f_equal. apply IH. intros x Hx. apply H. right. exact Hx.
Qed.

Lemma em_map_kt_fixed phi (l : list kt) :
  (forall w, In w (flat_map snd l) -> phi w = w) -> map (map_kt phi) l = l.
Proof.
  intros H. apply em_map_id. intros [k t] Hx. unfold map_kt. cbn [fst snd]. f_equal.
  apply map_phi_fixed. intros w Hw. apply H. apply in_flat_map. exists (k, t). split; [exact Hx|exact Hw].
Qed.

Lemma map_derives_fixed phi dv :
  (forall w, In w (derives_inputs dv) -> phi w = w) -> map_derives phi dv = dv.
Proof.
  intros H. destruct dv as [ds ats]. unfold map_derives, derives_inputs in *.
  cbn [d_derives d_attrs] in *.
  rewrite !em_map_kt_fixed; [reflexivity| |]; intros w Hw; apply H; apply in_or_app; [right|left]; exact Hw.
Qed.

Lemma em_map_fi_fixed phi f :
  (forall w, In w (tpath_inputs (fi_path f)) -> phi w = w) -> map_fi phi f = f.
Proof.
  intros H. destruct f as [t cp bx]. unfold map_fi. cbn [fi_path fi_compact fi_boxed] in *.
  rewrite map_tpath_fixed by exact H. reflexivity.
Qed.

Lemma em_map_ckind_fixed phi k :
  (forall w, In w (ckind_inputs k) -> phi w = w) -> map_ckind phi k = k.
Proof.
  intros H. destruct k as [|fs|fs]; cbn [map_ckind ckind_inputs] in *; [reflexivity| |]; f_equal.
  - apply em_map_id. intros [n f] Hx. cbn [fst snd].
    assert (Hin : forall w, In w (n :: tpath_inputs (fi_path f)) -> phi w = w).
    { intros w Hw. apply H. apply in_flat_map. exists (n, f). split; [exact Hx|exact Hw]. }
    rewrite (Hin n) by (left; reflexivity).
    rewrite em_map_fi_fixed; [reflexivity|]. intros w Hw. apply Hin. right. exact Hw.
  - apply em_map_id. intros f Hx. apply em_map_fi_fixed. intros w Hw. apply H.
    apply in_flat_map. exists f. split; [exact Hx|exact Hw].
Qed.

Lemma em_map_ci_fixed phi ci :
  (forall w, In w (ci_inputs ci) -> phi w = w) -> map_ci phi ci = ci.
Proof.
  intros H. destruct ci as [n k docs]. unfold map_ci, ci_inputs in *. cbn [ci_name ci_kind ci_docs] in *.
  rewrite (H n) by (left; reflexivity).
  rewrite em_map_ckind_fixed; [reflexivity|]. intros w Hw. apply H. right. exact Hw.
Qed.

Lemma em_map_kind_fixed phi k :
  (forall w, In w (kind_inputs k) -> phi w = w) -> map_kind phi k = k.
Proof.
  intros H. destruct k as [ci|name docs vs]; cbn [map_kind kind_inputs] in *.
  - rewrite em_map_ci_fixed by exact H. reflexivity.
  - rewrite (H name) by (left; reflexivity). f_equal.
    apply em_map_id. intros [i ci] Hx. cbn [fst snd]. f_equal.
    apply em_map_ci_fixed. intros w Hw. apply H. right. apply in_flat_map.
    exists (i, ci). split; [exact Hx|exact Hw].
Qed.

Lemma map_ir_fixed phi ir :
  (forall w, In w (ir_inputs ir) -> phi w = w) -> map_ir phi ir = ir.
Proof.
  intros H. destruct ir as [ps un dv cd k]. unfold map_ir, ir_inputs in *.
  cbn [ti_params ti_unused ti_derives ti_codec ti_kind] in *.
  rewrite map_derives_fixed by (intros w Hw; apply H; apply in_or_app; left; exact Hw).
  rewrite em_map_kind_fixed by (intros w Hw; apply H; apply in_or_app; right; exact Hw).
  reflexivity.
Qed.

Lemma map_items_fixed phi (m : items) :
  (forall w, In w (items_inputs m) -> phi w = w) -> map_items (map_ir phi) m = m.
Proof.
  intros H. unfold map_items. apply em_map_id. intros [p [i ir]] Hx. cbn [fst snd].
  rewrite map_ir_fixed; [reflexivity|]. intros w Hw. apply H. unfold items_inputs.
  apply in_flat_map. exists (p, (i, ir)). split; [exact Hx|]. cbn [fst snd].
  apply in_or_app. right. exact Hw.
Qed.

(** * 3. The emitter *)

Lemma em_mapM_rmap {A B B'} (f : A -> result B) (g : A -> result B') (k : B -> B') l :
  (forall x, In x l -> g x = rmap k (f x)) -> mapM g l = rmap (map k) (mapM f l).
Proof.
  intros H. rewrite <- (map_id l) at 1. apply em_mapM_map. exact H.
Qed.

Lemma em_abs_lits phi d c l :
  phi_ok phi d c -> forallb (em_litb d c) (abs_path l) = true ->
  map phi (abs_path l) = abs_path l.
Proof. intros Hok H. apply (em_lits_fixed phi d c _ Hok H). Qed.

Lemma field_tokens_map phi d c s1 s2 f :
  phi_ok phi d c ->
  alloc_tokens (s_alloc s2) = map phi (alloc_tokens (s_alloc s1)) ->
  field_tokens s2 (map_fi phi f) = rmap (map phi) (field_tokens s1 f).
Proof.
  intros Hok Ha. unfold field_tokens. cbv zeta.
  replace (fi_emit_boxed (map_fi phi f)) with (fi_emit_boxed f) by (destruct f; reflexivity).
  cbn [map_fi fi_path fi_boxed].
  rewrite Ha, (tp_tokens_map phi d c _ _ Hok).
  destruct (tp_tokens (alloc_tokens (s_alloc s1)) (fi_path f)) as [t|e|msg]; cbn [rmap bind];
    try reflexivity.
  destruct (fi_emit_boxed f); cbn [rmap bind]; [|reflexivity].
  f_equal. rewrite !map_app.
  rewrite (em_abs_lits phi d c ["boxed"; "Box"] Hok) by (vm_compute; reflexivity).
  cbn [map]. fix_lits phi Hok. reflexivity.
Qed.

Lemma em_compact_attr_of_map_fi phi codec f :
  compact_attr_of codec (map_fi phi f) = compact_attr_of codec f.
Proof. reflexivity. Qed.

Lemma em_compact_attr_map phi d codec f :
  phi_ok phi d codec -> map phi (compact_attr_of codec f) = compact_attr_of codec f.
Proof.
  intros Hok. unfold compact_attr_of. destruct (fi_compact f); [|reflexivity].
  destruct codec; [|reflexivity]. cbn [andb].
  apply (em_lits_fixed phi d true _ Hok). vm_compute. reflexivity.
Qed.

Lemma em_codec_skip_map phi d (codec : bool) :
  phi_ok phi d codec ->
  map phi (if codec then codec_skip else []) = (if codec then codec_skip else []).
Proof.
  intros Hok. destruct codec; [|reflexivity].
  apply (em_lits_fixed phi d true _ Hok). vm_compute. reflexivity.
Qed.

Lemma em_codec_index_map phi d (codec : bool) i :
  phi_ok phi d codec ->
  map phi (if codec then codec_index i else []) = (if codec then codec_index i else []).
Proof.
  intros Hok. destruct codec; [|reflexivity].
  unfold codec_index. cbn [map]. rewrite (em_phi_num phi _ _ i Hok). fix_lits phi Hok. reflexivity.
Qed.

Lemma struct_field_tokens_map phi d codec s1 s2 k ph :
  phi_ok phi d codec ->
  alloc_tokens (s_alloc s2) = map phi (alloc_tokens (s_alloc s1)) ->
  (forall p, ph = Some p -> map phi p = p) ->
  struct_field_tokens s2 (map_ckind phi k) ph codec =
  rmap (map phi) (struct_field_tokens s1 k ph codec).
Proof.
  intros Hok Ha Hph.
  assert (Hsk := em_codec_skip_map phi d codec Hok).
  destruct k as [|fs|fs]; cbn [map_ckind struct_field_tokens].
  - destruct ph as [p|]; cbn [rmap bind]; [|reflexivity].
    f_equal. rewrite !map_app, (Hph p eq_refl). cbn [map]. fix_lits phi Hok. reflexivity.
  - rewrite (em_mapM_map
               (fun '(name, f) =>
                  let* t := field_tokens s1 f in
                  Ok (compact_attr_of codec f ++ ["pub"; name; ":"] ++ t ++ [","]))
               _ _ (map phi)).
    + destruct (mapM _ fs) as [l|e|msg]; cbn [rmap bind]; try reflexivity.
      f_equal.
      destruct ph as [p|];
        [rewrite !map_app, concat_map, (Hph p eq_refl), Hsk | rewrite !map_app, concat_map];
        cbn [map]; fix_lits phi Hok; reflexivity.
    + intros [name f] _. cbn [fst snd].
      rewrite (field_tokens_map phi d codec s1 s2 f Hok Ha).
      destruct (field_tokens s1 f) as [t|e|msg]; cbn [rmap bind]; try reflexivity.
      f_equal. rewrite !map_app, em_compact_attr_of_map_fi, (em_compact_attr_map phi d codec f Hok).
      cbn [map]. fix_lits phi Hok. reflexivity.
  - rewrite (em_mapM_map
               (fun f =>
                  let* t := field_tokens s1 f in
                  Ok (compact_attr_of codec f ++ ["pub"] ++ t ++ [","]))
               _ _ (map phi)).
    + destruct (mapM _ fs) as [l|e|msg]; cbn [rmap bind]; try reflexivity.
      f_equal.
      destruct ph as [p|];
        [rewrite !map_app, concat_map, (Hph p eq_refl), Hsk | rewrite !map_app, concat_map];
        cbn [map]; fix_lits phi Hok; reflexivity.
    + intros f _.
      rewrite (field_tokens_map phi d codec s1 s2 f Hok Ha).
      destruct (field_tokens s1 f) as [t|e|msg]; cbn [rmap bind]; try reflexivity.
      f_equal. rewrite !map_app, em_compact_attr_of_map_fi, (em_compact_attr_map phi d codec f Hok).
      cbn [map]. fix_lits phi Hok. reflexivity.
Qed.

Lemma enum_field_tokens_map phi d codec s1 s2 k :
  phi_ok phi d codec ->
  alloc_tokens (s_alloc s2) = map phi (alloc_tokens (s_alloc s1)) ->
  enum_field_tokens s2 (map_ckind phi k) codec =
  rmap (map phi) (enum_field_tokens s1 k codec).
Proof.
  intros Hok Ha. destruct k as [|fs|fs]; cbn [map_ckind enum_field_tokens].
  - reflexivity.
  - rewrite (em_mapM_map
               (fun '(name, f) =>
                  let* t := field_tokens s1 f in
                  Ok (compact_attr_of codec f ++ [name; ":"] ++ t ++ [","]))
               _ _ (map phi)).
    + destruct (mapM _ fs) as [l|e|msg]; cbn [rmap bind]; try reflexivity.
      f_equal. rewrite !map_app, concat_map. cbn [map]. fix_lits phi Hok. reflexivity.
    + intros [name f] _. cbn [fst snd].
      rewrite (field_tokens_map phi d codec s1 s2 f Hok Ha).
      destruct (field_tokens s1 f) as [t|e|msg]; cbn [rmap bind]; try reflexivity.
      f_equal. rewrite !map_app, em_compact_attr_of_map_fi, (em_compact_attr_map phi d codec f Hok).
      cbn [map]. fix_lits phi Hok. reflexivity.
  - rewrite (em_mapM_map
               (fun f =>
                  let* t := field_tokens s1 f in
                  Ok (compact_attr_of codec f ++ t ++ [","]))
               _ _ (map phi)).
    + destruct (mapM _ fs) as [l|e|msg]; cbn [rmap bind]; try reflexivity.
      f_equal. rewrite !map_app, concat_map. cbn [map]. fix_lits phi Hok. reflexivity.
    + intros f _.
      rewrite (field_tokens_map phi d codec s1 s2 f Hok Ha).
      destruct (field_tokens s1 f) as [t|e|msg]; cbn [rmap bind]; try reflexivity.
      f_equal. rewrite !map_app, em_compact_attr_of_map_fi, (em_compact_attr_map phi d codec f Hok).
      cbn [map]. fix_lits phi Hok. reflexivity.
Qed.

Lemma em_docs_nil (docs : list string) :
  match docs with [] => true | _ => false end = true -> docs = [].
Proof. destruct docs; [reflexivity|discriminate]. Qed.

Lemma type_ir_tokens_map phi d s1 s2 ir :
  phi_ok phi d (ti_codec ir) ->
  (d = false -> ir_docs_empty ir = true) ->
  alloc_tokens (s_alloc s2) = map phi (alloc_tokens (s_alloc s1)) ->
  type_ir_tokens s2 (map_ir phi ir) = rmap (map phi) (type_ir_tokens s1 ir).
Proof.
  intros Hok Hd Ha. destruct ir as [ps un dv cd k].
  unfold ir_docs_empty in Hd. cbn [ti_codec ti_kind] in Hok, Hd.
  unfold type_ir_tokens, map_ir. cbv zeta.
  cbn [ti_params ti_unused ti_derives ti_codec ti_kind].
  rewrite (derives_tokens_map phi d cd dv Hok).
  assert (Hph : forall p, phantom_tokens un = Some p -> map phi p = p).
  { intros p Hp. eapply phantom_tokens_map; eauto. }
  assert (Htp := type_params_tokens_map phi d cd ps Hok).
  destruct k as [ci|name docs vs]; cbn [map_kind].
  - destruct ci as [n ck cdocs]. cbn [map_ci ci_kind ci_name ci_docs].
    cbn [kind_docs_empty ci_docs] in Hd.
    rewrite (struct_field_tokens_map phi d cd s1 s2 ck _ Hok Ha Hph).
    destruct (struct_field_tokens s1 ck (phantom_tokens un) cd) as [fields|e|msg];
      cbn [rmap bind]; try reflexivity.
    f_equal. rewrite !map_app, Htp.
    rewrite (doc_tokens_map phi d cd cdocs Hok) by (intros E; apply em_docs_nil; auto).
    destruct ck as [|fs|fs]; cbn [map_ckind map]; fix_lits phi Hok; reflexivity.
  - cbn [kind_docs_empty] in Hd.
    rewrite (em_mapM_map
               (fun '(idx, c) =>
                  let* fields := enum_field_tokens s1 (ci_kind c) cd in
                  Ok ((if cd then codec_index idx else []) ++
                      doc_tokens (ci_docs c) ++ [ci_name c] ++ fields ++ [","]))
               _ _ (map phi)).
    + destruct (mapM _ vs) as [l|e|msg]; cbn [rmap bind]; try reflexivity.
      f_equal. rewrite !map_app, concat_map, Htp.
      rewrite (doc_tokens_map phi d cd docs Hok)
        by (intros E; apply em_docs_nil; specialize (Hd E); apply andb_true_iff in Hd; tauto).
      destruct (phantom_tokens un) as [p|];
        [rewrite !map_app, (Hph p eq_refl)|]; cbn [map]; fix_lits phi Hok; reflexivity.
    + intros [idx [n ck cdocs]] Hin. cbn [fst snd map_ci ci_kind ci_name ci_docs].
      rewrite (enum_field_tokens_map phi d cd s1 s2 ck Hok Ha).
      destruct (enum_field_tokens s1 ck cd) as [fields|e|msg]; cbn [rmap bind]; try reflexivity.
      f_equal. rewrite !map_app, (em_codec_index_map phi d cd idx Hok).
      rewrite (doc_tokens_map phi d cd cdocs Hok).
      * cbn [map]. fix_lits phi Hok. reflexivity.
      * intros E. apply em_docs_nil. specialize (Hd E). apply andb_true_iff in Hd as [_ Hd].
        rewrite forallb_forall in Hd. apply (Hd _ Hin).
Qed.

(** ** the module tree *)

(** the image of an entry: only the item changes *)
Definition em_entry_map (phi : string -> string) (e : entry) : entry :=
  (fst e, (fst (snd e), map_ir phi (snd (snd e)))).

Lemma em_child_names_map phi es : child_names (map (em_entry_map phi) es) = child_names es.
Proof.
  unfold child_names. induction es as [|e es IH]; [reflexivity|].
  cbn [map fold_right]. rewrite IH. reflexivity.
Qed.

Lemma em_under_map phi h es :
  under h (map (em_entry_map phi) es) = map (em_entry_map phi) (under h es).
Proof.
  unfold under. induction es as [|e es IH]; [reflexivity|].
  cbn [map flat_map]. rewrite map_app, IH. f_equal.
  unfold em_entry_map at 1 2. cbn [fst snd].
  destruct (fst e) as [|h' [|x tl]]; try reflexivity.
  destruct (String.eqb h h'); reflexivity.
Qed.

Lemma em_here_map phi es :
  here (map (em_entry_map phi) es) = map (em_entry_map phi) (here es).
Proof.
  unfold here. induction es as [|e es IH]; [reflexivity|].
  cbn [map filter]. unfold em_entry_map at 1. cbn [fst].
  destruct (fst e) as [|a [|b l]]; cbn [map]; rewrite IH; reflexivity.
Qed.

Lemma em_insert_str_in x h l : In x (insert_str h l) -> x = h \/ In x l.
Proof.
  induction l as [|y l IH]; cbn [insert_str]; intros H.
  - destruct H as [H|[]]. left. symmetry. exact H.
  - destruct (String.compare h y).
    + right. exact H.
    + destruct H as [H|H]; [left; symmetry; exact H|right; exact H].
    + destruct H as [H|H]; [right; left; exact H|].
      destruct (IH H) as [E|Hin]; [left; exact E|right; right; exact Hin].
Qed.

Lemma em_child_names_in h (es : list entry) :
  In h (child_names es) -> exists e, In e es /\ In h (fst e).
Proof.
  unfold child_names. induction es as [|e es IH]; cbn [fold_right]; intros H; [destruct H|].
  assert (Hrec : In h (fold_right (fun e acc => match fst e with
                                                | h :: _ :: _ => insert_str h acc
                                                | _ => acc
                                                end) [] es) ->
                 exists e0, In e0 (e :: es) /\ In h (fst e0)).
  { intros H'. destruct (IH H') as (e0 & Hin & Hh). exists e0. split; [right; exact Hin|exact Hh]. }
  destruct (fst e) as [|h' [|x tl]] eqn:E; try (apply Hrec; exact H).
  apply em_insert_str_in in H as [->|H]; [|apply Hrec; exact H].
  exists e. split; [left; reflexivity|]. rewrite E. left. reflexivity.
Qed.

Lemma em_under_in h (es : list entry) e' :
  In e' (under h es) ->
  exists e, In e es /\ snd e' = snd e /\ (forall seg, In seg (fst e') -> In seg (fst e)).
Proof.
  unfold under. intros H. apply in_flat_map in H as (e & Hin & H).
  exists e. split; [exact Hin|].
  destruct (fst e) as [|h' [|x tl]] eqn:E; try destruct H.
  destruct (String.eqb h h'); [|destruct H].
  destruct H as [<-|[]]. cbn [fst snd]. split; [reflexivity|].
  intros seg Hs. right. exact Hs.
Qed.

Lemma em_module_tokens_S s fuel name es :
  module_tokens s (S fuel) name es =
  let* mods := mapM (fun h => module_tokens s fuel h (under h es)) (child_names es) in
  let* tys := mapM (fun e => type_ir_tokens s (snd (snd e))) (here es) in
  Ok (["pub"; "mod"; name; "{"; "use"; "super"; ":"; ":"; s_root s; ";"] ++
      List.concat mods ++ List.concat tys ++ ["}"]).
Proof. reflexivity. Qed.

Lemma em_item_ok_phi phi d c ir : phi_ok phi d c -> item_ok d c ir -> phi_ok phi d (ti_codec ir).
Proof.
  intros Hok [_ Hc]. destruct c.
  - apply phi_ok_weaken. exact Hok.
  - rewrite Hc by reflexivity. exact Hok.
Qed.

Lemma module_tokens_map phi d c s1 s2 :
  phi_ok phi d c ->
  alloc_tokens (s_alloc s2) = map phi (alloc_tokens (s_alloc s1)) ->
  s_root s2 = phi (s_root s1) ->
  forall fuel name (es : list entry),
    Forall (fun e => item_ok d c (snd (snd e))) es ->
    (forall e seg, In e es -> In seg (fst e) -> phi seg = seg) ->
    module_tokens s2 fuel (phi name) (map (em_entry_map phi) es) =
    rmap (map phi) (module_tokens s1 fuel name es).
Proof.
  intros Hok Ha Hroot. induction fuel as [|fuel IH]; intros name es Hall Hseg; [reflexivity|].
  rewrite !em_module_tokens_S, em_child_names_map, em_here_map.
  rewrite (em_mapM_rmap (fun h => module_tokens s1 fuel h (under h es)) _ (map phi)).
  - destruct (mapM _ (child_names es)) as [mods|e|msg]; cbn [rmap bind]; try reflexivity.
    match goal with
    | |- bind ?X _ = _ =>
        assert (E : X = rmap (map (map phi))
                          (mapM (fun e : list string * (list string * type_ir) =>
                                   type_ir_tokens s1 (snd (snd e))) (here es)))
    end.
    { apply em_mapM_map. intros e He. unfold em_entry_map. cbn [fst snd].
      apply filter_In in He as [He _].
      rewrite Forall_forall in Hall. specialize (Hall e He). cbn beta in Hall.
      apply (type_ir_tokens_map phi d s1 s2 (snd (snd e))); [|apply Hall|exact Ha].
      eapply em_item_ok_phi; eauto. }
    rewrite E. clear E.
    match goal with
    | |- context [rmap _ (mapM ?f (here es))] =>
        destruct (mapM f (here es)) as [tys|e|msg]; cbn [rmap bind]; try reflexivity
    end.
    f_equal. rewrite !map_app, !concat_map, Hroot. cbn [map]. fix_lits phi Hok. reflexivity.
  - intros h Hh. apply em_child_names_in in Hh as (e & He & Hh).
    assert (Eh : phi h = h) by (eapply Hseg; eauto).
    rewrite em_under_map. rewrite <- Eh at 1. apply IH.
    + apply Forall_forall. intros e' He'. apply em_under_in in He' as (e0 & He0 & Es & _).
      rewrite Es. rewrite Forall_forall in Hall. apply (Hall e0 He0).
    + intros e' seg He' Hs. apply em_under_in in He' as (e0 & He0 & _ & Hsub).
      apply (Hseg e0 seg He0). apply Hsub. exact Hs.
Qed.

Lemma em_max_depth_map_items f m : max_depth (map_items f m) = max_depth m.
Proof.
  unfold max_depth, map_items. induction m as [|e m IH]; [reflexivity|].
  cbn [map fold_right fst]. rewrite IH. reflexivity.
Qed.

Lemma emit_module_map phi d c s1 s2 (m : items) :
  phi_ok phi d c ->
  Forall (fun e => item_ok d c (snd (snd e))) m ->
  (forall e seg, In e m -> In seg (fst e) -> phi seg = seg) ->
  alloc_tokens (s_alloc s2) = map phi (alloc_tokens (s_alloc s1)) ->
  s_root s2 = phi (s_root s1) ->
  emit_module s2 (map_items (map_ir phi) m) = rmap (map phi) (emit_module s1 m).
Proof.
  intros Hok Hall Hseg Ha Hroot. unfold emit_module.
  rewrite em_max_depth_map_items, Hroot.
  replace (map (fun e => (fst e, (fst e, snd (snd e)))) (map_items (map_ir phi) m))
    with (map (em_entry_map phi) (map (fun e : list string * (N * type_ir) => (fst e, (fst e, snd (snd e)))) m)).
  - apply (module_tokens_map phi d c s1 s2 Hok Ha Hroot).
    + apply Forall_forall. intros e' He'. apply in_map_iff in He' as (e & <- & He).
      cbn [fst snd]. rewrite Forall_forall in Hall. apply (Hall e He).
    + intros e' seg He' Hs. apply in_map_iff in He' as (e & <- & He).
      cbn [fst] in Hs. apply (Hseg e seg He Hs).
  - unfold map_items. rewrite !map_map. apply map_ext. intros e. reflexivity.
Qed.

(** * 4. Every output token is a generator literal or an input *)

Lemma em_rename_same a b : rename_tok a b a = b.
Proof. unfold rename_tok. rewrite String.eqb_refl. reflexivity. Qed.

Lemma em_rename_other a b x : x <> a -> rename_tok a b x = x.
Proof.
  intros Hne. unfold rename_tok. destruct (String.eqb x a) eqn:E; [|reflexivity].
  apply String.eqb_eq in E. contradiction.
Qed.

Lemma em_fresh_neq w : (if String.eqb w "" then "a" else "") <> w.
Proof.
  destruct (String.eqb w "") eqn:E.
  - apply String.eqb_eq in E. subst w. discriminate.
  - apply String.eqb_neq in E. intros E'. apply E. symmetry. exact E'.
Qed.

Lemma em_rename_phi_ok w w' d c : ~ gen_lit d c w -> phi_ok (rename_tok w w') d c.
Proof.
  intros Hn x Hx. apply em_rename_other. intros E. subst x. contradiction.
Qed.

Lemma em_rename_fixed w w' l x : ~ In w l -> In x l -> rename_tok w w' x = x.
Proof. intros Hn Hx. apply em_rename_other. intros E. subst x. contradiction. Qed.

Lemma em_ok_inj {A} (x y : A) : Ok x = Ok y -> x = y.
Proof. intros H. congruence. Qed.

Lemma tp_tokens_from alloc t toks w :
  tp_tokens alloc t = Ok toks ->
  ~ gen_lit false false w ->
  ~ In w (alloc ++ tpath_inputs t) ->
  ~ In w toks.
Proof.
  intros H Hnl Hni.
  set (w' := if String.eqb w "" then "a" else "").
  set (phi := rename_tok w w').
  assert (Hok : phi_ok phi false false) by (apply em_rename_phi_ok; exact Hnl).
  assert (Hfix : forall x, In x (alloc ++ tpath_inputs t) -> phi x = x).
  { intros x Hx. eapply em_rename_fixed; eauto. }
  pose proof (tp_tokens_map phi false false alloc t Hok) as E.
  rewrite (map_phi_fixed phi alloc) in E by (intros x Hx; apply Hfix, in_or_app; left; exact Hx).
  rewrite (map_tpath_fixed phi t) in E by (intros x Hx; apply Hfix, in_or_app; right; exact Hx).
  rewrite H in E. cbn [rmap bind] in E. apply em_ok_inj in E.
  apply (em_fixed_no_occ phi); [symmetry; exact E|].
  unfold phi. rewrite em_rename_same. apply em_fresh_neq.
Qed.

Lemma type_ir_tokens_from d s ir toks w :
  type_ir_tokens s ir = Ok toks ->
  (d = false -> ir_docs_empty ir = true) ->
  ~ gen_lit d (ti_codec ir) w ->
  ~ In w (alloc_tokens (s_alloc s) ++ ir_inputs ir) ->
  ~ In w toks.
Proof.
  intros H Hd Hnl Hni.
  set (w' := if String.eqb w "" then "a" else "").
  set (phi := rename_tok w w').
  assert (Hok : phi_ok phi d (ti_codec ir)) by (apply em_rename_phi_ok; exact Hnl).
  assert (Hfix : forall x, In x (alloc_tokens (s_alloc s) ++ ir_inputs ir) -> phi x = x).
  { intros x Hx. eapply em_rename_fixed; eauto. }
  assert (Ha : alloc_tokens (s_alloc s) = map phi (alloc_tokens (s_alloc s))).
  { symmetry. apply map_phi_fixed. intros x Hx. apply Hfix, in_or_app. left. exact Hx. }
  pose proof (type_ir_tokens_map phi d s s ir Hok Hd Ha) as E.
  rewrite (map_ir_fixed phi ir) in E by (intros x Hx; apply Hfix, in_or_app; right; exact Hx).
  rewrite H in E. cbn [rmap bind] in E. apply em_ok_inj in E.
  apply (em_fixed_no_occ phi); [symmetry; exact E|].
  unfold phi. rewrite em_rename_same. apply em_fresh_neq.
Qed.

Lemma emit_tokens_from d c s (m : items) toks w :
  emit_module s m = Ok toks ->
  Forall (fun e => item_ok d c (snd (snd e))) m ->
  ~ gen_lit d c w ->
  ~ In w (s_root s :: alloc_tokens (s_alloc s) ++ items_inputs m) ->
  ~ In w toks.
Proof.
  intros H Hall Hnl Hni.
  set (w' := if String.eqb w "" then "a" else "").
  set (phi := rename_tok w w').
  assert (Hok : phi_ok phi d c) by (apply em_rename_phi_ok; exact Hnl).
  assert (Hfix : forall x, In x (s_root s :: alloc_tokens (s_alloc s) ++ items_inputs m) -> phi x = x).
  { intros x Hx. eapply em_rename_fixed; eauto. }
  assert (Ha : alloc_tokens (s_alloc s) = map phi (alloc_tokens (s_alloc s))).
  { symmetry. apply map_phi_fixed. intros x Hx. apply Hfix. right. apply in_or_app. left. exact Hx. }
  assert (Hroot : s_root s = phi (s_root s)).
  { symmetry. apply Hfix. left. reflexivity. }
  assert (Hseg : forall e seg, In e m -> In seg (fst e) -> phi seg = seg).
  { intros e seg He Hs. apply Hfix. right. apply in_or_app. right.
    unfold items_inputs. apply in_flat_map. exists e. split; [exact He|].
    apply in_or_app. left. exact Hs. }
  pose proof (emit_module_map phi d c s s m Hok Hall Hseg Ha Hroot) as E.
  rewrite (map_items_fixed phi m) in E
    by (intros x Hx; apply Hfix; right; apply in_or_app; right; exact Hx).
  rewrite H in E. cbn [rmap bind] in E. apply em_ok_inj in E.
  apply (em_fixed_no_occ phi); [symmetry; exact E|].
  unfold phi. rewrite em_rename_same. apply em_fresh_neq.
Qed.
