(** The emitter treats tokens opaquely: it commutes with every renaming [phi]
    of tokens that fixes the generator's own literal tokens ([phi_ok]).
    Corollary: a token that is neither a generator literal nor an input
    does not occur in the output. *)
From Coq Require Import List NArith String Bool Lia.
From V Require Import Base.Strings Base.Result Model.Registry Model.Settings Model.Subst
  Model.TypePath Model.Derives Model.Generate Model.Emit Model.Switches.
Import ListNotations.
Open Scope string_scope. Open Scope list_scope.

(** * 1. [phi_ok] plumbing *)

Lemma phi_ok_lit phi d c w : phi_ok phi d c -> In w base_lits -> phi w = w.
Proof.
  intros Hok Hin. apply Hok. left. unfold lits_of. apply in_or_app. left. exact Hin.
Qed.

Lemma phi_ok_param phi d c n : phi_ok phi d c -> phi (String.append "_" (N_to_string n)) = String.append "_" (N_to_string n).
Proof. intros Hok. apply Hok. right. left. exists n. reflexivity. Qed.

Lemma phi_ok_tpi phi d c p : phi_ok phi d c -> phi (tpi_name p) = tpi_name p.
Proof. intros Hok. unfold tpi_name. eapply phi_ok_param; eauto. Qed.

Lemma phi_ok_num phi d c n : phi_ok phi d c -> phi (N_to_string n) = N_to_string n.
Proof. intros Hok. apply Hok. right. right. left. exists n. reflexivity. Qed.

Lemma phi_ok_usize phi d c n :
  phi_ok phi d c -> phi (String.append (N_to_string n) "usize") = String.append (N_to_string n) "usize".
Proof. intros Hok. apply Hok. right. right. right. left. exists n. reflexivity. Qed.

Lemma phi_ok_lit_string phi d c x : phi_ok phi d c -> phi (lit_string x) = lit_string x.
Proof. intros Hok. apply Hok. right. right. right. right. exists x. reflexivity. Qed.

Lemma phi_ok_doc phi c : phi_ok phi true c -> phi "doc" = "doc".
Proof.
  intros Hok. apply Hok. left. unfold lits_of. apply in_or_app. right.
  apply in_or_app. left. cbn. auto.
Qed.

Lemma phi_ok_codec phi d w : phi_ok phi d true -> In w codec_lits -> phi w = w.
Proof.
  intros Hok Hin. apply Hok. left. unfold lits_of. apply in_or_app. right.
  apply in_or_app. right. exact Hin.
Qed.

Lemma gen_lit_mono_codec d c w : gen_lit d c w -> gen_lit d true w.
Proof.
  intros [H|H]; [left|right; exact H].
  unfold lits_of in *. apply in_app_or in H as [H|H]; [apply in_or_app; left; exact H|].
  apply in_app_or in H as [H|H]; apply in_or_app; right; apply in_or_app; [left; exact H|].
  right. destruct c; [exact H|destruct H].
Qed.

Lemma gen_lit_mono_docs d c w : gen_lit d c w -> gen_lit true c w.
Proof.
  intros [H|H]; [left|right; exact H].
  unfold lits_of in *. apply in_app_or in H as [H|H]; [apply in_or_app; left; exact H|].
  apply in_app_or in H as [H|H]; apply in_or_app; right; apply in_or_app; [|right; exact H].
  left. destruct d; [exact H|destruct H].
Qed.

Lemma phi_ok_weaken phi d c : phi_ok phi d true -> phi_ok phi d c.
Proof. intros Hok w Hw. apply Hok. eapply gen_lit_mono_codec; eauto. Qed.

Lemma phi_ok_weaken_docs phi d c : phi_ok phi true c -> phi_ok phi d c.
Proof. intros Hok w Hw. apply Hok. eapply gen_lit_mono_docs; eauto. Qed.

Lemma map_phi_fixed (phi : string -> string) l : (forall w, In w l -> phi w = w) -> map phi l = l.
Proof.
  induction l as [|a l IH]; cbn [map]; intros H; [reflexivity|].
  rewrite (H a) by (left; reflexivity). f_equal. apply IH. intros w Hw. apply H. right. exact Hw.
Qed.

Lemma em_lit1 phi d c w :
  phi_ok phi d c -> existsb (String.eqb w) (lits_of d c) = true -> phi w = w.
Proof.
  intros Hok H. apply existsb_exists in H as (x & Hin & E).
  apply String.eqb_eq in E. subst x. apply Hok. left. exact Hin.
Qed.

Lemma lits_fixed phi d c l :
  phi_ok phi d c -> forallb (fun w => existsb (String.eqb w) (lits_of d c)) l = true -> map phi l = l.
Proof.
  intros Hok H. apply map_phi_fixed. intros w Hw.
  rewrite forallb_forall in H. eapply em_lit1; eauto.
Qed.

(** rewrite every [phi "literal"] of the goal to ["literal"] *)
Ltac fix_lits phi Hok :=
  repeat match goal with
  | |- context [phi ?w] =>
      let H := fresh "Hfix" in
      assert (H : phi w = w) by (apply (em_lit1 phi _ _ w Hok); vm_compute; reflexivity);
      rewrite !H; clear H
  end.

(** generic list / monad helpers *)
Lemma em_rmap_ok {A B} (f : A -> B) (x : result A) a : x = Ok a -> rmap f x = Ok (f a).
Proof. intros H. subst x. reflexivity. Qed.

Lemma em_mapM_map {A A' B B'} (f : A -> result B) (g : A' -> result B') (h : A -> A') (k : B -> B') l :
  (forall x, In x l -> g (h x) = rmap k (f x)) ->
  mapM g (map h l) = rmap (map k) (mapM f l).
Proof.
  induction l as [|x l IH]; intros H; [reflexivity|].
  cbn [map mapM]. rewrite (H x) by (left; reflexivity).
  rewrite IH by (intros y Hy; apply H; right; exact Hy).
  destruct (f x) as [y|e|msg]; cbn [rmap bind]; try reflexivity.
  destruct (mapM f l) as [ys|e|msg]; cbn [rmap bind map]; reflexivity.
Qed.

Lemma em_flat_map_map {A B C} (f : A -> B) (g : B -> list C) l :
  flat_map g (map f l) = flat_map (fun x => g (f x)) l.
Proof. induction l as [|a l IH]; cbn [map flat_map]; [reflexivity|]. rewrite IH. reflexivity. Qed.

Lemma em_map_flat_map {A B C} (f : B -> C) (g : A -> list B) l :
  map f (flat_map g l) = flat_map (fun x => map f (g x)) l.
Proof.
  induction l as [|a l IH]; cbn [map flat_map]; [reflexivity|]. rewrite map_app, IH. reflexivity.
Qed.

Lemma em_fixed_no_occ (phi : string -> string) w toks :
  map phi toks = toks -> phi w <> w -> ~ In w toks.
Proof.
  induction toks as [|a l IH]; cbn [map]; intros H Hw Hin; [destruct Hin|].
  injection H as Ha Hl. destruct Hin as [E|Hin]; [subst a; auto|]. exact (IH Hl Hw Hin).
Qed.

(** * 2. Derives / attributes *)

Lemma insert_sorted_map phi x l :
  insert_sorted (map_kt phi x) (map (map_kt phi) l) = map (map_kt phi) (insert_sorted x l).
Proof.
  induction l as [|y l IH]; [reflexivity|].
  cbn [map insert_sorted map_kt fst].
  destruct (String.compare (fst x) (fst y)); cbn [map]; try reflexivity.
  f_equal. exact IH.
Qed.

Lemma sort_dedup_map phi l :
  sort_dedup (map (map_kt phi) l) = map (map_kt phi) (sort_dedup l).
Proof.
  unfold sort_dedup. induction l as [|x l IH]; [reflexivity|].
  cbn [map fold_right]. rewrite IH. apply insert_sorted_map.
Qed.

Lemma em_derive_go_map phi (Hc : phi "," = ",") ds :
  (fix go (l : list kt) : list string :=
     match l with
     | [] => []
     | [x] => snd x
     | x :: l' => snd x ++ [","] ++ go l'
     end) (map (map_kt phi) ds) =
  map phi ((fix go (l : list kt) : list string :=
     match l with
     | [] => []
     | [x] => snd x
     | x :: l' => snd x ++ [","] ++ go l'
     end) ds).
Proof.
  induction ds as [|x ds IH]; [reflexivity|].
  destruct ds as [|y ds]; [reflexivity|].
  cbn [map] in IH |- *. rewrite IH.
  rewrite !map_app. cbn [map map_kt snd]. rewrite Hc. reflexivity.
Qed.

Lemma em_flat_snd_map phi (l : list kt) :
  flat_map snd (map (map_kt phi) l) = map phi (flat_map snd l).
Proof.
  induction l as [|x l IH]; [reflexivity|].
  cbn [map flat_map map_kt snd]. rewrite map_app, IH. reflexivity.
Qed.

Lemma derives_tokens_map phi d c dv :
  phi_ok phi d c -> derives_tokens (map_derives phi dv) = map phi (derives_tokens dv).
Proof.
  intros Hok. unfold derives_tokens.
  cbn [map_derives d_derives d_attrs].
  rewrite !sort_dedup_map, map_app, em_flat_snd_map. f_equal.
  destruct (sort_dedup (d_derives dv)) as [|x ds]; [reflexivity|].
  assert (Hc : phi "," = ",") by (apply (em_lit1 phi _ _ _ Hok); vm_compute; reflexivity).
  change (map (map_kt phi) (x :: ds)) with (map_kt phi x :: map (map_kt phi) ds) at 1.
  cbv iota.
  rewrite !map_app. rewrite <- (em_derive_go_map phi Hc (x :: ds)).
  cbn [map]. fix_lits phi Hok. reflexivity.
Qed.

Lemma doc_tokens_map phi d c docs :
  phi_ok phi d c -> (d = false -> docs = []) -> map phi (doc_tokens docs) = doc_tokens docs.
Proof.
  intros Hok Hd. destruct d.
  - clear Hd. unfold doc_tokens. induction docs as [|x docs IH]; [reflexivity|].
    cbn [flat_map]. rewrite map_app, IH. f_equal.
    cbn [map]. rewrite (phi_ok_lit_string phi _ _ x Hok). fix_lits phi Hok. reflexivity.
  - rewrite Hd by reflexivity. reflexivity.
Qed.

Lemma em_sep_params_map phi d c (ps : list tparam_ir) :
  phi_ok phi d c ->
  map phi (sep_by [","] (map (fun p => [tpi_name p]) ps)) =
  sep_by [","] (map (fun p => [tpi_name p]) ps).
Proof.
  intros Hok. induction ps as [|p ps IH]; [reflexivity|].
  destruct ps as [|q ps].
  - cbn [map sep_by]. rewrite (phi_ok_tpi phi _ _ p Hok). reflexivity.
  - cbn [map sep_by] in IH |- *. rewrite !map_app, IH. cbn [map].
    rewrite (phi_ok_tpi phi _ _ p Hok). fix_lits phi Hok. reflexivity.
Qed.

Lemma em_phantom_one a :
  phantom_tokens [a] = Some (abs_path ["core"; "marker"; "PhantomData"] ++ ["<"; tpi_name a; ">"]).
Proof. reflexivity. Qed.

Lemma em_phantom_many a b l :
  phantom_tokens (a :: b :: l) =
  Some (abs_path ["core"; "marker"; "PhantomData"] ++
        ["<"; "("] ++ sep_by [","] (map (fun p => [tpi_name p]) (a :: b :: l)) ++ [")"; ">"]).
Proof. reflexivity. Qed.

Lemma em_abs_path_map (phi : string -> string) l : map phi (abs_path l) = abs_path (map phi l) ->
  True.
Proof. intros _. exact I. Qed.

Lemma phantom_tokens_map phi d c unused p :
  phi_ok phi d c -> phantom_tokens unused = Some p -> map phi p = p.
Proof.
  intros Hok H.
  assert (Habs : map phi (abs_path ["core"; "marker"; "PhantomData"]) =
                 abs_path ["core"; "marker"; "PhantomData"]).
  { apply (lits_fixed phi _ _ _ Hok). vm_compute. reflexivity. }
  destruct unused as [|a [|b l]]; [discriminate| |].
  - rewrite em_phantom_one in H. injection H as <-.
    rewrite map_app, Habs. f_equal. cbn [map].
    rewrite (phi_ok_tpi phi _ _ a Hok). fix_lits phi Hok. reflexivity.
  - rewrite em_phantom_many in H. injection H as <-.
    rewrite !map_app, (em_sep_params_map phi _ _ _ Hok), Habs.
    cbn [map]. fix_lits phi Hok. reflexivity.
Qed.

Lemma type_params_tokens_map phi d c ps :
  phi_ok phi d c -> map phi (type_params_tokens ps) = type_params_tokens ps.
Proof.
  intros Hok. unfold type_params_tokens. destruct ps as [|a l]; [reflexivity|].
  rewrite !map_app, (em_sep_params_map phi _ _ _ Hok).
  cbn [map]. fix_lits phi Hok. reflexivity.
Qed.
