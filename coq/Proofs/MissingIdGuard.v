(** C10: the run-time guard of [prop_missing_id_paths] (Corr/CheckTG.v: [descent_base_ok] = ids are
    positions and the REPAIRED registry - every dangling reference redirected to a fresh [u8] entry
    - is well-formed) puts the registry into the class [resolvable_but] / [generable_but] of
    Model/MissingId.v on which the global missing-id theorems are stated. *)
From Coq Require Import List NArith String Ascii Bool Lia Arith.
From V Require Import Base.Strings Base.Result Model.Registry Model.Settings Model.Subst
  Model.TypePath Model.Derives Model.Generate Model.WellFormed Model.MissingId
  Proofs.ResolveTotal Proofs.MissingId Corr.CheckTG.
Import ListNotations.
Open Scope string_scope. Open Scope list_scope.

Lemma forallb_map {A B} (f : B -> bool) (h : A -> B) l : forallb f (map h l) = forallb (fun x => f (h x)) l.
Proof. induction l as [|a l IH]; [reflexivity|]. cbn [map forallb]. rewrite IH. reflexivity. Qed.

Lemma forallb_ext {A} (f h : A -> bool) l : (forall x, f x = h x) -> forallb f l = forallb h l.
Proof. intros H. induction l as [|a l IH]; [reflexivity|]. cbn [forallb]. rewrite H, IH. reflexivity. Qed.

Section Repair.
  Variable r : registry.
  Let n := N.of_nat (List.length r).
  Let g : N -> N := fun i => if N.leb n i then n else i.

  Lemma g_in_reg id : in_reg r id -> g id = id.
  Proof. unfold in_reg, g. fold n. intros H. destruct (N.leb n id) eqn:E; [apply N.leb_le in E; lia|reflexivity]. Qed.

  Lemma repair_reg_eq :
    repair_reg r = map (fun e => (fst e, map_ty_ids g (snd e))) r ++ [(n, mk_ty [] [] (TDPrimitive PU8) [])].
  Proof. reflexivity. Qed.

  Lemma repair_length : List.length (repair_reg r) = S (List.length r).
  Proof. rewrite repair_reg_eq, app_length, map_length. cbn [List.length]. lia. Qed.

  Lemma resolve_repair id t : resolve r id = Some t -> resolve (repair_reg r) id = Some (map_ty_ids g t).
  Proof.
    intros H. pose proof (resolve_some_in_reg _ _ _ H) as Hin. unfold in_reg in Hin.
    unfold resolve in *. rewrite repair_reg_eq.
    rewrite nth_error_app1 by (rewrite map_length; lia).
    rewrite nth_error_map. destruct (nth_error r (N.to_nat id)) as [[i t']|]; [|discriminate].
    inversion H; subst. reflexivity.
  Qed.

  Lemma param_ids_map t : param_ids (map_ty_ids g t) = map g (param_ids t).
  Proof.
    unfold param_ids, map_ty_ids. cbn [t_params].
    induction (t_params t) as [|[nm [i|]] ps IH]; [reflexivity| |].
    - cbn [map flat_map tp_ty option_map app]. rewrite IH. reflexivity.
    - cbn [map flat_map tp_ty option_map app]. exact IH.
  Qed.

  Lemma nonfield_ids_map t : nonfield_ids (map_ty_ids g t) = map g (nonfield_ids t).
  Proof.
    unfold nonfield_ids. rewrite param_ids_map, map_app. f_equal.
    unfold map_ty_ids. cbn [t_def]. destruct (t_def t); reflexivity.
  Qed.

  Lemma first_param_typed_map t : first_param_typed (map_ty_ids g t) = first_param_typed t.
  Proof.
    unfold first_param_typed, map_ty_ids. cbn [t_params].
    destruct (t_params t) as [|[nm [i|]] ps]; reflexivity.
  Qed.

  Lemma fields_okb_map fs : fields_okb (map (map_field_ids g) fs) = fields_okb fs.
  Proof.
    unfold fields_okb, all_named, all_unnamed, field_names_okb.
    rewrite !forallb_map. reflexivity.
  Qed.

  Lemma def_fields_okb_map d : def_fields_okb (map_def_ids g d) = def_fields_okb d.
  Proof.
    destruct d as [fs|vs| | | | | | ]; cbn [map_def_ids def_fields_okb]; try reflexivity.
    - apply fields_okb_map.
    - rewrite forallb_map. apply forallb_ext. intros v. cbn [v_name v_fields].
      rewrite fields_okb_map. reflexivity.
  Qed.

  Lemma entry_wfb_map t : entry_wfb (map_ty_ids g t) = entry_wfb t.
  Proof.
    unfold entry_wfb. rewrite first_param_typed_map.
    change (t_path (map_ty_ids g t)) with (t_path t).
    change (t_def (map_ty_ids g t)) with (map_def_ids g (t_def t)).
    rewrite def_fields_okb_map.
    destruct (t_def t); reflexivity.
  Qed.

  Lemma tuple_or_array_def_map t :
    tuple_or_array_def (t_def (map_ty_ids g t)) = tuple_or_array_def (t_def t).
  Proof. unfold map_ty_ids. cbn [t_def]. destruct (t_def t); reflexivity. Qed.

  Lemma compact_inner_map t :
    compact_inner_ok_at (repair_reg r) (map_ty_ids g t) = true -> compact_inner_ok_at r t = true.
  Proof.
    unfold compact_inner_ok_at.
    change (t_def (map_ty_ids g t)) with (map_def_ids g (t_def t)).
    destruct (t_def t) as [ | | | | | |e| ]; cbn [map_def_ids]; try reflexivity.
    destruct (resolve r e) as [t0|] eqn:E0; [|reflexivity].
    rewrite (g_in_reg e (resolve_some_in_reg _ _ _ E0)), (resolve_repair _ _ E0).
    rewrite !cow_target_eq'. change (t_path (map_ty_ids g t0)) with (t_path t0).
    destruct (is_cow (path_ident (t_path t0))).
    - change (t_params (map_ty_ids g t0))
        with (map (fun p => mk_tparam (tp_name p) (option_map g (tp_ty p))) (t_params t0)).
      destruct (t_params t0) as [|[nm [inner|]] ps]; cbn [map tp_ty option_map]; try reflexivity.
      destruct (resolve r inner) as [t'|] eqn:E1; [|reflexivity].
      rewrite (g_in_reg inner (resolve_some_in_reg _ _ _ E1)), (resolve_repair _ _ E1).
      rewrite tuple_or_array_def_map. exact (fun H => H).
    - rewrite tuple_or_array_def_map. exact (fun H => H).
  Qed.

  Lemma entry_refs_in_all id t c :
    resolve r id = Some t -> In c (param_ids t ++ def_ids (t_def t)) -> In c (all_ref_ids r).
  Proof.
    intros Ht Hc. destruct (resolve_In _ _ _ Ht) as (i & Hin).
    unfold all_ref_ids. apply in_flat_map. exists (i, t). split; [exact Hin|]. cbn [snd].
    apply in_app_or in Hc as [Hc|Hc]; apply in_or_app; [left; exact Hc|right].
    destruct (t_def t); exact Hc.
  Qed.

  Variable s : settings.
  Variable m : N.
  Hypothesis Hwf : wf_regb (repair_reg r) = true.
  Hypothesis Hsup : supportedb r s = true.
  Hypothesis Hdang : forall c, In c (dangling_refs r) -> c = m.
  Hypothesis Hm : ~ in_reg r m.

  Theorem guard_resolvable_but : exists rank, resolvable_but r s rank m.
  Proof.
    unfold wf_regb in Hwf.
    apply andb_prop in Hwf as [H Hk]. apply andb_prop in H as [H He].
    apply andb_prop in H as [H Hr]. apply andb_prop in H as [Hi Hc].
    destruct (rank_ok_sound _ Hr) as (rank' & Hdec & Hbound).
    pose proof (forallb_entries_ok entry_wfb _ He) as Hent.
    pose proof (forallb_entries_ok (compact_inner_ok_at (repair_reg r)) _ Hk) as Hcin.
    exists (fun c => rank' (g c)).
    split; [exact Hm|]. split; [|split; [|split; [|split]]].
    - intros id t c Ht Hc'. destruct (N.ltb c n) eqn:E.
      + left. apply N.ltb_lt in E. exact E.
      + right. apply Hdang. unfold dangling_refs. apply filter_In. split.
        * eapply entry_refs_in_all; eassumption.
        * fold n. apply N.leb_le. apply N.ltb_ge in E. exact E.
    - split.
      + intros id t c Ht Hc'. rewrite (g_in_reg id (resolve_some_in_reg _ _ _ Ht)).
        apply (Hdec id (map_ty_ids g t) (g c)); [apply resolve_repair; exact Ht|].
        rewrite nonfield_ids_map. apply in_map. exact Hc'.
      + intros id Hid. rewrite (g_in_reg id Hid).
        assert (Hid' : in_reg (repair_reg r) id) by (unfold in_reg in *; rewrite repair_length; lia).
        pose proof (Hbound id Hid') as Hb. rewrite repair_length in Hb. lia.
    - intros id t Ht. apply entry_wfb_resolvable. rewrite <- entry_wfb_map.
      eapply Hent. apply resolve_repair. exact Ht.
    - apply supportedb_settings_ok. exact Hsup.
    - intros id t Ht. apply compact_inner_map. eapply Hcin. apply resolve_repair. exact Ht.
  Qed.

  Theorem guard_generable_but : ids_consistent r = true -> exists rank, generable_but r s rank m.
  Proof.
    intros Hids. destruct guard_resolvable_but as (rank & Hres). exists rank.
    unfold wf_regb in Hwf.
    apply andb_prop in Hwf as [H _]. apply andb_prop in H as [_ He].
    pose proof (forallb_entries_ok entry_wfb _ He) as Hent.
    split; [exact Hids|]. split; [exact Hres|]. split.
    - intros id t Ht. apply entry_wfb_item. rewrite <- entry_wfb_map.
      eapply Hent. apply resolve_repair. exact Ht.
    - intros id t Ht. apply entry_wfb_flat. rewrite <- entry_wfb_map.
      eapply Hent. apply resolve_repair. exact Ht.
  Qed.
End Repair.

(** ** non-vacuity: a registry with one dangling reference.  a::S { x: Vec<#7>, y: u8 } (the
    sequence entry refers to the missing id 7), a::T { y: u8 }, u8. *)
Open Scope N_scope.
Definition missing_ex_reg : registry :=
  [ (0, mk_ty ["a"; "S"] [] (TDComposite [mk_field (Some "x") 1 (Some "Vec<X>") [];
                                           mk_field (Some "y") 2 (Some "u8") []]) []);
    (1, mk_ty [] [] (TDSequence 7) []);
    (2, mk_ty [] [] (TDPrimitive PU8) []);
    (3, mk_ty ["a"; "T"] [] (TDComposite [mk_field (Some "y") 2 (Some "u8") []]) []);
    (4, mk_ty [] [] (TDTuple [2; 1]) []) ].
