(** C17, restriction half, clause "descriptions ... for retained ids are unchanged".

    Two facts about the model of [type_description] (Model/Describe.v):

    - PREFIX: a successful description in a prefix [r1] of a registry [r1 ++ r2] is the same
      successful description in the whole registry, also with more fuel (so with the whole
      registry's own fuel).  No closedness hypothesis: a run that succeeded never looked up an
      id the prefix does not have.
    - RENUMBERING: [describe] commutes with a renumbering [pi] of the registry: the text is the
      same; the only outcome that mentions an id, "type not found", mentions [pi id].  The
      cache is keyed by ids and only ever asked for membership / the latest entry of a key, so
      renaming its keys by the injective [pi] changes nothing.

    Together, for [restrict pi k r = firstn k (renumber pi r)] (Model/Renumber.v, the shape of
    scale-info's [retain]): if the restricted registry describes the retained id [pi id] as [d],
    the full registry describes [id] as [d]; and when the restricted registry is well-formed for
    descriptions ([wf_descb], C13_total) both descriptions exist and are equal. *)
From Coq Require Import List NArith String Bool Lia.
From V Require Import Base.Util Base.Result Base.Strings Model.Registry Model.Format Model.Describe
  Model.Renumber Proofs.RenumberPerm Proofs.DescribeProofs.
Import ListNotations.
Open Scope string_scope.

(** ** unfolding equations *)
Definition tn_of (r : registry) (f : nat) (i : N) : result string :=
  match resolve r i with
  | None => Panic unwrap_none
  | Some t' => tname r f t'
  end.

Definition tn_param (r : registry) (f : nat) (p : tparam) : result string :=
  match tp_ty p with None => Ok "_" | Some i => tn_of r f i end.

Lemma tname_S r f t :
  tname r (S f) t =
  match t_def t with
  | TDSequence e => let* i := tn_of r f e in Ok ("Vec<" ++ i ++ ">")
  | TDArray len e => let* i := tn_of r f e in Ok ("[" ++ i ++ ";" ++ N_to_string len ++ "]")
  | TDTuple ts => let* ds := mapM (tn_of r f) ts in Ok (tuple_text ds)
  | TDPrimitive p => Ok (prim_name p)
  | TDCompact e => let* i := tn_of r f e in Ok ("Compact<" ++ i ++ ">")
  | TDBitSeq _ _ => Ok "BitSequence"
  | TDComposite _ | TDVariant _ =>
    match path_ident (t_path t) with
    | None => Ok "_"
    | Some ident =>
      let* ps := mapM (tn_param r f) (t_params t) in
      let s := join "," ps in
      if String.eqb s "" then Ok ident else Ok (ident ++ "<" ++ s ++ ">")
    end
  end.
Proof. reflexivity. Qed.

Lemma dresolve_S r nf f c id :
  dresolve r nf (S f) c id =
  match resolve r id with
  | None => Err (ETypeNotFound id)
  | Some t =>
    let by_name := let* n := tname r nf t in Ok (n, c) in
    let expand :=
      let* (d, c') := ty_desc (tname r nf) (dresolve r nf f) (cache_put c id CRec) t in
      Ok (d, cache_put c' id (CDone d)) in
    match cache_get c id with
    | Some CRec => if is_named t then by_name else expand
    | Some (CDone s) => if is_named t then by_name else Ok (s, c)
    | None => expand
    end
  end.
Proof. reflexivity. Qed.

Lemma mapM_ok_impl' {A B} (f g : A -> result B) l ys :
  (forall x y, f x = Ok y -> g x = Ok y) -> mapM f l = Ok ys -> mapM g l = Ok ys.
Proof.
  intros H. revert ys. induction l as [|x l IH]; intros ys Hm; [exact Hm|].
  cbn [mapM] in Hm |- *.
  apply bind_ok in Hm as (y & Hy & Hm). apply bind_ok in Hm as (ys' & Hys & Hm).
  rewrite (H x y Hy). cbn [bind]. rewrite (IH ys' Hys). exact Hm.
Qed.

Lemma mapM_map {A B C} (f : B -> result C) (g : A -> B) l :
  mapM f (map g l) = mapM (fun x => f (g x)) l.
Proof.
  induction l as [|x l IH]; [reflexivity|]. cbn [map mapM]. rewrite IH. reflexivity.
Qed.

Lemma mapM_err {A B} (g : A -> result B) l e :
  mapM g l = Err e -> exists x, In x l /\ g x = Err e.
Proof.
  induction l as [|a l IH]; cbn [mapM]; [discriminate|].
  destruct (g a) as [y|e0|m] eqn:E; cbn [bind]; [|intros H; inversion H; subst; exists a; split; [left; reflexivity|exact E]|discriminate].
  destruct (mapM g l) as [ys|e1|m] eqn:E2; cbn [bind]; [discriminate| |discriminate].
  intros H. inversion H; subst. destruct (IH eq_refl) as (x & Hin & Hx).
  exists x. split; [right; exact Hin|exact Hx].
Qed.

(** [type_name_with_type_params] has no error of its own: it panics on a missing id *)
Lemma tname_err r : forall f t e, tname r f t = Err e -> e = EOutOfFuel.
Proof.
  induction f as [|f IH]; intros t e H; [cbn in H; inversion H; reflexivity|].
  assert (Hof : forall i e0, tn_of r f i = Err e0 -> e0 = EOutOfFuel).
  { intros i e0 H0. unfold tn_of in H0. destruct (resolve r i); [eapply IH; exact H0|discriminate]. }
  assert (Hop : forall p e0, tn_param r f p = Err e0 -> e0 = EOutOfFuel).
  { intros p e0 H0. unfold tn_param in H0. destruct (tp_ty p); [eapply Hof; exact H0|discriminate]. }
  assert (Hb : forall i (k : string -> string) e0, (let* x := tn_of r f i in Ok (k x)) = Err e0 -> e0 = EOutOfFuel).
  { intros i k e0 H0. destruct (tn_of r f i) as [x|e1|m] eqn:E; cbn [bind] in H0; try discriminate.
    inversion H0; subst. eapply Hof; exact E. }
  assert (Hcv : forall e0,
    match path_ident (t_path t) with
    | None => Ok "_"
    | Some ident =>
      let* ps := mapM (tn_param r f) (t_params t) in
      let s := join "," ps in
      if String.eqb s "" then Ok ident else Ok (ident ++ "<" ++ s ++ ">")
    end = Err e0 -> e0 = EOutOfFuel).
  { intros e0 H0. destruct (path_ident (t_path t)); [|discriminate].
    destruct (mapM (tn_param r f) (t_params t)) as [ps|e1|m] eqn:E; cbn [bind] in H0.
    - cbv zeta in H0. destruct (String.eqb (join "," ps) ""); discriminate.
    - inversion H0; subst. apply mapM_err in E as (x & _ & Hx). eapply Hop; exact Hx.
    - discriminate. }
  rewrite tname_S in H.
  destruct (t_def t) as [fs|vs|e0|len e0|ts|p|e0|st o].
  - apply Hcv; exact H.
  - apply Hcv; exact H.
  - eapply (Hb e0 (fun i => "Vec<" ++ i ++ ">")); exact H.
  - eapply (Hb e0 (fun i => "[" ++ i ++ ";" ++ N_to_string len ++ "]")); exact H.
  - destruct (mapM (tn_of r f) ts) as [ds|e1|m] eqn:E; cbn [bind] in H; try discriminate.
    inversion H; subst. apply mapM_err in E as (x & _ & Hx). eapply Hof; exact Hx.
  - discriminate.
  - eapply (Hb e0 (fun i => "Compact<" ++ i ++ ">")); exact H.
  - discriminate.
Qed.

(** ** Part 1: prefix and fuel *)
Section PolicyImpl.
  Variable name1 name2 : ty -> result string.
  Variable rec1 rec2 : cache -> N -> result (string * cache).
  Hypothesis Hname : forall t s, name1 t = Ok s -> name2 t = Ok s.
  Hypothesis Hrec : forall c i x, rec1 c i = Ok x -> rec2 c i = Ok x.

  Lemma mapS_ok_impl {A} (f g : cache -> A -> result (string * cache)) :
    (forall c a x, f c a = Ok x -> g c a = Ok x) ->
    forall l c x, mapS f c l = Ok x -> mapS g c l = Ok x.
  Proof.
    intros Hfg. induction l as [|a l IH]; intros c x H; [exact H|].
    cbn [mapS] in H |- *.
    apply bind_ok in H as ([d c1] & H1 & H). apply bind_ok in H as ([ds c2] & H2 & H).
    rewrite (Hfg _ _ _ H1). cbn [bind]. rewrite (IH _ _ H2). exact H.
  Qed.

  Lemma field_desc_impl c f x : field_desc rec1 c f = Ok x -> field_desc rec2 c f = Ok x.
  Proof.
    unfold field_desc. intros H. apply bind_ok in H as ([d c1] & H1 & H).
    rewrite (Hrec _ _ _ H1). exact H.
  Qed.

  Lemma fields_desc_impl c fs x : fields_desc rec1 c fs = Ok x -> fields_desc rec2 c fs = Ok x.
  Proof.
    unfold fields_desc. destruct fs as [|f0 fs0]; [auto|].
    set (fs := f0 :: fs0).
    destruct (all_named fs && negb (all_unnamed fs)).
    - intros H. apply bind_ok in H as ([ds c1] & H1 & H).
      rewrite (mapS_ok_impl _ _ field_desc_impl _ _ _ H1). exact H.
    - destruct (negb (all_named fs) && all_unnamed fs); [|auto].
      intros H. apply bind_ok in H as ([ds c1] & H1 & H).
      rewrite (mapS_ok_impl _ _ field_desc_impl _ _ _ H1). exact H.
  Qed.

  Lemma variant_desc_impl c v x : variant_desc rec1 c v = Ok x -> variant_desc rec2 c v = Ok x.
  Proof.
    unfold variant_desc. intros H. apply bind_ok in H as ([d c1] & H1 & H).
    rewrite (fields_desc_impl _ _ _ H1). exact H.
  Qed.

  Lemma typedef_desc_impl c d x : typedef_desc rec1 c d = Ok x -> typedef_desc rec2 c d = Ok x.
  Proof.
    destruct d as [fs|vs|e|len e|ts|p|e|st o]; cbn [typedef_desc]; intros H.
    - apply fields_desc_impl; exact H.
    - apply bind_ok in H as ([ds c1] & H1 & H).
      rewrite (mapS_ok_impl _ _ variant_desc_impl _ _ _ H1). exact H.
    - apply bind_ok in H as ([d1 c1] & H1 & H). rewrite (Hrec _ _ _ H1). exact H.
    - apply bind_ok in H as ([d1 c1] & H1 & H). rewrite (Hrec _ _ _ H1). exact H.
    - apply bind_ok in H as ([ds c1] & H1 & H).
      rewrite (mapS_ok_impl _ _ Hrec _ _ _ H1). exact H.
    - exact H.
    - apply bind_ok in H as ([d1 c1] & H1 & H). rewrite (Hrec _ _ _ H1). exact H.
    - apply bind_ok in H as ([o1 c1] & H1 & H). apply bind_ok in H as ([s1 c2] & H2 & H).
      rewrite (Hrec _ _ _ H1). cbn [bind]. rewrite (Hrec _ _ _ H2). exact H.
  Qed.

  Lemma ty_desc_impl c t x : ty_desc name1 rec1 c t = Ok x -> ty_desc name2 rec2 c t = Ok x.
  Proof.
    unfold ty_desc. intros H. apply bind_ok in H as (nm & Hn & H).
    apply bind_ok in H as ([d c1] & H1 & H).
    assert (Hn' : (if is_named t then name2 t else Ok "") = Ok nm).
    { destruct (is_named t); [apply Hname; exact Hn|exact Hn]. }
    rewrite Hn'. cbn [bind]. rewrite (typedef_desc_impl _ _ _ H1). exact H.
  Qed.
End PolicyImpl.

Section Prefix.
  Variable r1 r2 : registry.
  Let r := (r1 ++ r2)%list.

  Lemma resolve_app1 id t : resolve r1 id = Some t -> resolve r id = Some t.
  Proof.
    unfold resolve, r. intros H.
    destruct (nth_error r1 (N.to_nat id)) as [[i0 t0]|] eqn:E; [|discriminate].
    rewrite nth_error_app1 by (apply nth_error_Some; congruence). rewrite E. exact H.
  Qed.

  Lemma tname_prefix : forall (f1 f : nat) t s,
    (f1 <= f)%nat -> tname r1 f1 t = Ok s -> tname r f t = Ok s.
  Proof.
    induction f1 as [|f1 IH]; intros f t s Hle H; [discriminate|].
    destruct f as [|f]; [lia|].
    assert (Hof : forall i x, tn_of r1 f1 i = Ok x -> tn_of r f i = Ok x).
    { intros i x Hx. unfold tn_of in *. destruct (resolve r1 i) as [t'|] eqn:E; [|discriminate].
      rewrite (resolve_app1 _ _ E). apply IH; [lia|exact Hx]. }
    assert (Hop : forall p x, tn_param r1 f1 p = Ok x -> tn_param r f p = Ok x).
    { intros p x Hx. unfold tn_param in *. destruct (tp_ty p); [apply Hof; exact Hx|exact Hx]. }
    rewrite tname_S in H |- *.
    destruct (t_def t) as [fs|vs|e|len e|ts|p|e|st o].
    - destruct (path_ident (t_path t)); [|exact H].
      apply bind_ok in H as (ps & Hps & H). rewrite (mapM_ok_impl' _ _ _ _ Hop Hps). exact H.
    - destruct (path_ident (t_path t)); [|exact H].
      apply bind_ok in H as (ps & Hps & H). rewrite (mapM_ok_impl' _ _ _ _ Hop Hps). exact H.
    - apply bind_ok in H as (x & Hx & H). rewrite (Hof _ _ Hx). exact H.
    - apply bind_ok in H as (x & Hx & H). rewrite (Hof _ _ Hx). exact H.
    - apply bind_ok in H as (ds & Hds & H). rewrite (mapM_ok_impl' _ _ _ _ Hof Hds). exact H.
    - exact H.
    - apply bind_ok in H as (x & Hx & H). rewrite (Hof _ _ Hx). exact H.
    - exact H.
  Qed.

  Lemma dresolve_prefix : forall (nf1 nf : nat), (nf1 <= nf)%nat ->
    forall (f1 f : nat) c id x,
      (f1 <= f)%nat -> dresolve r1 nf1 f1 c id = Ok x -> dresolve r nf f c id = Ok x.
  Proof.
    intros nf1 nf Hnf.
    induction f1 as [|f1 IH]; intros f c id x Hle H; [discriminate|].
    destruct f as [|f]; [lia|].
    rewrite dresolve_S in H |- *.
    destruct (resolve r1 id) as [t|] eqn:E; [|discriminate].
    rewrite (resolve_app1 _ _ E).
    assert (Hname : forall t0 s, tname r1 nf1 t0 = Ok s -> tname r nf t0 = Ok s).
    { intros t0 s Hs. eapply tname_prefix; eassumption. }
    assert (Hrec : forall c0 i y, dresolve r1 nf1 f1 c0 i = Ok y -> dresolve r nf f c0 i = Ok y).
    { intros c0 i y Hy. apply (IH f c0 i y); [lia|exact Hy]. }
    assert (Hby : forall y, (let* n := tname r1 nf1 t in Ok (n, c)) = Ok y ->
                            (let* n := tname r nf t in Ok (n, c)) = Ok y).
    { intros y Hy. apply bind_ok in Hy as (n & Hn & Hy). rewrite (Hname _ _ Hn). exact Hy. }
    assert (Hex : forall y,
      (let* (d, c') := ty_desc (tname r1 nf1) (dresolve r1 nf1 f1) (cache_put c id CRec) t in
       Ok (d, cache_put c' id (CDone d))) = Ok y ->
      (let* (d, c') := ty_desc (tname r nf) (dresolve r nf f) (cache_put c id CRec) t in
       Ok (d, cache_put c' id (CDone d))) = Ok y).
    { intros y Hy. apply bind_ok in Hy as ([d c'] & Hd & Hy).
      rewrite (ty_desc_impl _ _ _ _ Hname Hrec _ _ _ Hd). exact Hy. }
    cbv zeta in H |- *.
    destruct (cache_get c id) as [[|s0]|].
    - destruct (is_named t); [apply Hby|apply Hex]; exact H.
    - destruct (is_named t); [apply Hby; exact H|exact H].
    - apply Hex; exact H.
  Qed.

  (** a successful description in the prefix is the same one in the whole registry *)
  Theorem describe_prefix id d : describe r1 id = Ok d -> describe r id = Ok d.
  Proof.
    unfold describe, describe_with. intros H.
    apply bind_ok in H as ([d0 c0] & H0 & H).
    assert (L : (List.length r1 <= List.length r)%nat) by (unfold r; rewrite app_length; lia).
    rewrite (dresolve_prefix (name_fuel r1) (name_fuel r) ltac:(unfold name_fuel; lia)
               (desc_fuel r1) (desc_fuel r) [] id (d0, c0) ltac:(unfold desc_fuel; nia) H0).
    exact H.
  Qed.
End Prefix.

(** ** Part 2: renumbering *)
Section Renumber.
  Variable pi : N -> N.
  Variable r : registry.
  Hypothesis Hpi : renumbering (N.of_nat (List.length r)) pi.
  Let r' := renumber pi r.

  Definition map_cache (c : cache) : cache := map (fun kv => (pi (fst kv), snd kv)) c.

  Definition lift {A} (x : result (A * cache)) : result (A * cache) :=
    match x with
    | Ok (a, c) => Ok (a, map_cache c)
    | Err e => Err (rename_err pi e)
    | Panic m => Panic m
    end.

  Lemma pi_inj i j : pi i = pi j -> i = j.
  Proof. destruct Hpi as (Hinj & _). apply Hinj. Qed.

  Lemma cache_get_map c id : cache_get (map_cache c) (pi id) = cache_get c id.
  Proof.
    induction c as [|[k v] c IH]; [reflexivity|]. cbn [map_cache map cache_get fst snd].
    destruct (N.eqb k id) eqn:E.
    - apply N.eqb_eq in E. subst k. rewrite N.eqb_refl. reflexivity.
    - assert (E' : N.eqb (pi k) (pi id) = false).
      { apply N.eqb_neq. intros Hc. apply pi_inj in Hc. apply N.eqb_neq in E. contradiction. }
      rewrite E'. exact IH.
  Qed.

  Lemma cache_put_map c id v : cache_put (map_cache c) (pi id) v = map_cache (cache_put c id v).
  Proof. reflexivity. Qed.

  Lemma tn_of_renumber_step f :
    (forall t, tname r' f (rename_ty pi t) = tname r f t) ->
    forall i, tn_of r' f (pi i) = tn_of r f i.
  Proof.
    intros IH i. unfold tn_of, r'. rewrite (resolve_renumber pi r Hpi i).
    destruct (resolve r i) as [t'|]; cbn [option_map]; [apply IH|reflexivity].
  Qed.

  Lemma tname_renumber : forall f t, tname r' f (rename_ty pi t) = tname r f t.
  Proof.
    induction f as [|f IH]; intros t; [reflexivity|].
    pose proof (tn_of_renumber_step f IH) as Hof.
    assert (Hop : forall p, tn_param r' f (rename_tparam pi p) = tn_param r f p).
    { intros p. unfold tn_param. cbn [rename_tparam tp_ty]. destruct (tp_ty p); cbn [option_map]; [apply Hof|reflexivity]. }
    rewrite !tname_S. cbn [rename_ty t_def t_path t_params].
    destruct (t_def t) as [fs|vs|e|len e|ts|p|e|st o]; cbn [rename_def].
    - destruct (path_ident (t_path t)); [|reflexivity].
      rewrite mapM_map. rewrite (mapM_ext _ (tn_param r f)) by (intros; apply Hop). reflexivity.
    - destruct (path_ident (t_path t)); [|reflexivity].
      rewrite mapM_map. rewrite (mapM_ext _ (tn_param r f)) by (intros; apply Hop). reflexivity.
    - rewrite Hof. reflexivity.
    - rewrite Hof. reflexivity.
    - rewrite mapM_map. rewrite (mapM_ext _ (tn_of r f)) by (intros; apply Hof). reflexivity.
    - reflexivity.
    - rewrite Hof. reflexivity.
    - reflexivity.
  Qed.

  Section PolicyEq.
    Variable name1 name2 : ty -> result string.
    Variable rec1 rec2 : cache -> N -> result (string * cache).
    Hypothesis Hname : forall t, name2 (rename_ty pi t) = name1 t.
    Hypothesis Hname_err : forall t e, name1 t = Err e -> rename_err pi e = e.
    Hypothesis Hrec : forall c i, rec2 (map_cache c) (pi i) = lift (rec1 c i).

    Lemma mapS_lift {A B} (f1 : cache -> A -> result (string * cache))
          (f2 : cache -> B -> result (string * cache)) (g : A -> B) :
      (forall c a, f2 (map_cache c) (g a) = lift (f1 c a)) ->
      forall l c, mapS f2 (map_cache c) (map g l) = lift (mapS f1 c l).
    Proof.
      intros Hf. induction l as [|a l IH]; intros c; [reflexivity|].
      cbn [map mapS]. rewrite Hf.
      destruct (f1 c a) as [[d c1]|e|m]; cbn [lift bind]; [|reflexivity|reflexivity].
      rewrite IH. destruct (mapS f1 c1 l) as [[ds c2]|e|m]; reflexivity.
    Qed.

    Lemma field_desc_lift c f :
      field_desc rec2 (map_cache c) (rename_field pi f) = lift (field_desc rec1 c f).
    Proof.
      unfold field_desc. cbn [rename_field f_ty]. rewrite Hrec.
      destruct (rec1 c (f_ty f)) as [[d c1]|e|m]; reflexivity.
    Qed.

    Lemma all_named_rename fs : all_named (map (rename_field pi) fs) = all_named fs.
    Proof.
      unfold all_named. induction fs as [|f fs IH]; [reflexivity|].
      cbn [map forallb rename_field f_name]. rewrite IH. reflexivity.
    Qed.
    Lemma all_unnamed_rename fs : all_unnamed (map (rename_field pi) fs) = all_unnamed fs.
    Proof.
      unfold all_unnamed. induction fs as [|f fs IH]; [reflexivity|].
      cbn [map forallb rename_field f_name]. rewrite IH. reflexivity.
    Qed.

    Lemma fields_desc_lift c fs :
      fields_desc rec2 (map_cache c) (map (rename_field pi) fs) = lift (fields_desc rec1 c fs).
    Proof.
      destruct fs as [|f0 fs0]; [reflexivity|].
      unfold fields_desc. cbn [map].
      change (rename_field pi f0 :: map (rename_field pi) fs0) with (map (rename_field pi) (f0 :: fs0)).
      set (fs := f0 :: fs0).
      rewrite all_named_rename, all_unnamed_rename.
      destruct (all_named fs && negb (all_unnamed fs)).
      - rewrite (mapS_lift _ _ _ field_desc_lift).
        destruct (mapS (field_desc rec1) c fs) as [[ds c1]|e|m]; reflexivity.
      - destruct (negb (all_named fs) && all_unnamed fs); [|reflexivity].
        rewrite (mapS_lift _ _ _ field_desc_lift).
        destruct (mapS (field_desc rec1) c fs) as [[ds c1]|e|m]; reflexivity.
    Qed.

    Lemma variant_desc_lift c v :
      variant_desc rec2 (map_cache c) (rename_variant pi v) = lift (variant_desc rec1 c v).
    Proof.
      unfold variant_desc. cbn [rename_variant v_fields v_name]. rewrite fields_desc_lift.
      destruct (fields_desc rec1 c (v_fields v)) as [[d c1]|e|m]; reflexivity.
    Qed.

    Lemma typedef_desc_lift c d :
      typedef_desc rec2 (map_cache c) (rename_def pi d) = lift (typedef_desc rec1 c d).
    Proof.
      destruct d as [fs|vs|e|len e|ts|p|e|st o]; cbn [rename_def typedef_desc].
      - apply fields_desc_lift.
      - rewrite (mapS_lift _ _ _ variant_desc_lift).
        destruct (mapS (variant_desc rec1) c vs) as [[ds c1]|e|m]; reflexivity.
      - rewrite Hrec. destruct (rec1 c e) as [[d c1]|e0|m]; reflexivity.
      - rewrite Hrec. destruct (rec1 c e) as [[d c1]|e0|m]; reflexivity.
      - rewrite (mapS_lift rec1 rec2 pi Hrec).
        destruct (mapS rec1 c ts) as [[ds c1]|e|m]; reflexivity.
      - reflexivity.
      - rewrite Hrec. destruct (rec1 c e) as [[d c1]|e0|m]; reflexivity.
      - rewrite Hrec. destruct (rec1 c o) as [[o1 c1]|e0|m]; cbn [lift bind]; [|reflexivity|reflexivity].
        rewrite Hrec. destruct (rec1 c1 st) as [[s1 c2]|e0|m]; reflexivity.
    Qed.

    Lemma def_prefix_rename d : def_prefix (rename_def pi d) = def_prefix d.
    Proof. destruct d; reflexivity. Qed.

    Lemma ty_desc_lift c t :
      ty_desc name2 rec2 (map_cache c) (rename_ty pi t) = lift (ty_desc name1 rec1 c t).
    Proof.
      unfold ty_desc. rewrite Hname.
      change (is_named (rename_ty pi t)) with (is_named t).
      cbn [rename_ty t_def].
      assert (Hnm : forall e, (if is_named t then name1 t else Ok "") = Err e -> rename_err pi e = e).
      { intros e He. destruct (is_named t); [eapply Hname_err; exact He|discriminate]. }
      destruct (if is_named t then name1 t else Ok "") as [nm|e|m]; cbn [bind lift];
        [|rewrite (Hnm e eq_refl); reflexivity|reflexivity].
      rewrite typedef_desc_lift, def_prefix_rename.
      destruct (typedef_desc rec1 c (t_def t)) as [[d c1]|e|m]; reflexivity.
    Qed.
  End PolicyEq.

  Lemma dresolve_renumber nf : forall f c id,
    dresolve r' nf f (map_cache c) (pi id) = lift (dresolve r nf f c id).
  Proof.
    induction f as [|f IH]; intros c id; [reflexivity|].
    assert (Hterr : forall t0 e, tname r nf t0 = Err e -> rename_err pi e = e).
    { intros t0 e He. apply tname_err in He. subst e. reflexivity. }
    rewrite !dresolve_S. unfold r' at 1. rewrite (resolve_renumber pi r Hpi id). fold r'.
    destruct (resolve r id) as [t|]; cbn [option_map]; [|reflexivity].
    cbv zeta. rewrite cache_get_map.
    change (is_named (rename_ty pi t)) with (is_named t).
    rewrite tname_renumber.
    rewrite cache_put_map.
    rewrite (ty_desc_lift (tname r nf) (tname r' nf) (dresolve r nf f) (dresolve r' nf f)
               (tname_renumber nf) Hterr IH).
    assert (Hby : (let* n := tname r nf t in Ok (n, map_cache c)) =
                  lift (let* n := tname r nf t in Ok (n, c))).
    { destruct (tname r nf t) as [n|e|m] eqn:En; cbn [bind lift]; try reflexivity.
      rewrite (Hterr _ _ En). reflexivity. }
    assert (Hex :
      (let* (d, c') := lift (ty_desc (tname r nf) (dresolve r nf f) (cache_put c id CRec) t) in
       Ok (d, cache_put c' (pi id) (CDone d))) =
      lift (let* (d, c') := ty_desc (tname r nf) (dresolve r nf f) (cache_put c id CRec) t in
            Ok (d, cache_put c' id (CDone d)))).
    { destruct (ty_desc (tname r nf) (dresolve r nf f) (cache_put c id CRec) t) as [[d c1]|e|m];
        reflexivity. }
    destruct (cache_get c id) as [[|s0]|].
    - destruct (is_named t); [exact Hby|exact Hex].
    - destruct (is_named t); [exact Hby|reflexivity].
    - exact Hex.
  Qed.
End Renumber.

(** ** the statements *)

(** [describe] commutes with a renumbering: same text, same panic; the error that names an id
    names the renamed id *)
Theorem describe_renumber pi r :
  renumbering (N.of_nat (List.length r)) pi ->
  forall id, describe (renumber pi r) (pi id) = rmap_e pi (fun d : string => d) (describe r id).
Proof.
  intros Hpi id. unfold describe, describe_with, name_fuel, desc_fuel.
  rewrite renumber_length.
  change (@nil (N * centry)) with (map_cache pi []) at 1.
  rewrite (dresolve_renumber pi r Hpi).
  destruct (dresolve r (S (List.length r)) (S (List.length r * S (List.length r))) [] id)
    as [[d c]|e|m]; reflexivity.
Qed.

(** restriction: what the restricted registry says about a retained id is what the full registry
    says about the id it came from *)
Theorem describe_restriction pi k r id d :
  renumbering (N.of_nat (List.length r)) pi ->
  describe (restrict pi k r) (pi id) = Ok d -> describe r id = Ok d.
Proof.
  intros Hpi H. unfold restrict in H.
  pose proof (describe_prefix (firstn k (renumber pi r)) (skipn k (renumber pi r)) (pi id) d H) as H'.
  rewrite firstn_skipn in H'. rewrite (describe_renumber pi r Hpi id) in H'.
  destruct (describe r id) as [d0|e|m]; cbn [rmap_e] in H'; [|discriminate|discriminate].
  inversion H'; reflexivity.
Qed.

(** ... and when the restricted registry is well-formed for descriptions (closed, uniform field
    lists, no unprotected cycle: [wf_descb], the hypothesis of C13_total) both exist *)
Theorem describe_restriction_total pi k r id :
  renumbering (N.of_nat (List.length r)) pi ->
  wf_descb (restrict pi k r) = true ->
  (pi id < N.of_nat (List.length (restrict pi k r)))%N ->
  exists d, describe (restrict pi k r) (pi id) = Ok d /\ describe r id = Ok d.
Proof.
  intros Hpi Hwf Hid. destruct (describe_total _ Hwf _ Hid) as [d Hd].
  exists d. split; [exact Hd|]. eapply describe_restriction; eassumption.
Qed.

(** the formatted description ([type_description(id, registry, true)]) likewise *)
Theorem describe_fmt_restriction pi k r id l :
  renumbering (N.of_nat (List.length r)) pi ->
  describe_fmt (restrict pi k r) (pi id) = Ok l -> describe_fmt r id = Ok l.
Proof.
  intros Hpi H. unfold describe_fmt in *. apply bind_ok in H as (d & Hd & H).
  rewrite (describe_restriction pi k r id d Hpi Hd). exact H.
Qed.
