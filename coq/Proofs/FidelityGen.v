(** C01 / C03: the generation loop keeps, for every path, the IR of the FIRST
    item-eligible entry with that path ("first insertion wins"); with skeleton
    consistency the generated items satisfy [items_ok], hence fidelity. *)
From Coq Require Import List NArith String Bool Lia.
From V Require Import Base.Util Base.Strings Base.Result Model.Registry Model.Settings Model.Subst
  Model.TypePath Model.Derives Model.Generate Model.Equal Model.Shape Proofs.GenProofs
  Proofs.FidelityBase Proofs.Fidelity.
Import ListNotations.
Open Scope string_scope. Open Scope list_scope.

(** ** ids are positions once the sanity pass succeeded *)
Lemma first_bad_from_nth : forall l i k id t,
  first_bad_from i l = None -> nth_error l k = Some (id, t) -> id = (i + N.of_nat k)%N.
Proof.
  induction l as [|[id0 t0] l IH]; intros i k id t Hb Hn; [destruct k; discriminate|].
  cbn [first_bad_from] in Hb. destruct (N.eqb id0 i) eqn:E; [|discriminate].
  apply N.eqb_eq in E. destruct k as [|k]; cbn [nth_error] in Hn.
  - inversion Hn; subst. lia.
  - apply (IH _ _ _ _ Hb) in Hn. lia.
Qed.

Lemma resolve_In r id t : first_bad r = None -> resolve r id = Some t -> In (id, t) r.
Proof.
  unfold resolve, first_bad. intros Hb H.
  destruct (nth_error r (N.to_nat id)) as [[id' t']|] eqn:Hn; [|discriminate].
  inversion H; subst t'. pose proof (first_bad_from_nth _ _ _ _ _ Hb Hn) as E.
  rewrite N2Nat.id in E. cbn in E. subst id'. eapply nth_error_In; eauto.
Qed.

Lemma find_exists {A} (f : A -> bool) l x : In x l -> f x = true -> exists y, find f l = Some y.
Proof.
  induction l as [|a l IH]; intros Hin Hf; [contradiction|]. cbn [find].
  destruct (f a) eqn:E; [eauto|]. destruct Hin as [->|Hin]; [congruence|auto].
Qed.

(** ** [create_type_ir] *)
Lemma create_type_ir_some_cv r s t flat ir :
  create_type_ir r s t flat = Ok (Some ir) -> is_composite_or_variant (t_def t) = true.
Proof.
  unfold create_type_ir. destruct (is_composite_or_variant (t_def t)); [reflexivity|discriminate].
Qed.

Lemma create_type_ir_none_cv r s t flat :
  create_type_ir r s t flat = Ok None -> is_composite_or_variant (t_def t) = false.
Proof.
  unfold create_type_ir. destruct (is_composite_or_variant (t_def t)); [|reflexivity].
  cbn [negb]. intros H. destruct (path_ident (t_path t)); [|discriminate].
  apply bind_ok in H as (name & _ & H). apply bind_ok in H as ([[kind cdac] unused] & _ & H).
  apply bind_ok in H as (d & _ & H). discriminate.
Qed.

(** the flat derives registry only decides the derives *)
Lemma create_type_ir_flat r s t flat flat' ir :
  create_type_ir r s t flat = Ok (Some ir) ->
  exists ir', create_type_ir r s t flat' = Ok (Some ir') /\ erase_ids ir' = erase_ids ir.
Proof.
  intros H. unfold create_type_ir in *.
  destruct (negb (is_composite_or_variant (t_def t))); [discriminate|].
  destruct (path_ident (t_path t)) as [nm|]; [|discriminate].
  apply bind_ok in H as (name & Hn & H). rewrite Hn. cbn [bind].
  apply bind_ok in H as ([[kind cdac] unused] & Hk & H). rewrite Hk. cbn [bind].
  apply bind_ok in H as (d & Hd & H). unfold resolve_derives_for_type in *.
  apply bind_ok in Hd as (k & Hkey & Hd). rewrite Hkey. cbn [bind].
  eexists. split; [reflexivity|]. inversion H; subst. reflexivity.
Qed.

Section LoopFirst.
  Variable r : registry.
  Variable s : settings.
  Variable teq : N -> N -> result bool.
  Variable flat : flat_registry.

  Definition first_item (l : registry) (p : list string) : option (N * type_ir) :=
    match first_eligible l s p with
    | Some (id, X) =>
        match create_type_ir r s X flat with
        | Ok (Some ir) => Some (id, ir)
        | _ => None
        end
    | None => None
    end.

  Lemma first_item_skip id t l p :
    item_eligible s t = false -> first_item ((id, t) :: l) p = first_item l p.
  Proof.
    intros H. unfold first_item, first_eligible. cbn [find snd]. rewrite H, andb_false_r. reflexivity.
  Qed.

  Lemma first_item_other id t l p :
    path_eqb (t_path t) p = false -> first_item ((id, t) :: l) p = first_item l p.
  Proof.
    intros H. unfold first_item, first_eligible. cbn [find snd]. rewrite H. reflexivity.
  Qed.

  Lemma first_item_here id t l ir :
    item_eligible s t = true -> create_type_ir r s t flat = Ok (Some ir) ->
    first_item ((id, t) :: l) (t_path t) = Some (id, ir).
  Proof.
    intros H Hc. unfold first_item, first_eligible. cbn [find snd].
    rewrite H, path_eqb_refl. cbn [andb]. rewrite Hc. reflexivity.
  Qed.

  (** first insertion wins *)
  Lemma gen_loop_first : forall l acc m,
    gen_loop r s teq flat l acc = Ok m ->
    forall p, items_get m p = match items_get acc p with
                              | Some v => Some v
                              | None => first_item l p
                              end.
  Proof.
    induction l as [|[id t] l IH]; intros acc m H p.
    - cbn in H. inversion H; subst. destruct (items_get m p); reflexivity.
    - rewrite gen_loop_cons in H.
      destruct (subs_contains (s_subs s) (t_path t)) eqn:Sub.
      { rewrite first_item_skip by (unfold item_eligible; rewrite Sub, andb_false_r; reflexivity).
        apply IH; assumption. }
      destruct (namespace (t_path t)) as [|n0 ns] eqn:Ns.
      { rewrite first_item_skip by (unfold item_eligible; rewrite Ns, andb_false_r; reflexivity).
        apply IH; assumption. }
      destruct (create_type_ir r s t flat) as [[ir|]|e|msg] eqn:Cti; cbn [bind] in H; try discriminate.
      2:{ rewrite first_item_skip
            by (unfold item_eligible; rewrite (create_type_ir_none_cv _ _ _ _ Cti); reflexivity).
          apply IH; assumption. }
      assert (Helig : item_eligible s t = true).
      { unfold item_eligible. rewrite (create_type_ir_some_cv _ _ _ _ _ Cti), Sub, Ns. reflexivity. }
      destruct (forallb ident_lexb (n0 :: ns)); [|discriminate].
      destruct (items_get acc (t_path t)) as [[other ir']|] eqn:G.
      + destruct (teq id other) as [[|]|e|msg]; cbn [bind] in H; try discriminate.
        rewrite (IH _ _ H p). destruct (path_eqb (t_path t) p) eqn:E.
        * apply path_eqb_eq in E; subst p. rewrite G. reflexivity.
        * rewrite first_item_other by assumption. reflexivity.
      + rewrite (IH _ _ H p). rewrite items_get_insert_absent by assumption.
        destruct (path_eqb (t_path t) p) eqn:E.
        * apply path_eqb_eq in E; subst p. rewrite G.
          rewrite (first_item_here id t l ir Helig Cti). reflexivity.
        * rewrite first_item_other by assumption. reflexivity.
  Qed.

  (** every item-eligible entry went through [create_type_ir] successfully *)
  Lemma gen_loop_all_ok : forall l acc m,
    gen_loop r s teq flat l acc = Ok m ->
    forall id X, In (id, X) l -> item_eligible s X = true ->
    exists ir, create_type_ir r s X flat = Ok (Some ir).
  Proof.
    induction l as [|[id0 t] l IH]; intros acc m H id X Hin He; [contradiction|].
    rewrite gen_loop_cons in H.
    destruct Hin as [Heq|Hin].
    - inversion Heq; subst id0 t. unfold item_eligible in He.
      apply andb_prop in He as [He Hns]. apply andb_prop in He as [Hcv Hsub].
      apply negb_true_iff in Hsub. rewrite Hsub in H.
      destruct (namespace (t_path X)) as [|n0 ns]; [discriminate|].
      destruct (create_type_ir r s X flat) as [[ir|]|e|msg] eqn:Cti; cbn [bind] in H; try discriminate.
      + eauto.
      + apply create_type_ir_none_cv in Cti. congruence.
    - destruct (subs_contains (s_subs s) (t_path t)); [eapply IH; eauto|].
      destruct (namespace (t_path t)) as [|n0 ns]; [eapply IH; eauto|].
      destruct (create_type_ir r s t flat) as [[ir|]|e|msg]; cbn [bind] in H; try discriminate;
        [|eapply IH; eauto].
      destruct (forallb ident_lexb (n0 :: ns)); [|discriminate].
      destruct (items_get acc (t_path t)) as [[other ir']|].
      + destruct (teq id0 other) as [[|]|e|msg]; cbn [bind] in H; try discriminate. eapply IH; eauto.
      + eapply IH; eauto.
  Qed.
End LoopFirst.

Lemma first_eligible_some l s p id0 X0 :
  first_eligible l s p = Some (id0, X0) ->
  In (id0, X0) l /\ t_path X0 = p /\ item_eligible s X0 = true.
Proof.
  unfold first_eligible. intros H. apply find_some in H as [Hin H]. cbn [snd] in H.
  apply andb_prop in H as [Hp He]. apply path_eqb_eq in Hp. auto.
Qed.

(** ** C01_lookup *)
Theorem generate_lookup r s teq m :
  generate r s teq = Ok m ->
  forall id X, In (id, X) r -> item_eligible s X = true ->
  exists id0 X0 ir0 flat,
    first_eligible r s (t_path X) = Some (id0, X0) /\
    flatten (s_dreg s) r = Ok flat /\
    create_type_ir r s X0 flat = Ok (Some ir0) /\
    items_get m (t_path X) = Some (id0, ir0).
Proof.
  unfold generate. intros H id X Hin He.
  apply bind_ok in H as (u & _ & H). apply bind_ok in H as (flat & Hf & H).
  destruct (find_exists (fun e => path_eqb (t_path (snd e)) (t_path X) && item_eligible s (snd e))
                        r (id, X) Hin) as ([id0 X0] & Hfind).
  { cbn [snd]. rewrite path_eqb_refl, He. reflexivity. }
  change (first_eligible r s (t_path X) = Some (id0, X0)) in Hfind.
  pose proof (first_eligible_some _ _ _ _ _ Hfind) as (Hin0 & Hp0 & He0).
  destruct (gen_loop_all_ok r s teq flat r [] m H id0 X0 Hin0 He0) as (ir0 & Hir0).
  exists id0, X0, ir0, flat. repeat split; try assumption.
  rewrite (gen_loop_first r s teq flat r [] m H (t_path X)). cbn [items_get].
  unfold first_item. rewrite Hfind, Hir0. reflexivity.
Qed.

Lemma generate_sanity r s teq m : generate r s teq = Ok m -> first_bad r = None.
Proof.
  unfold generate. intros H. apply bind_ok in H as (u & Hs & _).
  rewrite sanity_pass_spec in Hs. destruct (first_bad r) as [[g e]|]; [discriminate|reflexivity].
Qed.

Lemma skeleton_of r s t flat ir :
  create_type_ir r s t flat = Ok (Some ir) -> skeleton r s t = Some (erase_ids ir).
Proof.
  intros H. destruct (create_type_ir_flat r s t flat flat0 ir H) as (ir' & H' & He).
  unfold skeleton. rewrite H', He. reflexivity.
Qed.

(** the generated items are, up to ids, the entries' own IRs *)
Theorem generate_items_ok r s teq m :
  skeleton_consistent r s -> generate r s teq = Ok m -> items_ok r s m.
Proof.
  intros Hsk Hgen id X Hres He _.
  pose proof (resolve_In r id X (generate_sanity _ _ _ _ Hgen) Hres) as Hin.
  destruct (generate_lookup r s teq m Hgen id X Hin He) as (id0 & X0 & ir0 & flat & Hfirst & Hflat & Hir0 & Hget).
  assert (HX : exists irX, create_type_ir r s X flat = Ok (Some irX)).
  { unfold generate in Hgen. apply bind_ok in Hgen as (u & _ & Hgen).
    apply bind_ok in Hgen as (flat' & Hf' & Hgen). assert (flat' = flat) by congruence. subst flat'.
    eapply gen_loop_all_ok; eauto. }
  destruct HX as (irX & HirX).
  exists ir0, irX, flat. split; [|split; [assumption|]].
  - rewrite find_item_get, Hget. reflexivity.
  - specialize (Hsk id X id0 X0 Hin He Hfirst).
    rewrite (skeleton_of _ _ _ _ _ HirX), (skeleton_of _ _ _ _ _ Hir0) in Hsk. congruence.
Qed.

(** ** C01_fidelity *)
Lemma sigma_ok_nil r s m n : sigma_ok r s m n [] [].
Proof. intros p []. Qed.

Theorem generate_faithful r s teq m :
  skeleton_consistent r s -> root_fresh s -> generate r s teq = Ok m -> Faithful r s m.
Proof.
  intros Hsk Hfr Hgen n id t Ht. unfold resolve_type_path in Ht.
  rewrite <- (subst_nil t).
  eapply resolve_shape; [eapply generate_items_ok; eauto|assumption|exact Ht|apply sigma_ok_nil].
Qed.

(** ** C01_own_skeleton *)
Theorem own_skeleton r s teq m :
  skeleton_consistent r s -> root_fresh s -> generate r s teq = Ok m ->
  forall (X : ty) (f : field) fp args n,
    let P := params_from_scale_info (t_params X) in
    resolve_field_type_path r s (f_ty f) P (f_type_name f) = Ok fp ->
    Forall2 (fun p a => resolve_type_path r s (tpi_id p) = Ok a) P args ->
    shape_rust m s n (subst_tpath (mk_sigma P args) fp) = shape_reg r s n (f_ty f).
Proof.
  intros Hsk Hfr Hgen X f fp args n P Hfp Hargs.
  eapply resolve_shape; [eapply generate_items_ok; eauto|assumption|exact Hfp|].
  intros p Hin.
  destruct (sigma_get_combine (fun a => a) P args Hargs (params_nodup _) p Hin) as (a & Ha & Hra).
  rewrite map_id in Ha. exists a. split; [exact Ha|].
  intros k _. exact (generate_faithful r s teq m Hsk Hfr Hgen k (tpi_id p) a Hra).
Qed.

(** ** C18: standalone structs *)
Theorem standalone_faithful r s teq m :
  skeleton_consistent r s -> root_fresh s -> generate r s teq = Ok m ->
  forall fs k u name docs n,
    create_composite_ir_kind r s fs [] [] = Ok (k, u) ->
    item_shape m s n (upcast_composite s (mk_ci name k docs)) [] =
    SStruct (map (field_shape_reg r s n) fs).
Proof.
  intros Hsk Hfr Hgen fs k u name docs n Hk.
  unfold item_shape, item_shape_with, upcast_composite. cbn [ti_params ti_kind kind_shape ci_kind].
  f_equal.
  apply (ckind_shapes r s _ (shape_reg r s n) [] fs [] k u Hk).
  intros f fp _ Hfp. unfold mk_sigma. cbn [map combine].
  eapply resolve_shape; [eapply generate_items_ok; eauto|assumption|exact Hfp|apply sigma_ok_nil].
Qed.

(** the analogue of [struct_item_fields_standalone] for the variants of an enum *)
Lemma variants_go_standalone r s : forall vs l u,
  variants_go r s [] vs [] = Ok (l, u) ->
  u = [] /\
  Forall2 (fun v x => fst x = v_index v /\ ci_name (snd x) = v_name v /\
                      create_composite_ir_kind r s (v_fields v) [] [] = Ok (ci_kind (snd x), []))
          vs l.
Proof.
  induction vs as [|v vs IH]; intros l u H.
  - cbn in H. inversion H; subst. split; [reflexivity|constructor].
  - cbn [variants_go] in H. fold (variants_go r s []) in H.
    apply bind_ok in H as (vn & Hvn & H). apply bind_ok in H as ([k u1] & Hk & H).
    apply bind_ok in H as ([rest u2] & Hrest & H). cbn [fst snd] in H, Hrest.
    pose proof (composite_kind_no_params r s _ _ _ Hk) as Hu1. subst u1.
    destruct (IH _ _ Hrest) as (Hu2 & HF). inversion H; subst. split; [reflexivity|].
    constructor; [|assumption]. cbn [fst snd ci_name ci_kind].
    apply parse_ident_ok in Hvn. auto.
Qed.

Theorem enum_item_variants_standalone r s t flat ir vs :
  params_from_scale_info (t_params t) = [] -> t_def t = TDVariant vs ->
  create_type_ir r s t flat = Ok (Some ir) ->
  exists name docs l,
    ti_kind ir = KEnum name docs l /\ ti_params ir = [] /\
    Forall2 (fun v x => fst x = v_index v /\ ci_name (snd x) = v_name v /\
                        create_composite_ir_kind r s (v_fields v) [] [] = Ok (ci_kind (snd x), []))
            vs l.
Proof.
  intros Hp Hd H. destruct (create_type_ir_inv r s t flat ir H) as (HP & Hkind).
  rewrite Hp in *.
  destruct Hkind as [(fs' & name & docs & k & u & Hd' & _)|(vs' & name & docs & l & u & Hd' & Hk & Hc)];
    [congruence|].
  assert (vs' = vs) by congruence. subst vs'.
  exists name, docs, l. split; [assumption|]. split; [assumption|].
  apply (variants_go_standalone r s vs l u Hc).
Qed.

(** the body of a parameter-free item, read against the generated items, is the registry's
    field list / variant list - i.e. what [standalone_faithful] gives for the standalone
    struct of the same field list *)
Theorem param_free_item_body r s teq m :
  skeleton_consistent r s -> root_fresh s -> generate r s teq = Ok m ->
  forall t flat ir n,
    params_from_scale_info (t_params t) = [] ->
    create_type_ir r s t flat = Ok (Some ir) ->
    match t_def t with
    | TDComposite fs => item_shape m s n ir [] = SStruct (map (field_shape_reg r s n) fs)
    | TDVariant vs =>
        item_shape m s n ir [] =
        SEnum (map (fun v => (v_name v, v_index v, map (field_shape_reg r s n) (v_fields v))) vs)
    | _ => True
    end.
Proof.
  intros Hsk Hfr Hgen t flat ir n Hp Hir.
  destruct (create_type_ir_inv r s t flat ir Hir) as (HP & Hkind). rewrite Hp in *.
  assert (Hfields : forall f fp, resolve_field_type_path r s (f_ty f) [] (f_type_name f) = Ok fp ->
                      shape_rust m s n (subst_tpath (mk_sigma [] []) fp) = shape_reg r s n (f_ty f)).
  { intros f fp Hfp.
    eapply resolve_shape; [eapply generate_items_ok; eauto|assumption|exact Hfp|apply sigma_ok_nil]. }
  unfold item_shape, item_shape_with. rewrite HP.
  destruct Hkind as [(fs & name & docs & k & u & Hd & Hk & Hc)|(vs & name & docs & l & u & Hd & Hk & Hc)];
    rewrite Hd, Hk; cbn [kind_shape ci_kind]; f_equal.
  - apply (ckind_shapes r s _ (shape_reg r s n) [] fs [] k u Hc). intros f fp _. apply Hfields.
  - apply (variants_shapes r s _ (shape_reg r s n) [] vs [] l u Hc). intros v f fp _ _. apply Hfields.
Qed.

(** ** C03: every member of a same-path family is represented by the one kept item *)
Theorem member_represented r s teq m :
  skeleton_consistent r s -> root_fresh s -> generate r s teq = Ok m ->
  forall id X t,
    resolve r id = Some X -> item_eligible s X = true -> path_ident (t_path X) <> Some "Cow" ->
    resolve_type_path r s id = Ok t ->
    exists params id0 X0 ir0,
      t = TPath (rel_path (s_root s :: t_path X)) params /\
      first_eligible r s (t_path X) = Some (id0, X0) /\
      items_get m (t_path X) = Some (id0, ir0) /\
      forall n, item_shape m s n ir0 params = shape_reg r s (S n) id.
Proof.
  intros Hsk Hfr Hgen id X t Hres He Hcow Ht0.
  pose proof Ht0 as Ht. unfold resolve_type_path, fuel0 in Ht. rewrite resolve_rec_S in Ht.
  unfold find_parent in Ht. cbn [find] in Ht.
  assert (Hrt : resolve_type r id = Ok X) by (unfold resolve_type; rewrite Hres; reflexivity).
  rewrite Hrt in Ht. cbn [bind] in Ht.
  rewrite cow_case_if, (is_cow_false _ Hcow) in Ht. cbn [bind] in Ht.
  apply bind_ok in Ht as (params & Hparams & Ht).
  pose proof He as He'. unfold item_eligible in He'.
  apply andb_prop in He' as [He' Hns]. apply andb_prop in He' as [Hcv Hsub].
  apply negb_true_iff in Hsub.
  assert (Ht' : type_path_maybe_with_substitutes s (t_path X) params = Ok t).
  { destruct (t_def X); cbn in Hcv; try discriminate; exact Ht. }
  clear Ht. unfold type_path_maybe_with_substitutes, for_path_with_params in Ht'.
  assert (Hpt : subs_get (s_subs s) (t_path X) = None /\
                exists a0 a1 pl, t_path X = a0 :: a1 :: pl).
  { unfold subs_contains in Hsub. destruct (t_path X) as [|a0 [|a1 pl]]; try discriminate Hns.
    split; [|eauto]. destruct (subs_get (s_subs s) (a0 :: a1 :: pl)); [discriminate|reflexivity]. }
  destruct Hpt as (Hsg & a0 & a1 & pl & Hpath). rewrite Hsg in Ht'.
  apply bind_ok in Ht' as (ptoks & Hp & Ht'). unfold from_type_def_path in Hp.
  rewrite Hpath in Hp. destruct (forallb path_seg_okb (a0 :: a1 :: pl)); [|discriminate].
  assert (Hptoks : ptoks = rel_path (s_root s :: t_path X)) by (rewrite Hpath; congruence).
  subst ptoks.
  assert (Hteq : t = TPath (rel_path (s_root s :: t_path X)) params) by congruence.
  subst t. clear Ht' Hp.
  pose proof (resolve_In r id X (generate_sanity _ _ _ _ Hgen) Hres) as Hin.
  destruct (generate_lookup r s teq m Hgen id X Hin He)
    as (id0 & X0 & ir0 & flat & Hfirst & Hflat & Hir0 & Hget).
  exists params, id0, X0, ir0. repeat split; try assumption.
  intros n. pose proof (generate_faithful r s teq m Hsk Hfr Hgen (S n) id _ Ht0) as Hf.
  cbn [shape_rust] in Hf. rewrite find_item_get, Hget in Hf. exact Hf.
Qed.
