(** Canonicity of the sorted, duplicate-free emission [sort_dedup]
    (Model/Derives.v): the result is strictly sorted by key, its key set is the
    key set of the input, and it depends only on the input read as a set
    (needed by C16 and C06). *)
From Coq Require Import List NArith String Bool Sorted Permutation.
From V Require Import Base.Strings Model.Settings Model.Derives Proofs.StringOrder.
Import ListNotations.

(** the set identity of a derive / attribute is its key (token string): a list
    of [kt] is well-keyed when equal keys carry equal tokens *)
Definition key_functional (l : list kt) : Prop :=
  forall x y, In x l -> In y l -> fst x = fst y -> x = y.

Definition keys (l : list kt) : list string := map fst l.
Definition ksorted (l : list kt) : Prop := StronglySorted str_lt (keys l).

Lemma insert_sorted_keys_in x l k :
  In k (keys (insert_sorted x l)) <-> k = fst x \/ In k (keys l).
Proof.
  induction l as [|y l IH]; cbn.
  - intuition.
  - destruct (str_compare_spec (fst x) (fst y)) as [E|E|E]; cbn.
    + rewrite E. intuition.
    + intuition.
    + rewrite IH. intuition.
Qed.

Lemma insert_sorted_sorted x l : ksorted l -> ksorted (insert_sorted x l).
Proof.
  unfold ksorted. induction l as [|y l IH]; cbn; intros H.
  - repeat constructor.
  - inversion H as [|? ? Hs Hf]; subst.
    destruct (str_compare_spec (fst x) (fst y)) as [E|E|E]; cbn.
    + exact H.
    + constructor; [exact H|]. constructor; [exact E|].
      eapply Forall_impl; [|exact Hf]. intros k Hk. eapply str_lt_trans; eauto.
    + constructor; [apply IH; exact Hs|].
      apply Forall_forall. intros k Hk.
      apply (insert_sorted_keys_in x l k) in Hk as [->|Hk]; [exact E|].
      rewrite Forall_forall in Hf. auto.
Qed.

Lemma insert_sorted_in x l z : In z (insert_sorted x l) -> z = x \/ In z l.
Proof.
  induction l as [|y l IH]; cbn.
  - intuition.
  - destruct (String.compare (fst x) (fst y)); cbn; intuition.
Qed.

Lemma insert_sorted_keeps x l z : In z l -> In z (insert_sorted x l).
Proof.
  induction l as [|y l IH]; cbn; [tauto|].
  destruct (String.compare (fst x) (fst y)); cbn; intuition.
Qed.

(** ** [sort_dedup] *)
Theorem sort_dedup_sorted l : ksorted (sort_dedup l).
Proof.
  induction l as [|x l IH]; cbn.
  - constructor.
  - apply insert_sorted_sorted; exact IH.
Qed.

Theorem sort_dedup_keys l k : In k (keys (sort_dedup l)) <-> In k (keys l).
Proof.
  induction l as [|x l IH]; cbn; [tauto|].
  rewrite insert_sorted_keys_in, IH. intuition.
Qed.

Theorem sort_dedup_sub l z : In z (sort_dedup l) -> In z l.
Proof.
  induction l as [|x l IH]; cbn; [tauto|].
  intros H. apply insert_sorted_in in H. intuition.
Qed.

Lemma sort_dedup_NoDup l : NoDup (keys (sort_dedup l)).
Proof.
  pose proof (sort_dedup_sorted l) as H. unfold ksorted in H.
  induction H as [|k ks Hs IH Hf]; constructor; auto.
  intros Hin. rewrite Forall_forall in Hf. exact (str_lt_irrefl k (Hf k Hin)).
Qed.

(** strictly sorted lists are determined by their element sets *)
Lemma sorted_unique (a b : list string) :
  StronglySorted str_lt a -> StronglySorted str_lt b -> (forall k, In k a <-> In k b) -> a = b.
Proof.
  intros Ha; revert b. induction Ha as [|x a Hsa IH Hfa]; intros b Hb Hab.
  - destruct b as [|y b]; [reflexivity|]. exfalso. apply (Hab y). left; reflexivity.
  - destruct b as [|y b]; [exfalso; apply (Hab x); left; reflexivity|].
    inversion Hb as [|? ? Hsb Hfb]; subst.
    rewrite Forall_forall in Hfa, Hfb.
    assert (x = y) as ->.
    { destruct (proj1 (Hab x) (or_introl eq_refl)) as [E|Hx]; [auto|].
      destruct (proj2 (Hab y) (or_introl eq_refl)) as [E|Hy]; [auto|].
      exfalso. exact (str_lt_asym _ _ (Hfb x Hx) (Hfa y Hy)). }
    f_equal. apply IH; [exact Hsb|].
    intros k; split; intros Hk.
    + destruct (proj1 (Hab k) (or_intror Hk)) as [E|H]; [|exact H].
      subst k. exfalso. exact (str_lt_irrefl y (Hfa y Hk)).
    + destruct (proj2 (Hab k) (or_intror Hk)) as [E|H]; [|exact H].
      subst k. exfalso. exact (str_lt_irrefl y (Hfb y Hk)).
Qed.

(** the emitted KEYS depend only on the set of keys of the input *)
Theorem sort_dedup_keys_canonical l1 l2 :
  (forall k, In k (keys l1) <-> In k (keys l2)) -> keys (sort_dedup l1) = keys (sort_dedup l2).
Proof.
  intros H. apply sorted_unique; try apply sort_dedup_sorted.
  intros k. rewrite !sort_dedup_keys. apply H.
Qed.

Lemma map_fst_eq_functional (a b : list kt) :
  map fst a = map fst b ->
  (forall x y, In x a -> In y b -> fst x = fst y -> x = y) -> a = b.
Proof.
  revert b; induction a as [|x a IH]; destruct b as [|y b]; cbn; intros E F; try discriminate; auto.
  inversion E. f_equal.
  - apply F; auto.
  - apply IH; auto.
Qed.

Lemma in_keys (l : list kt) x : In x l -> In (fst x) (keys l).
Proof. apply in_map. Qed.

(** the emitted LIST depends only on the input read as a set, when equal keys
    carry equal tokens *)
Theorem sort_dedup_canonical l1 l2 :
  key_functional (l1 ++ l2) -> (forall x, In x l1 <-> In x l2) -> sort_dedup l1 = sort_dedup l2.
Proof.
  intros F H. apply map_fst_eq_functional.
  - apply sort_dedup_keys_canonical. intros k; unfold keys; rewrite !in_map_iff.
    split; intros (x & E & Hx); exists x; split; auto; apply H; auto.
  - intros x y Hx Hy E. apply F; auto; apply in_or_app.
    + left; apply sort_dedup_sub; exact Hx.
    + right; apply sort_dedup_sub; exact Hy.
Qed.

(** under the same assumption [sort_dedup] keeps exactly the elements of the input *)
Theorem sort_dedup_set l x : key_functional l -> (In x (sort_dedup l) <-> In x l).
Proof.
  intros F; split; [apply sort_dedup_sub|].
  intros Hx. pose proof (in_keys _ _ Hx) as Hk. apply sort_dedup_keys in Hk.
  unfold keys in Hk. apply in_map_iff in Hk as (y & E & Hy).
  assert (y = x) as <-; [|exact Hy].
  apply F; auto. apply sort_dedup_sub; exact Hy.
Qed.

Lemma key_functional_sub l l' :
  (forall x, In x l' -> In x l) -> key_functional l -> key_functional l'.
Proof. intros S F x y Hx Hy. apply F; auto. Qed.

Corollary sort_dedup_perm l1 l2 :
  key_functional l1 -> Permutation l1 l2 -> sort_dedup l1 = sort_dedup l2.
Proof.
  intros F P. apply sort_dedup_canonical.
  - eapply key_functional_sub; [|exact F]. intros x Hx. apply in_app_or in Hx as [Hx|Hx]; auto.
    eapply Permutation_in; [apply Permutation_sym; exact P|exact Hx].
  - intros x; split; apply Permutation_in; [exact P|apply Permutation_sym; exact P].
Qed.

Corollary sort_dedup_repeat l : key_functional l -> sort_dedup (l ++ l) = sort_dedup l.
Proof.
  intros F. apply sort_dedup_canonical.
  - eapply key_functional_sub; [|exact F]. intros x Hx.
    repeat (apply in_app_or in Hx as [Hx|Hx]; auto).
  - intros x. rewrite in_app_iff. tauto.
Qed.

Corollary sort_dedup_idem l : sort_dedup (sort_dedup l) = sort_dedup l.
Proof.
  apply map_fst_eq_functional.
  - apply sort_dedup_keys_canonical. intros k. apply sort_dedup_keys.
  - intros x y Hx Hy E. apply sort_dedup_sub in Hx.
    pose proof (sort_dedup_NoDup l) as ND. unfold keys in ND.
    revert x y Hx Hy E ND. generalize (sort_dedup l). intros s.
    induction s as [|z s IH]; cbn; [tauto|].
    intros x y [->|Hx] [->|Hy] E ND; inversion ND; subst; auto.
    + exfalso. apply H1. rewrite E. apply in_map; exact Hy.
    + exfalso. apply H1. rewrite <- E. apply in_map; exact Hx.
Qed.

(** emission of a derive set depends only on the two sets *)
Theorem derives_tokens_canonical d1 d2 :
  key_functional (d_derives d1 ++ d_derives d2) -> key_functional (d_attrs d1 ++ d_attrs d2) ->
  (forall x, In x (d_derives d1) <-> In x (d_derives d2)) ->
  (forall x, In x (d_attrs d1) <-> In x (d_attrs d2)) ->
  derives_tokens d1 = derives_tokens d2.
Proof.
  intros F1 F2 H1 H2. unfold derives_tokens.
  rewrite (sort_dedup_canonical _ _ F1 H1), (sort_dedup_canonical _ _ F2 H2). reflexivity.
Qed.
