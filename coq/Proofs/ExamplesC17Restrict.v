(** C17: the hypotheses of the description / example clauses of the restriction half are
    satisfiable (the witness of Proofs/ExamplesC17.v: the registry [ex_reg] restricted to what is
    reachable from [a::c::E<u8>], 5 of 8 entries). *)
From Coq Require Import List NArith String Bool.
From V Require Import Base.Result Model.Registry Model.Renumber Model.ExamplesFam Model.ExamplesTG
  Proofs.ExamplesC17.
Require V.Model.Describe V.Model.ExampleValue.
Import ListNotations.
Open Scope string_scope.

Lemma describe_restriction_satisfiable :
  exists pi k r id d,
    renumbering (N.of_nat (List.length r)) pi /\
    V.Model.Describe.wf_descb (restrict pi k r) = true /\
    (pi id < N.of_nat (List.length (restrict pi k r)))%N /\
    (List.length (restrict pi k r) < List.length r)%nat /\
    pi id <> id /\
    V.Model.Describe.describe (restrict pi k r) (pi id) = Ok d /\
    V.Model.Describe.describe r id = Ok d /\
    d = "enum E<u8>{A(struct Wrap<u8>{v: u8,n: u32}),B{x: u8,c: Compact<u32>}}".
Proof.
  exists ex_pi_keep, ex_keep_k, ex_reg, 4%N, "enum E<u8>{A(struct Wrap<u8>{v: u8,n: u32}),B{x: u8,c: Compact<u32>}}".
  split; [exact ex_pi_keep_renumbering|].
  split; [vm_compute; reflexivity|]. split; [vm_compute; reflexivity|].
  split; [vm_compute; repeat constructor|]. split; [vm_compute; discriminate|].
  split; [vm_compute; reflexivity|]. split; [vm_compute; reflexivity|reflexivity].
Qed.

(** an example value generated from the restricted registry, typed by both registries *)
Lemma example_restriction_satisfiable :
  exists pi k r id ws v,
    renumbering (N.of_nat (List.length r)) pi /\
    (List.length (restrict pi k r) < List.length r)%nat /\
    V.Model.ExampleValue.example_value (restrict pi k r) (pi id) ws = V.Model.ExampleValue.XOk v /\
    V.Model.ExampleValue.example_value r id ws = V.Model.ExampleValue.XOk v /\
    V.Model.ExampleValue.has_typeb (restrict pi k r) (pi id) v = true /\
    V.Model.ExampleValue.has_typeb r id v = true /\
    match v with V.Model.ExampleValue.VVariant _ _ => True | _ => False end.
Proof.
  exists ex_pi_keep, ex_keep_k, ex_reg, 4%N, [4000000000; 7; 9; 11; 13; 15]%N.
  eexists.
  split; [exact ex_pi_keep_renumbering|].
  split; [vm_compute; repeat constructor|].
  split; [vm_compute; reflexivity|].
  split; [vm_compute; reflexivity|].
  split; [vm_compute; reflexivity|].
  split; [vm_compute; reflexivity|exact I].
Qed.
