(** C03 [equal_sound_partial]: on the class where [types_equal] is plain structural recursion
    it is sound for the registry shapes (modulo what it never looks at there: Box flags);
    refutations of the unrestricted statement. *)
From Coq Require Import String List Arith NArith Bool Lia.
From V Require Import Base.Strings Base.Result Model.Registry Model.Settings Model.Subst
  Model.TypePath Model.Derives Model.Generate Model.Equal Model.Shape Model.EqualPlain
  Model.WellFormed Proofs.GenProofs Proofs.CollectProofs Proofs.FidelityBase Proofs.ResolveTotal Proofs.GenTotal.
Import ListNotations.
Open Scope string_scope. Open Scope list_scope.

(** ** 1. [teq_plain] agrees with [teq] wherever it answers *)
Definition glist_np (g : glist) : Prop := Forall (fun fr : frame => snd fr = []) g.

Lemma np_type_id g id : glist_np g -> index_for_type_id g id = None.
Proof.
  induction 1 as [|[st en] g He _ IH]; cbn [index_for_type_id]; [reflexivity|].
  cbn [snd] in He. subst en. cbn [position]. exact IH.
Qed.

Lemma no_params_ids t : no_params t = true -> param_ids t = [].
Proof. unfold no_params. destruct (param_ids t); [reflexivity|discriminate]. Qed.

Lemma no_params_entries t :
  param_ids t = [] ->
  flat_map (fun p => match tp_ty p with Some i => [(i, tp_name p)] | None => [] end) (t_params t) = [].
Proof.
  unfold param_ids. induction (t_params t) as [|p ps IH]; cbn [flat_map]; [reflexivity|].
  destruct (tp_ty p); cbn [app]; [discriminate|exact IH].
Qed.

Lemma np_extend g t : glist_np g -> param_ids t = [] -> glist_np (glist_extend g (t_params t)).
Proof.
  intros Hg Ht. unfold glist_extend. rewrite (no_params_entries t Ht). constructor; [reflexivity|exact Hg].
Qed.

Lemma all2_mono {A} (f g : A -> A -> vstate -> result (bool * vstate)) :
  (forall x y st z, f x y st = Ok z -> g x y st = Ok z) ->
  forall la lb st z, all2 f la lb st = Ok z -> all2 g la lb st = Ok z.
Proof.
  intros Hfg. induction la as [|x la IH]; intros lb st z H; destruct lb as [|y lb]; cbn [all2] in *; try exact H.
  apply bind_ok in H as (res & E & H). rewrite (Hfg _ _ _ _ E). cbn [bind].
  destruct (fst res); [apply IH; exact H|exact H].
Qed.

Section Agree.
  Variable r : registry.
  Variables (recp rect : N -> N -> vstate -> result (bool * vstate)).
  Hypothesis Hrec : forall x y st z, recp x y st = Ok z -> rect x y st = Ok z.
  Variables ap' bp' : glist.
  Hypothesis Hap : glist_np ap'.
  Hypothesis Hbp : glist_np bp'.

  Lemma compare_fields_agree fa fb st z :
    plain_compare_fields recp fa fb st = Ok z -> compare_fields_with rect ap' bp' fa fb st = Ok z.
  Proof.
    unfold plain_compare_fields, compare_fields_with. intros H.
    destruct (negb (opt_str_eqb (f_name fa) (f_name fb))); [exact H|].
    rewrite (np_type_id _ (f_ty fa) Hap).
    destruct (f_type_name fa), (f_type_name fb); apply Hrec; exact H.
  Qed.

  Lemma fields_equal_agree fa fb st z :
    plain_fields_equal recp fa fb st = Ok z -> fields_equal_with rect ap' bp' fa fb st = Ok z.
  Proof.
    unfold plain_fields_equal, fields_equal_with. intros H.
    destruct (negb (Nat.eqb (List.length fa) (List.length fb))); [exact H|].
    eapply all2_mono; [|exact H]. intros x y st0 z0. apply compare_fields_agree.
  Qed.

  Lemma plain_def_agree ta tb st z :
    plain_def recp ta tb st = Ok z -> teq_def rect ap' bp' ta tb st = Ok z.
  Proof.
    unfold plain_def, teq_def. intros H.
    destruct (t_def ta) as [fa|va|x|la x|xs|p|x|sa oa], (t_def tb) as [fb|vb|y|lb y|ys|q|y|sb ob];
      try exact H.
    - apply fields_equal_agree; exact H.
    - destruct (negb (Nat.eqb (List.length va) (List.length vb))); [exact H|].
      eapply all2_mono; [|exact H]. intros v w st0 z0 E. cbn beta in *.
      destruct (String.eqb (v_name v) (v_name w) && N.eqb (v_index v) (v_index w));
        [apply fields_equal_agree; exact E|exact E].
    - apply Hrec; exact H.
    - destruct (N.eqb la lb); [apply Hrec; exact H|exact H].
    - destruct (negb (Nat.eqb (List.length xs) (List.length ys))); [exact H|].
      eapply all2_mono; [|exact H]. exact Hrec.
    - apply Hrec; exact H.
    - apply bind_ok in H as (o & Eo & H). apply bind_ok in H as (s' & Es & H).
      rewrite (Hrec _ _ _ _ Eo). cbn [bind]. rewrite (Hrec _ _ _ _ Es). cbn [bind]. exact H.
  Qed.
End Agree.

Theorem teq_plain_agrees r : forall fuel a b st z ap bp,
  glist_np ap -> glist_np bp -> teq_plain r fuel a b st = Ok z -> teq r fuel a ap b bp st = Ok z.
Proof.
  induction fuel as [|fuel IH]; intros a b st z ap bp Hap Hbp H; [discriminate|].
  rewrite teq_S. cbn [teq_plain] in H.
  destruct (N.eqb a b); [exact H|]. cbv zeta.
  destruct (mem_N a (fst st)), (mem_N b (snd st)); cbn [orb] in H; try discriminate.
  cbn [Bool.eqb negb andb].
  destruct (resolve r a) as [ta|]; [|discriminate]. destruct (resolve r b) as [tb|]; [|discriminate].
  destruct (no_params ta && no_params tb) eqn:NP; cbn [negb] in H; [|discriminate].
  apply andb_prop in NP as [Na Nb]. apply no_params_ids in Na. apply no_params_ids in Nb.
  rewrite (np_type_id ap a Hap), (np_type_id bp b Hbp). cbn [opt_nat_eqb].
  destruct (negb (path_eqb (t_path ta) (t_path tb))); [exact H|].
  rewrite Na, Nb. cbn [List.length Nat.eqb negb].
  eapply plain_def_agree; [|apply np_extend; assumption|exact H].
  intros x y st0 z0 E. apply IH; [apply np_extend; assumption|apply np_extend; assumption|exact E].
Qed.

Lemma glist_empty_np : glist_np glist_empty.
Proof. constructor; [reflexivity|constructor]. Qed.

Theorem types_equal_plain_agrees r a b v :
  types_equal_plain r a b = Ok v -> types_equal_res r a b = Ok v.
Proof.
  unfold types_equal_plain, types_equal_res. intros H. apply bind_ok in H as (x & E & H).
  rewrite (teq_plain_agrees r _ _ _ _ _ _ _ glist_empty_np glist_empty_np E). exact H.
Qed.

(** ** 2. soundness of the plain recursion for the registry shapes *)
Lemma opt_str_eqb_eq a b : opt_str_eqb a b = true -> a = b.
Proof.
  destruct a, b; cbn [opt_str_eqb]; intros H; try discriminate; [|reflexivity].
  apply String.eqb_eq in H. congruence.
Qed.

Lemma all2_true {A} (f : A -> A -> vstate -> result (bool * vstate)) :
  forall la lb st st', List.length la = List.length lb -> all2 f la lb st = Ok (true, st') ->
    Forall2 (fun x y => exists s1 s2, f x y s1 = Ok (true, s2)) la lb.
Proof.
  induction la as [|x la IH]; intros lb st st' Hl H; destruct lb as [|y lb]; cbn [List.length] in Hl; try lia.
  - constructor.
  - cbn [all2] in H. apply bind_ok in H as ([[|] s2] & E & H); cbn [fst snd] in H.
    + constructor; [exists st, s2; exact E|]. eapply IH; [lia|exact H].
    + discriminate.
Qed.

Lemma Forall2_imp {A B} (P Q : A -> B -> Prop) la lb :
  (forall x y, P x y -> Q x y) -> Forall2 P la lb -> Forall2 Q la lb.
Proof. intros H. induction 1; constructor; auto. Qed.

Lemma Forall2_map_eq {A B C} (g : A -> C) (h : B -> C) la lb :
  Forall2 (fun x y => g x = h y) la lb -> map g la = map h lb.
Proof. induction 1 as [|x y la lb E _ IH]; cbn [map]; [reflexivity|]. rewrite E, IH. reflexivity. Qed.

Lemma named_shape_core s p b1 b2 :
  shape_core b1 = shape_core b2 ->
  shape_core (named_shape s p [] b1) = shape_core (named_shape s p [] b2).
Proof.
  intros H. unfold named_shape. destruct (subs_get (s_subs s) p); [reflexivity|].
  destruct p as [|i [|j p]]; [reflexivity| |exact H].
  destruct (assoc_str _ i); reflexivity.
Qed.

Lemma shape_reg_S r s n id :
  shape_reg r s (S n) id =
  match entry_body r id with
  | None => SCut
  | Some t =>
      let fld (f : field) : fshape := (f_name f, is_boxed_gen f, shape_reg r s n (f_ty f)) in
      match t_def t with
      | TDComposite fs =>
          named_shape s (t_path t) (map (shape_reg r s n) (param_ids t)) (SStruct (map fld fs))
      | TDVariant vs =>
          named_shape s (t_path t) (map (shape_reg r s n) (param_ids t))
            (SEnum (map (fun v => (v_name v, v_index v, map fld (v_fields v))) vs))
      | TDSequence e => SSeq (shape_reg r s n e)
      | TDArray len e => SArr len (shape_reg r s n e)
      | TDTuple es => STuple (map (shape_reg r s n) es)
      | TDPrimitive p => SPrim p
      | TDCompact e => SCompact (shape_reg r s n e)
      | TDBitSeq store order => SBits (shape_reg r s n store) (shape_reg r s n order)
      end
  end.
Proof. reflexivity. Qed.

Lemma entry_body_no_params r id t :
  resolve r id = Some t -> param_ids t = [] ->
  entry_body r id = if FidelityBase.is_cow (t_path t) then None else Some t.
Proof.
  intros Hr Hp. unfold entry_body. rewrite Hr, cow_case_if.
  destruct (FidelityBase.is_cow (t_path t)); [|reflexivity].
  unfold param_ids in Hp. destruct (t_params t) as [|p0 ps]; [reflexivity|].
  cbn [flat_map] in Hp. destruct (tp_ty p0); [discriminate|reflexivity].
Qed.

Section Sound.
  Variable r : registry.
  Variable s : settings.
  Variable n : nat.
  Variable recp : N -> N -> vstate -> result (bool * vstate).
  (** the recursive calls are sound at depth [n] *)
  Hypothesis Hrec : forall x y st st', recp x y st = Ok (true, st') ->
                                        shape_core (shape_reg r s n x) = shape_core (shape_reg r s n y).

  Definition fcore (f : field) : fshape := (f_name f, false, shape_core (shape_reg r s n (f_ty f))).

  Lemma fields_core fs :
    map (fun f : fshape => let '(m, _, y) := f in (m, false, shape_core y))
        (map (fun f : field => (f_name f, is_boxed_gen f, shape_reg r s n (f_ty f))) fs) = map fcore fs.
  Proof. rewrite map_map. reflexivity. Qed.

  Lemma fields_equal_sound fa fb st st' :
    plain_fields_equal recp fa fb st = Ok (true, st') -> map fcore fa = map fcore fb.
  Proof.
    unfold plain_fields_equal. intros H.
    destruct (Nat.eqb (List.length fa) (List.length fb)) eqn:El; cbn [negb] in H; [|discriminate].
    apply Nat.eqb_eq in El. apply all2_true in H; [|exact El].
    apply Forall2_map_eq. eapply Forall2_imp; [|exact H].
    intros x y (s1 & s2 & E). unfold plain_compare_fields in E.
    destruct (opt_str_eqb (f_name x) (f_name y)) eqn:En; cbn [negb] in E; [|discriminate].
    apply opt_str_eqb_eq in En. unfold fcore. rewrite En, (Hrec _ _ _ _ E). reflexivity.
  Qed.

  Lemma plain_def_sound ta tb st st' :
    t_path ta = t_path tb -> param_ids ta = [] -> param_ids tb = [] ->
    plain_def recp ta tb st = Ok (true, st') ->
    let body (t : ty) :=
      let fld (f : field) : fshape := (f_name f, is_boxed_gen f, shape_reg r s n (f_ty f)) in
      match t_def t with
      | TDComposite fs =>
          named_shape s (t_path t) (map (shape_reg r s n) (param_ids t)) (SStruct (map fld fs))
      | TDVariant vs =>
          named_shape s (t_path t) (map (shape_reg r s n) (param_ids t))
            (SEnum (map (fun v => (v_name v, v_index v, map fld (v_fields v))) vs))
      | TDSequence e => SSeq (shape_reg r s n e)
      | TDArray len e => SArr len (shape_reg r s n e)
      | TDTuple es => STuple (map (shape_reg r s n) es)
      | TDPrimitive p => SPrim p
      | TDCompact e => SCompact (shape_reg r s n e)
      | TDBitSeq store order => SBits (shape_reg r s n store) (shape_reg r s n order)
      end in
    shape_core (body ta) = shape_core (body tb).
  Proof.
    intros Ep Pa Pb H. cbv beta zeta. rewrite Pa, Pb, <- Ep. cbn [map]. unfold plain_def in H.
    destruct (t_def ta) as [fa|va|x|la x|xs|p|x|sa oa], (t_def tb) as [fb|vb|y|lb y|ys|q|y|sb ob];
      try discriminate.
    - apply named_shape_core. cbn [shape_core]. rewrite !fields_core.
      f_equal. eapply fields_equal_sound; exact H.
    - apply named_shape_core. cbn [shape_core]. f_equal. rewrite !map_map.
      destruct (Nat.eqb (List.length va) (List.length vb)) eqn:El; cbn [negb] in H; [|discriminate].
      apply Nat.eqb_eq in El. apply all2_true in H; [|exact El].
      apply Forall2_map_eq. eapply Forall2_imp; [|exact H].
      intros v w (s1 & s2 & E). cbn beta in E.
      destruct (String.eqb (v_name v) (v_name w) && N.eqb (v_index v) (v_index w)) eqn:En; [|discriminate].
      apply andb_prop in En as [En Ei]. apply String.eqb_eq in En. apply N.eqb_eq in Ei.
      rewrite En, Ei, !fields_core. f_equal.
      eapply fields_equal_sound; exact E.
    - cbn [shape_core]. f_equal. eapply Hrec; exact H.
    - destruct (N.eqb la lb) eqn:El; [|discriminate]. apply N.eqb_eq in El. subst lb.
      cbn [shape_core]. f_equal. eapply Hrec; exact H.
    - destruct (Nat.eqb (List.length xs) (List.length ys)) eqn:El; cbn [negb] in H; [|discriminate].
      apply Nat.eqb_eq in El. apply all2_true in H; [|exact El].
      cbn [shape_core]. f_equal. rewrite !map_map. apply Forall2_map_eq.
      eapply Forall2_imp; [|exact H]. intros x y (s1 & s2 & E). eapply Hrec; exact E.
    - assert (E : prim_eqb p q = true) by congruence. apply prim_eqb_eq in E. subst q. reflexivity.
    - cbn [shape_core]. f_equal. eapply Hrec; exact H.
    - apply bind_ok in H as ([o1 so] & Eo & H). apply bind_ok in H as ([o2 ss] & Es & H).
      cbn [fst snd] in *. assert (Eb : o1 && o2 = true) by congruence. apply andb_prop in Eb as [-> ->].
      cbn [shape_core]. f_equal; eapply Hrec; eassumption.
  Qed.
End Sound.

Theorem teq_plain_sound r s : forall fuel a b st st',
  teq_plain r fuel a b st = Ok (true, st') ->
  forall n, shape_core (shape_reg r s n a) = shape_core (shape_reg r s n b).
Proof.
  induction fuel as [|fuel IH]; intros a b st st' H n; [discriminate|].
  cbn [teq_plain] in H.
  destruct (N.eqb_spec a b) as [->|Hne]; [reflexivity|].
  destruct (mem_N a (fst st) || mem_N b (snd st)); [discriminate|].
  destruct (resolve r a) as [ta|] eqn:Ra; [|discriminate].
  destruct (resolve r b) as [tb|] eqn:Rb; [|discriminate].
  destruct (no_params ta && no_params tb) eqn:NP; cbn [negb] in H; [|discriminate].
  apply andb_prop in NP as [Na Nb]. apply no_params_ids in Na. apply no_params_ids in Nb.
  destruct (path_eqb (t_path ta) (t_path tb)) eqn:Ep; cbn [negb] in H; [|discriminate].
  apply path_eqb_eq in Ep.
  destruct n as [|n]; [reflexivity|].
  rewrite !shape_reg_S, (entry_body_no_params r a ta Ra Na), (entry_body_no_params r b tb Rb Nb), <- Ep.
  destruct (FidelityBase.is_cow (t_path ta)); [reflexivity|].
  eapply (plain_def_sound r s n (teq_plain r fuel)); [|exact Ep|exact Na|exact Nb|exact H].
  intros x y s1 s2 E. eapply IH; exact E.
Qed.

Theorem types_equal_plain_sound r a b :
  types_equal_plain r a b = Ok true ->
  forall s n, shape_core (shape_reg r s n a) = shape_core (shape_reg r s n b).
Proof.
  unfold types_equal_plain. intros H s n. apply bind_ok in H as ([v st'] & E & H).
  inversion H; subst v. eapply teq_plain_sound; exact E.
Qed.

(** the same with the class as hypotheses on [types_equal] itself *)
Corollary types_equal_sound_partial r a b :
  (exists v, types_equal_plain r a b = Ok v) -> types_equal_res r a b = Ok true ->
  forall s n, shape_core (shape_reg r s n a) = shape_core (shape_reg r s n b).
Proof.
  intros (v & Hv) H. pose proof (types_equal_plain_agrees _ _ _ _ Hv) as Ha.
  rewrite H in Ha. inversion Ha; subst v. apply types_equal_plain_sound; exact Hv.
Qed.

(** ** 2b. the class, declaratively: on a closed registry, if nothing reachable from [a] or [b]
    has a non-skipped type parameter and no id is reached twice on either side, [types_equal_plain]
    answers (so the marker outcomes describe exactly what the hypotheses exclude) *)

(** [teq_plain] and [teq] have the SAME outcome (errors and panics included) whenever the
    outcome of [teq_plain] is not one of its two markers *)
Definition nm {A} (z : result A) : Prop :=
  z <> Panic "revisit" /\ z <> Panic "type parameter in scope".

Lemma nm_ok {A} (x : A) : nm (Ok x).
Proof. split; discriminate. Qed.

Lemma all2_same {A} (f g : A -> A -> vstate -> result (bool * vstate)) :
  (forall x y st, nm (f x y st) -> g x y st = f x y st) ->
  forall la lb st, nm (all2 f la lb st) -> all2 g la lb st = all2 f la lb st.
Proof.
  intros Hfg. induction la as [|x la IH]; intros lb st H; destruct lb as [|y lb]; cbn [all2] in *; try reflexivity.
  assert (E : g x y st = f x y st).
  { apply Hfg. destruct (f x y st) as [res|e|m]; [apply nm_ok|split; discriminate|exact H]. }
  rewrite E. destruct (f x y st) as [res|e|m]; cbn [bind] in *; try reflexivity.
  destruct (fst res); [apply IH; exact H|reflexivity].
Qed.

Section Same.
  Variables (recp rect : N -> N -> vstate -> result (bool * vstate)).
  Hypothesis Hrec : forall x y st, nm (recp x y st) -> rect x y st = recp x y st.
  Variables ap' bp' : glist.
  Hypothesis Hap : glist_np ap'.
  Hypothesis Hbp : glist_np bp'.

  Lemma compare_fields_same fa fb st :
    nm (plain_compare_fields recp fa fb st) ->
    compare_fields_with rect ap' bp' fa fb st = plain_compare_fields recp fa fb st.
  Proof.
    unfold plain_compare_fields, compare_fields_with. intros H.
    destruct (negb (opt_str_eqb (f_name fa) (f_name fb))); [reflexivity|].
    rewrite (np_type_id _ (f_ty fa) Hap).
    destruct (f_type_name fa), (f_type_name fb); apply Hrec; exact H.
  Qed.

  Lemma fields_equal_same fa fb st :
    nm (plain_fields_equal recp fa fb st) ->
    fields_equal_with rect ap' bp' fa fb st = plain_fields_equal recp fa fb st.
  Proof.
    unfold plain_fields_equal, fields_equal_with. intros H.
    destruct (negb (Nat.eqb (List.length fa) (List.length fb))); [reflexivity|].
    apply all2_same; [|exact H]. intros x y st0. apply compare_fields_same.
  Qed.

  Lemma plain_def_same ta tb st :
    nm (plain_def recp ta tb st) -> teq_def rect ap' bp' ta tb st = plain_def recp ta tb st.
  Proof.
    unfold plain_def, teq_def. intros H.
    destruct (t_def ta) as [fa|va|x|la x|xs|p|x|sa oa], (t_def tb) as [fb|vb|y|lb y|ys|q|y|sb ob];
      try reflexivity.
    - apply fields_equal_same; exact H.
    - destruct (negb (Nat.eqb (List.length va) (List.length vb))); [reflexivity|].
      apply all2_same; [|exact H]. intros v w st0 E. cbn beta in *.
      destruct (String.eqb (v_name v) (v_name w) && N.eqb (v_index v) (v_index w));
        [apply fields_equal_same; exact E|reflexivity].
    - apply Hrec; exact H.
    - destruct (N.eqb la lb); [apply Hrec; exact H|reflexivity].
    - destruct (negb (Nat.eqb (List.length xs) (List.length ys))); [reflexivity|].
      apply all2_same; [exact Hrec|exact H].
    - apply Hrec; exact H.
    - assert (E1 : rect oa ob st = recp oa ob st).
      { apply Hrec. destruct (recp oa ob st) as [res|e|m]; [apply nm_ok|split; discriminate|exact H]. }
      rewrite E1. destruct (recp oa ob st) as [o|e|m]; cbn [bind] in *; try reflexivity.
      assert (E2 : rect sa sb (snd o) = recp sa sb (snd o)).
      { apply Hrec. destruct (recp sa sb (snd o)) as [res|e|m]; [apply nm_ok|split; discriminate|exact H]. }
      rewrite E2. reflexivity.
  Qed.
End Same.

Theorem teq_plain_same r : forall fuel a b st ap bp,
  glist_np ap -> glist_np bp -> nm (teq_plain r fuel a b st) ->
  teq r fuel a ap b bp st = teq_plain r fuel a b st.
Proof.
  induction fuel as [|fuel IH]; intros a b st ap bp Hap Hbp H; [reflexivity|].
  rewrite teq_S. cbn [teq_plain] in *.
  destruct (N.eqb a b); [reflexivity|]. cbv zeta.
  destruct (mem_N a (fst st)), (mem_N b (snd st)); cbn [orb] in *;
    try (exfalso; apply (proj1 H); reflexivity).
  cbn [Bool.eqb negb andb].
  destruct (resolve r a) as [ta|]; [|reflexivity]. destruct (resolve r b) as [tb|]; [|reflexivity].
  destruct (no_params ta && no_params tb) eqn:NP; cbn [negb] in *;
    [|exfalso; apply (proj2 H); reflexivity].
  apply andb_prop in NP as [Na Nb]. apply no_params_ids in Na. apply no_params_ids in Nb.
  rewrite (np_type_id ap a Hap), (np_type_id bp b Hbp). cbn [opt_nat_eqb].
  destruct (negb (path_eqb (t_path ta) (t_path tb))); [reflexivity|].
  rewrite Na, Nb. cbn [List.length Nat.eqb negb].
  apply plain_def_same; [|apply np_extend; assumption|exact H].
  intros x y st0 E. apply IH; [apply np_extend; assumption|apply np_extend; assumption|exact E].
Qed.

Theorem types_equal_plain_same r a b :
  types_equal_plain r a b <> Panic "revisit" ->
  types_equal_plain r a b <> Panic "type parameter in scope" ->
  types_equal_res r a b = types_equal_plain r a b.
Proof.
  unfold types_equal_plain, types_equal_res. intros H1 H2.
  rewrite (teq_plain_same r _ a b ([], []) glist_empty glist_empty glist_empty_np glist_empty_np); [reflexivity|].
  destruct (teq_plain r (S (S (List.length r))) a b ([], [])) as [x|e|m]; cbn [bind] in *;
    [apply nm_ok|split; discriminate|split; intros E; inversion E; subst; [apply H1|apply H2]; reflexivity].
Qed.

(** footprints: a call that may only touch the ids [A] on the left and [B] on the right *)
Definition disj (l1 l2 : list N) : Prop := forall x, In x l1 -> In x l2 -> False.

Definition nrspec (A B : list N) (F : vstate -> result (bool * vstate)) : Prop :=
  forall st, disj (fst st) A -> disj (snd st) B ->
    nm (F st) /\
    forall v st', F st = Ok (v, st') -> incl (fst st') (fst st ++ A) /\ incl (snd st') (snd st ++ B).

Lemma nr_ret A B b : nrspec A B (fun st => Ok (b, st)).
Proof.
  intros st _ _. split; [apply nm_ok|]. intros v st' E. inversion E; subst.
  split; apply incl_appl, incl_refl.
Qed.

Lemma nr_weaken A B A' B' F : nrspec A B F -> incl A A' -> incl B B' -> nrspec A' B' F.
Proof.
  intros H IA IB st D1 D2.
  destruct (H st) as [N1 N2].
  - intros x Hx Hy. apply (D1 x Hx). apply IA; exact Hy.
  - intros x Hx Hy. apply (D2 x Hx). apply IB; exact Hy.
  - split; [exact N1|]. intros v st' E. destruct (N2 v st' E) as [I1 I2]. split.
    + intros x Hx. apply I1 in Hx. apply in_app_or in Hx as [Hx|Hx]; apply in_or_app; [left|right; apply IA]; exact Hx.
    + intros x Hx. apply I2 in Hx. apply in_app_or in Hx as [Hx|Hx]; apply in_or_app; [left|right; apply IB]; exact Hx.
Qed.

Lemma NoDup_app_parts {A} (l1 l2 : list A) :
  NoDup (l1 ++ l2) -> NoDup l1 /\ NoDup l2 /\ forall x, In x l1 -> In x l2 -> False.
Proof.
  induction l1 as [|a l1 IH]; cbn [app]; intros H.
  - split; [constructor|]. split; [exact H|intros x []].
  - inversion H as [|? ? Hn ND]; subst. destruct (IH ND) as (N1 & N2 & N3).
    split; [constructor; [intros Hin; apply Hn, in_or_app; left; exact Hin|exact N1]|].
    split; [exact N2|]. intros x [<-|Hx] Hx2; [apply Hn, in_or_app; right; exact Hx2|eapply N3; eauto].
Qed.

(** sequencing: [F1] with footprint (A1, B1), then -- if it answered [true] -- [F2] with the
    disjoint footprint (A2, B2) *)
Lemma nr_then A1 B1 A2 B2 F1 F2 :
  nrspec A1 B1 F1 -> nrspec A2 B2 F2 -> disj A1 A2 -> disj B1 B2 ->
  nrspec (A1 ++ A2) (B1 ++ B2)
         (fun st => let* res := F1 st in if fst res then F2 (snd res) else Ok (false, snd res)).
Proof.
  intros H1 H2 DA DB st D1 D2.
  destruct (H1 st) as [N1 I1].
  { intros x Hx Hy. apply (D1 x Hx). apply in_or_app; left; exact Hy. }
  { intros x Hx Hy. apply (D2 x Hx). apply in_or_app; left; exact Hy. }
  destruct (F1 st) as [[v1 st1]|e|m] eqn:E1; cbn [bind fst snd].
  - destruct (I1 v1 st1 eq_refl) as [Ia Ib]. destruct v1.
    + destruct (H2 st1) as [N2 I2].
      { intros x Hx Hy. apply Ia in Hx. apply in_app_or in Hx as [Hx|Hx].
        - apply (D1 x Hx). apply in_or_app; right; exact Hy.
        - exact (DA x Hx Hy). }
      { intros x Hx Hy. apply Ib in Hx. apply in_app_or in Hx as [Hx|Hx].
        - apply (D2 x Hx). apply in_or_app; right; exact Hy.
        - exact (DB x Hx Hy). }
      split; [exact N2|]. intros v st' E. destruct (I2 v st' E) as [Ja Jb]. split.
      * intros x Hx. apply Ja in Hx. rewrite app_assoc. apply in_app_or in Hx as [Hx|Hx]; apply in_or_app;
          [left; apply Ia; exact Hx|right; exact Hx].
      * intros x Hx. apply Jb in Hx. rewrite app_assoc. apply in_app_or in Hx as [Hx|Hx]; apply in_or_app;
          [left; apply Ib; exact Hx|right; exact Hx].
    + split; [apply nm_ok|]. intros v st' E. inversion E; subst. split.
      * intros x Hx. apply Ia in Hx. rewrite app_assoc. apply in_or_app; left; exact Hx.
      * intros x Hx. apply Ib in Hx. rewrite app_assoc. apply in_or_app; left; exact Hx.
  - split; [split; discriminate|intros v st' E; discriminate].
  - split; [exact N1|intros v st' E; discriminate].
Qed.

Lemma all2_nr {X} (f : X -> X -> vstate -> result (bool * vstate)) (FA FB : X -> list N) :
  forall la lb,
    (forall x y, In x la -> In y lb -> nrspec (FA x) (FB y) (f x y)) ->
    NoDup (flat_map FA la) -> NoDup (flat_map FB lb) ->
    nrspec (flat_map FA la) (flat_map FB lb) (all2 f la lb).
Proof.
  induction la as [|x la IH]; intros lb Hf NA NB; destruct lb as [|y lb];
    try (apply (nr_ret _ _ true)).
  cbn [flat_map] in *. destruct (NoDup_app_parts _ _ NA) as (_ & NA2 & DA).
  destruct (NoDup_app_parts _ _ NB) as (_ & NB2 & DB).
  change (all2 f (x :: la) (y :: lb))
    with (fun st => let* res := f x y st in if fst res then all2 f la lb (snd res) else Ok (false, snd res)).
  apply nr_then; [apply Hf; left; reflexivity| |exact DA|exact DB].
  apply IH; [|exact NA2|exact NB2]. intros x' y' Hx Hy. apply Hf; right; assumption.
Qed.

Lemma NoDup_flat_map_piece {X} (g : X -> list N) l x : NoDup (flat_map g l) -> In x l -> NoDup (g x).
Proof.
  induction l as [|y l IH]; intros H Hx; [destruct Hx|]. cbn [flat_map] in H.
  destruct (NoDup_app_parts _ _ H) as (N1 & N2 & _). destruct Hx as [->|Hx]; [exact N1|apply IH; assumption].
Qed.

Lemma flat_map_map {X Y Z} (g : Y -> list Z) (h : X -> Y) l :
  flat_map g (map h l) = flat_map (fun x => g (h x)) l.
Proof. induction l as [|x l IH]; cbn [map flat_map]; [reflexivity|]. rewrite IH. reflexivity. Qed.

Lemma flat_map_flat_map {X Y Z} (g : Y -> list Z) (h : X -> list Y) l :
  flat_map g (flat_map h l) = flat_map (fun x => flat_map g (h x)) l.
Proof.
  induction l as [|x l IH]; cbn [flat_map]; [reflexivity|]. rewrite flat_map_app, IH. reflexivity.
Qed.

Section Footprint.
  Variable G : N -> list N.
  Variable recp : N -> N -> vstate -> result (bool * vstate).

  Lemma fields_equal_nr fa fb :
    (forall x y, In x (map f_ty fa) -> In y (map f_ty fb) -> nrspec (G x) (G y) (recp x y)) ->
    NoDup (flat_map G (map f_ty fa)) -> NoDup (flat_map G (map f_ty fb)) ->
    nrspec (flat_map G (map f_ty fa)) (flat_map G (map f_ty fb)) (plain_fields_equal recp fa fb).
  Proof.
    intros Hrec NA NB. unfold plain_fields_equal.
    destruct (negb (Nat.eqb (List.length fa) (List.length fb))); [apply nr_ret|].
    rewrite !flat_map_map in *. apply all2_nr; [|exact NA|exact NB].
    intros x y Hx Hy. unfold plain_compare_fields.
    destruct (negb (opt_str_eqb (f_name x) (f_name y))); [apply nr_ret|].
    apply Hrec; apply in_map; assumption.
  Qed.

  Lemma plain_def_nr ta tb :
    (forall x y, In x (def_ids (t_def ta)) -> In y (def_ids (t_def tb)) -> nrspec (G x) (G y) (recp x y)) ->
    NoDup (flat_map G (def_ids (t_def ta))) -> NoDup (flat_map G (def_ids (t_def tb))) ->
    nrspec (flat_map G (def_ids (t_def ta))) (flat_map G (def_ids (t_def tb))) (plain_def recp ta tb).
  Proof.
    intros Hrec NA NB. unfold plain_def.
    destruct (t_def ta) as [fa|va|x|la x|xs|p|x|sa oa], (t_def tb) as [fb|vb|y|lb y|ys|q|y|sb ob];
      try apply nr_ret; cbn [def_ids] in *.
    - apply fields_equal_nr; assumption.
    - destruct (negb (Nat.eqb (List.length va) (List.length vb))); [apply nr_ret|].
      rewrite !flat_map_flat_map in *. apply all2_nr; [|exact NA|exact NB].
      intros v w Hv Hw. destruct (String.eqb (v_name v) (v_name w) && N.eqb (v_index v) (v_index w)); [|apply nr_ret].
      apply fields_equal_nr.
      + intros x y Hx Hy. apply Hrec; apply in_flat_map; [exists v|exists w]; auto.
      + exact (NoDup_flat_map_piece (fun v => flat_map G (map f_ty (v_fields v))) va v NA Hv).
      + exact (NoDup_flat_map_piece (fun v => flat_map G (map f_ty (v_fields v))) vb w NB Hw).
    - cbn [flat_map]. rewrite !app_nil_r. apply Hrec; left; reflexivity.
    - destruct (N.eqb la lb); [|apply nr_ret]. cbn [flat_map]. rewrite !app_nil_r. apply Hrec; left; reflexivity.
    - destruct (negb (Nat.eqb (List.length xs) (List.length ys))); [apply nr_ret|].
      apply all2_nr; assumption.
    - cbn [flat_map]. rewrite !app_nil_r. apply Hrec; left; reflexivity.
    - cbn [flat_map] in *. rewrite !app_nil_r in *.
      destruct (NoDup_app_parts _ _ NA) as (_ & _ & DA). destruct (NoDup_app_parts _ _ NB) as (_ & _ & DB).
      assert (Ho : nrspec (G oa) (G ob) (recp oa ob)) by (apply Hrec; right; left; reflexivity).
      assert (Hs : nrspec (G sa) (G sb) (recp sa sb)) by (apply Hrec; left; reflexivity).
      intros st D1 D2.
      destruct (Ho st) as [N1 I1].
      { intros x Hx Hy. apply (D1 x Hx). apply in_or_app; right; exact Hy. }
      { intros x Hx Hy. apply (D2 x Hx). apply in_or_app; right; exact Hy. }
      destruct (recp oa ob st) as [[v1 st1]|e|m] eqn:E1; cbn [bind fst snd].
      + destruct (I1 v1 st1 eq_refl) as [Ia Ib].
        destruct (Hs st1) as [N2 I2].
        { intros x Hx Hy. apply Ia in Hx. apply in_app_or in Hx as [Hx|Hx].
          - apply (D1 x Hx). apply in_or_app; left; exact Hy.
          - exact (DA x Hy Hx). }
        { intros x Hx Hy. apply Ib in Hx. apply in_app_or in Hx as [Hx|Hx].
          - apply (D2 x Hx). apply in_or_app; left; exact Hy.
          - exact (DB x Hy Hx). }
        destruct (recp sa sb st1) as [[v2 st2]|e|m] eqn:E2; cbn [bind fst snd].
        * split; [apply nm_ok|]. intros v st' E. inversion E; subst.
          destruct (I2 v2 st' eq_refl) as [Ja Jb]. split.
          -- intros x Hx. apply Ja in Hx. apply in_app_or in Hx as [Hx|Hx].
             ++ apply Ia in Hx. apply in_app_or in Hx as [Hx|Hx]; apply in_or_app; [left; exact Hx|].
                right. apply in_or_app; right; exact Hx.
             ++ apply in_or_app; right. apply in_or_app; left; exact Hx.
          -- intros x Hx. apply Jb in Hx. apply in_app_or in Hx as [Hx|Hx].
             ++ apply Ib in Hx. apply in_app_or in Hx as [Hx|Hx]; apply in_or_app; [left; exact Hx|].
                right. apply in_or_app; right; exact Hx.
             ++ apply in_or_app; right. apply in_or_app; left; exact Hx.
        * split; [split; discriminate|intros v st' E; discriminate].
        * split; [exact N2|intros v st' E; discriminate].
      + split; [split; discriminate|intros v st' E; discriminate].
      + split; [exact N1|intros v st' E; discriminate].
  Qed.
End Footprint.

Definition np_in (r : registry) (l : list N) : Prop :=
  forall x t, In x l -> resolve r x = Some t -> param_ids t = [].

Lemma teq_plain_nr r : forall f a b,
  NoDup (unfold_ids r f a) -> NoDup (unfold_ids r f b) ->
  np_in r (unfold_ids r f a) -> np_in r (unfold_ids r f b) ->
  nrspec (unfold_ids r f a) (unfold_ids r f b) (teq_plain r f a b).
Proof.
  induction f as [|f IH]; intros a b NA NB PA PB st D1 D2.
  - cbn [teq_plain]. split; [split; discriminate|intros v st' E; discriminate].
  - cbn [teq_plain]. destruct (N.eqb a b).
    { split; [apply nm_ok|]. intros v st' E. inversion E; subst. split; apply incl_appl, incl_refl. }
    cbn [unfold_ids] in *.
    assert (Ma : mem_N a (fst st) = false).
    { destruct (mem_N a (fst st)) eqn:M; [|reflexivity]. exfalso. apply CollectProofs.mem_N_In in M.
      apply (D1 a M). left; reflexivity. }
    assert (Mb : mem_N b (snd st) = false).
    { destruct (mem_N b (snd st)) eqn:M; [|reflexivity]. exfalso. apply CollectProofs.mem_N_In in M.
      apply (D2 b M). left; reflexivity. }
    rewrite Ma, Mb. cbn [orb].
    unfold teq_children in *.
    destruct (resolve r a) as [ta|] eqn:Ra; [|split; [split; discriminate|intros v st' E; discriminate]].
    destruct (resolve r b) as [tb|] eqn:Rb; [|split; [split; discriminate|intros v st' E; discriminate]].
    assert (Pa : param_ids ta = []) by (apply (PA a ta); [left; reflexivity|exact Ra]).
    assert (Pb : param_ids tb = []) by (apply (PB b tb); [left; reflexivity|exact Rb]).
    unfold no_params. rewrite Pa, Pb. cbn [andb negb].
    inversion NA as [|? ? HnA NA']; subst. inversion NB as [|? ? HnB NB']; subst.
    assert (Hst : forall st' : vstate,
               (incl (fst st') ((a :: fst st) ++ flat_map (unfold_ids r f) (def_ids (t_def ta))) /\
                incl (snd st') ((b :: snd st) ++ flat_map (unfold_ids r f) (def_ids (t_def tb)))) ->
               incl (fst st') (fst st ++ a :: flat_map (unfold_ids r f) (def_ids (t_def ta))) /\
               incl (snd st') (snd st ++ b :: flat_map (unfold_ids r f) (def_ids (t_def tb)))).
    { intros st' [I1 I2]. split.
      - intros x Hx. apply I1 in Hx. cbn [app] in Hx. apply in_or_app.
        destruct Hx as [<-|Hx]; [right; left; reflexivity|].
        apply in_app_or in Hx as [Hx|Hx]; [left; exact Hx|right; right; exact Hx].
      - intros x Hx. apply I2 in Hx. cbn [app] in Hx. apply in_or_app.
        destruct Hx as [<-|Hx]; [right; left; reflexivity|].
        apply in_app_or in Hx as [Hx|Hx]; [left; exact Hx|right; right; exact Hx]. }
    destruct (negb (path_eqb (t_path ta) (t_path tb))).
    { split; [apply nm_ok|]. intros v st' E. inversion E; subst.
      apply (Hst (a :: fst st, b :: snd st)). cbn [fst snd]. split; apply incl_appl, incl_refl. }
    assert (Hdef : nrspec (flat_map (unfold_ids r f) (def_ids (t_def ta)))
                          (flat_map (unfold_ids r f) (def_ids (t_def tb)))
                          (plain_def (teq_plain r f) ta tb)).
    { apply plain_def_nr; [|exact NA'|exact NB'].
      intros x y Hx Hy. apply IH.
      - exact (NoDup_flat_map_piece _ _ x NA' Hx).
      - exact (NoDup_flat_map_piece _ _ y NB' Hy).
      - intros z t Hz. apply PA. right. apply in_flat_map. exists x. auto.
      - intros z t Hz. apply PB. right. apply in_flat_map. exists y. auto. }
    destruct (Hdef (a :: fst st, b :: snd st)) as [N1 I1]; cbn [fst snd].
    { intros x [<-|Hx] Hy; [exact (HnA Hy)|]. apply (D1 x Hx). right; exact Hy. }
    { intros x [<-|Hx] Hy; [exact (HnB Hy)|]. apply (D2 x Hx). right; exact Hy. }
    split; [exact N1|]. intros v st' E. apply Hst. exact (I1 v st' E).
Qed.

Theorem plain_class_declarative r a b :
  closed r -> in_reg r a -> in_reg r b ->
  tree_like r a -> tree_like r b -> no_params_reachable r a -> no_params_reachable r b ->
  exists v, types_equal_plain r a b = Ok v /\ types_equal_res r a b = Ok v.
Proof.
  intros Hcl Ha Hb Ta Tb Pa Pb.
  destruct (teq_plain_nr r (plain_fuel r) a b Ta Tb Pa Pb ([], [])) as [Hnm _];
    [intros x []|intros x []|].
  pose proof (teq_plain_same r (plain_fuel r) a b ([], []) glist_empty glist_empty
                             glist_empty_np glist_empty_np Hnm) as Esame.
  destruct (types_equal_total r Hcl a b Ha Hb) as (v & Hv).
  unfold types_equal, types_equal_res in Hv. fold (plain_fuel r) in Hv. rewrite Esame in Hv.
  exists v. split.
  - unfold types_equal_plain. exact Hv.
  - unfold types_equal_res. fold (plain_fuel r). rewrite Esame. exact Hv.
Qed.

(** the soundness theorem with the class stated declaratively *)
Corollary types_equal_sound_declarative r a b :
  closed r -> in_reg r a -> in_reg r b ->
  tree_like r a -> tree_like r b -> no_params_reachable r a -> no_params_reachable r b ->
  types_equal_res r a b = Ok true ->
  forall s n, shape_core (shape_reg r s n a) = shape_core (shape_reg r s n b).
Proof.
  intros Hcl Ha Hb Ta Tb Pa Pb H.
  destruct (plain_class_declarative r a b Hcl Ha Hb Ta Tb Pa Pb) as (v & Hp & Hr).
  rewrite H in Hr. inversion Hr; subst v. apply types_equal_plain_sound; exact Hp.
Qed.

(** ** 3. non-vacuity and refutations (finite witnesses, by computation) *)
Example plain_example_in_class : types_equal_plain plain_example_reg 0 1 = Ok true.
Proof. vm_compute. reflexivity. Qed.

Example plain_example_false : types_equal_plain plain_example_reg 2 3 = Ok false.
Proof. vm_compute. reflexivity. Qed.

(** the declarative hypotheses hold on the example (two versions of a non-generic crate) *)
Example plain_example_declarative :
  closed plain_example_reg /\ in_reg plain_example_reg 0 /\ in_reg plain_example_reg 1 /\
  tree_like plain_example_reg 0 /\ tree_like plain_example_reg 1 /\
  no_params_reachable plain_example_reg 0 /\ no_params_reachable plain_example_reg 1.
Proof.
  assert (ND : forall l : list N, (fix nd (l : list N) : bool :=
                                     match l with [] => true | x :: l' => negb (mem_N x l') && nd l' end) l = true ->
                                  NoDup l).
  { induction l as [|x l IH]; intros H; [constructor|]. apply andb_prop in H as [H1 H2].
    constructor; [|apply IH; exact H2]. intros Hin. apply CollectProofs.mem_N_In in Hin.
    rewrite Hin in H1. discriminate. }
  split; [apply ResolveTotal.closed_reg_closed; vm_compute; reflexivity|].
  split; [vm_compute; reflexivity|]. split; [vm_compute; reflexivity|].
  split; [apply ND; vm_compute; reflexivity|]. split; [apply ND; vm_compute; reflexivity|].
  split.
  - intros x t Hx Hr. vm_compute in Hx.
    repeat (destruct Hx as [<-|Hx]; [vm_compute in Hr; inversion Hr; reflexivity|]). destruct Hx.
  - intros x t Hx Hr. vm_compute in Hx.
    repeat (destruct Hx as [<-|Hx]; [vm_compute in Hr; inversion Hr; reflexivity|]). destruct Hx.
Qed.

Theorem equal_sound_refuted_same_id :
  exists r s a b ta tb,
    resolve r a = Some ta /\ resolve r b = Some tb /\
    types_equal_res r a b = Ok true /\
    shape_reg r s 4 a = shape_reg r s 4 b /\
    skeleton r s ta <> skeleton r s tb.
Proof.
  exists f03_reg, plain_settings, 0%N, 8%N. eexists. eexists.
  split; [vm_compute; reflexivity|]. split; [vm_compute; reflexivity|].
  split; [vm_compute; reflexivity|]. split; [vm_compute; reflexivity|].
  vm_compute. discriminate.
Qed.

Theorem equal_sound_refuted_nested_generic :
  exists r s a b,
    types_equal_res r a b = Ok true /\
    shape_core (shape_reg r s 3 a) <> shape_core (shape_reg r s 3 b).
Proof.
  exists f14_reg, plain_settings, 0%N, 6%N. split; [vm_compute; reflexivity|]. vm_compute. discriminate.
Qed.

Theorem equal_sound_refuted_revisit :
  exists r s a b,
    (forall e, In e r -> param_ids (snd e) = []) /\
    types_equal_res r a b = Ok true /\
    shape_core (shape_reg r s 3 a) <> shape_core (shape_reg r s 3 b).
Proof.
  exists revisit_reg, plain_settings, 0%N, 1%N. split.
  - intros e He. cbn in He. repeat (destruct He as [<-|He]; [reflexivity|]). destruct He.
  - split; [vm_compute; reflexivity|]. vm_compute. discriminate.
Qed.

(** regression witness of finding F19 (variant indices were never compared; repaired) *)
Example variant_index_compared :
  types_equal_res index_reg 0 1 = Ok false /\ types_equal_plain index_reg 0 1 = Ok false /\
  shape_reg index_reg plain_settings 2 0 <> shape_reg index_reg plain_settings 2 1.
Proof. split; [vm_compute; reflexivity|]. split; [vm_compute; reflexivity|]. vm_compute. discriminate. Qed.

Theorem equal_sound_refuted_boxed :
  exists r s a b,
    types_equal_plain r a b = Ok true /\ types_equal_res r a b = Ok true /\
    shape_reg r s 2 a <> shape_reg r s 2 b.
Proof.
  exists boxed_reg, plain_settings, 0%N, 1%N.
  split; [vm_compute; reflexivity|]. split; [vm_compute; reflexivity|]. vm_compute. discriminate.
Qed.
