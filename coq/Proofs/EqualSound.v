(** C03 [equal_sound_partial]: on the class where [types_equal] is plain structural recursion
    it is sound for the registry shapes (modulo what it never looks at: Box flags and variant
    indices); refutations of the unrestricted statement. *)
From Coq Require Import String List Arith NArith Bool Lia.
From V Require Import Base.Strings Base.Result Model.Registry Model.Settings Model.Subst
  Model.TypePath Model.Derives Model.Generate Model.Equal Model.Shape Model.EqualPlain
  Proofs.GenProofs Proofs.FidelityBase Proofs.GenTotal.
Import ListNotations.
Open Scope string_scope. Open Scope list_scope.

(** ** 1. [teq_plain] agrees with [teq] wherever it answers *)
Definition glist_np (g : glist) : Prop := Forall (fun fr : frame => snd fr = []) g.

Lemma np_type_id g id : glist_np g -> index_for_type_id g id = None.
Proof.
  induction 1 as [|[st en] g He _ IH]; cbn [index_for_type_id]; [reflexivity|].
  cbn [snd] in He. subst en. cbn [position]. exact IH.
Qed.

Lemma no_params_ids t : no_params t = true -> param_ids t = [].
Proof. unfold no_params. destruct (param_ids t); [reflexivity|discriminate]. Qed.

Lemma no_params_entries t :
  param_ids t = [] ->
  flat_map (fun p => match tp_ty p with Some i => [(i, tp_name p)] | None => [] end) (t_params t) = [].
Proof.
  unfold param_ids. induction (t_params t) as [|p ps IH]; cbn [flat_map]; [reflexivity|].
  destruct (tp_ty p); cbn [app]; [discriminate|exact IH].
Qed.

Lemma np_extend g t : glist_np g -> param_ids t = [] -> glist_np (glist_extend g (t_params t)).
Proof.
  intros Hg Ht. unfold glist_extend. rewrite (no_params_entries t Ht). constructor; [reflexivity|exact Hg].
Qed.

Lemma all2_mono {A} (f g : A -> A -> vstate -> result (bool * vstate)) :
  (forall x y st z, f x y st = Ok z -> g x y st = Ok z) ->
  forall la lb st z, all2 f la lb st = Ok z -> all2 g la lb st = Ok z.
Proof.
  intros Hfg. induction la as [|x la IH]; intros lb st z H; destruct lb as [|y lb]; cbn [all2] in *; try exact H.
  apply bind_ok in H as (res & E & H). rewrite (Hfg _ _ _ _ E). cbn [bind].
  destruct (fst res); [apply IH; exact H|exact H].
Qed.

Section Agree.
  Variable r : registry.
  Variables (recp rect : N -> N -> vstate -> result (bool * vstate)).
  Hypothesis Hrec : forall x y st z, recp x y st = Ok z -> rect x y st = Ok z.
  Variables ap' bp' : glist.
  Hypothesis Hap : glist_np ap'.
  Hypothesis Hbp : glist_np bp'.

  Lemma compare_fields_agree fa fb st z :
    plain_compare_fields recp fa fb st = Ok z -> compare_fields_with rect ap' bp' fa fb st = Ok z.
  Proof.
    unfold plain_compare_fields, compare_fields_with. intros H.
    destruct (negb (opt_str_eqb (f_name fa) (f_name fb))); [exact H|].
    rewrite (np_type_id _ (f_ty fa) Hap).
    destruct (f_type_name fa), (f_type_name fb); apply Hrec; exact H.
  Qed.

  Lemma fields_equal_agree fa fb st z :
    plain_fields_equal recp fa fb st = Ok z -> fields_equal_with rect ap' bp' fa fb st = Ok z.
  Proof.
    unfold plain_fields_equal, fields_equal_with. intros H.
    destruct (negb (Nat.eqb (List.length fa) (List.length fb))); [exact H|].
    eapply all2_mono; [|exact H]. intros x y st0 z0. apply compare_fields_agree.
  Qed.

  Lemma plain_def_agree ta tb st z :
    plain_def recp ta tb st = Ok z -> teq_def rect ap' bp' ta tb st = Ok z.
  Proof.
    unfold plain_def, teq_def. intros H.
    destruct (t_def ta) as [fa|va|x|la x|xs|p|x|sa oa], (t_def tb) as [fb|vb|y|lb y|ys|q|y|sb ob];
      try exact H.
    - apply fields_equal_agree; exact H.
    - destruct (negb (Nat.eqb (List.length va) (List.length vb))); [exact H|].
      eapply all2_mono; [|exact H]. intros v w st0 z0 E. cbn beta in *.
      destruct (String.eqb (v_name v) (v_name w)); [apply fields_equal_agree; exact E|exact E].
    - apply Hrec; exact H.
    - destruct (N.eqb la lb); [apply Hrec; exact H|exact H].
    - destruct (negb (Nat.eqb (List.length xs) (List.length ys))); [exact H|].
      eapply all2_mono; [|exact H]. exact Hrec.
    - apply Hrec; exact H.
    - apply bind_ok in H as (o & Eo & H). apply bind_ok in H as (s' & Es & H).
      rewrite (Hrec _ _ _ _ Eo). cbn [bind]. rewrite (Hrec _ _ _ _ Es). cbn [bind]. exact H.
  Qed.
End Agree.

Theorem teq_plain_agrees r : forall fuel a b st z ap bp,
  glist_np ap -> glist_np bp -> teq_plain r fuel a b st = Ok z -> teq r fuel a ap b bp st = Ok z.
Proof.
  induction fuel as [|fuel IH]; intros a b st z ap bp Hap Hbp H; [discriminate|].
  rewrite teq_S. cbn [teq_plain] in H.
  destruct (N.eqb a b); [exact H|]. cbv zeta.
  destruct (mem_N a (fst st)), (mem_N b (snd st)); cbn [orb] in H; try discriminate.
  cbn [Bool.eqb negb andb].
  destruct (resolve r a) as [ta|]; [|discriminate]. destruct (resolve r b) as [tb|]; [|discriminate].
  destruct (no_params ta && no_params tb) eqn:NP; cbn [negb] in H; [|discriminate].
  apply andb_prop in NP as [Na Nb]. apply no_params_ids in Na. apply no_params_ids in Nb.
  rewrite (np_type_id ap a Hap), (np_type_id bp b Hbp). cbn [opt_nat_eqb].
  destruct (negb (path_eqb (t_path ta) (t_path tb))); [exact H|].
  rewrite Na, Nb. cbn [List.length Nat.eqb negb].
  eapply plain_def_agree; [|apply np_extend; assumption|exact H].
  intros x y st0 z0 E. apply IH; [apply np_extend; assumption|apply np_extend; assumption|exact E].
Qed.

Lemma glist_empty_np : glist_np glist_empty.
Proof. constructor; [reflexivity|constructor]. Qed.

Theorem types_equal_plain_agrees r a b v :
  types_equal_plain r a b = Ok v -> types_equal_res r a b = Ok v.
Proof.
  unfold types_equal_plain, types_equal_res. intros H. apply bind_ok in H as (x & E & H).
  rewrite (teq_plain_agrees r _ _ _ _ _ _ _ glist_empty_np glist_empty_np E). exact H.
Qed.

(** ** 2. soundness of the plain recursion for the registry shapes *)
Lemma opt_str_eqb_eq a b : opt_str_eqb a b = true -> a = b.
Proof.
  destruct a, b; cbn [opt_str_eqb]; intros H; try discriminate; [|reflexivity].
  apply String.eqb_eq in H. congruence.
Qed.

Lemma all2_true {A} (f : A -> A -> vstate -> result (bool * vstate)) :
  forall la lb st st', List.length la = List.length lb -> all2 f la lb st = Ok (true, st') ->
    Forall2 (fun x y => exists s1 s2, f x y s1 = Ok (true, s2)) la lb.
Proof.
  induction la as [|x la IH]; intros lb st st' Hl H; destruct lb as [|y lb]; cbn [List.length] in Hl; try lia.
  - constructor.
  - cbn [all2] in H. apply bind_ok in H as ([[|] s2] & E & H); cbn [fst snd] in H.
    + constructor; [exists st, s2; exact E|]. eapply IH; [lia|exact H].
    + discriminate.
Qed.

Lemma Forall2_imp {A B} (P Q : A -> B -> Prop) la lb :
  (forall x y, P x y -> Q x y) -> Forall2 P la lb -> Forall2 Q la lb.
Proof. intros H. induction 1; constructor; auto. Qed.

Lemma Forall2_map_eq {A B C} (g : A -> C) (h : B -> C) la lb :
  Forall2 (fun x y => g x = h y) la lb -> map g la = map h lb.
Proof. induction 1 as [|x y la lb E _ IH]; cbn [map]; [reflexivity|]. rewrite E, IH. reflexivity. Qed.

Lemma named_shape_core s p b1 b2 :
  shape_core b1 = shape_core b2 ->
  shape_core (named_shape s p [] b1) = shape_core (named_shape s p [] b2).
Proof.
  intros H. unfold named_shape. destruct (subs_get (s_subs s) p); [reflexivity|].
  destruct p as [|i [|j p]]; [reflexivity| |exact H].
  destruct (assoc_str _ i); reflexivity.
Qed.

Lemma shape_reg_S r s n id :
  shape_reg r s (S n) id =
  match entry_body r id with
  | None => SCut
  | Some t =>
      let fld (f : field) : fshape := (f_name f, is_boxed f, shape_reg r s n (f_ty f)) in
      match t_def t with
      | TDComposite fs =>
          named_shape s (t_path t) (map (shape_reg r s n) (param_ids t)) (SStruct (map fld fs))
      | TDVariant vs =>
          named_shape s (t_path t) (map (shape_reg r s n) (param_ids t))
            (SEnum (map (fun v => (v_name v, v_index v, map fld (v_fields v))) vs))
      | TDSequence e => SSeq (shape_reg r s n e)
      | TDArray len e => SArr len (shape_reg r s n e)
      | TDTuple es => STuple (map (shape_reg r s n) es)
      | TDPrimitive p => SPrim p
      | TDCompact e => SCompact (shape_reg r s n e)
      | TDBitSeq store order => SBits (shape_reg r s n store) (shape_reg r s n order)
      end
  end.
Proof. reflexivity. Qed.

Lemma entry_body_no_params r id t :
  resolve r id = Some t -> param_ids t = [] ->
  entry_body r id = if is_cow (t_path t) then None else Some t.
Proof.
  intros Hr Hp. unfold entry_body. rewrite Hr, cow_case_if.
  destruct (is_cow (t_path t)); [|reflexivity].
  unfold param_ids in Hp. destruct (t_params t) as [|p0 ps]; [reflexivity|].
  cbn [flat_map] in Hp. destruct (tp_ty p0); [discriminate|reflexivity].
Qed.

Section Sound.
  Variable r : registry.
  Variable s : settings.
  Variable n : nat.
  Variable recp : N -> N -> vstate -> result (bool * vstate).
  (** the recursive calls are sound at depth [n] *)
  Hypothesis Hrec : forall x y st st', recp x y st = Ok (true, st') ->
                                        shape_core (shape_reg r s n x) = shape_core (shape_reg r s n y).

  Definition fcore (f : field) : fshape := (f_name f, false, shape_core (shape_reg r s n (f_ty f))).

  Lemma fields_core fs :
    map (fun f : fshape => let '(m, _, y) := f in (m, false, shape_core y))
        (map (fun f : field => (f_name f, is_boxed f, shape_reg r s n (f_ty f))) fs) = map fcore fs.
  Proof. rewrite map_map. reflexivity. Qed.

  Lemma fields_equal_sound fa fb st st' :
    plain_fields_equal recp fa fb st = Ok (true, st') -> map fcore fa = map fcore fb.
  Proof.
    unfold plain_fields_equal. intros H.
    destruct (Nat.eqb (List.length fa) (List.length fb)) eqn:El; cbn [negb] in H; [|discriminate].
    apply Nat.eqb_eq in El. apply all2_true in H; [|exact El].
    apply Forall2_map_eq. eapply Forall2_imp; [|exact H].
    intros x y (s1 & s2 & E). unfold plain_compare_fields in E.
    destruct (opt_str_eqb (f_name x) (f_name y)) eqn:En; cbn [negb] in E; [|discriminate].
    apply opt_str_eqb_eq in En. unfold fcore. rewrite En, (Hrec _ _ _ _ E). reflexivity.
  Qed.

  Lemma plain_def_sound ta tb st st' :
    t_path ta = t_path tb -> param_ids ta = [] -> param_ids tb = [] ->
    plain_def recp ta tb st = Ok (true, st') ->
    let body (t : ty) :=
      let fld (f : field) : fshape := (f_name f, is_boxed f, shape_reg r s n (f_ty f)) in
      match t_def t with
      | TDComposite fs =>
          named_shape s (t_path t) (map (shape_reg r s n) (param_ids t)) (SStruct (map fld fs))
      | TDVariant vs =>
          named_shape s (t_path t) (map (shape_reg r s n) (param_ids t))
            (SEnum (map (fun v => (v_name v, v_index v, map fld (v_fields v))) vs))
      | TDSequence e => SSeq (shape_reg r s n e)
      | TDArray len e => SArr len (shape_reg r s n e)
      | TDTuple es => STuple (map (shape_reg r s n) es)
      | TDPrimitive p => SPrim p
      | TDCompact e => SCompact (shape_reg r s n e)
      | TDBitSeq store order => SBits (shape_reg r s n store) (shape_reg r s n order)
      end in
    shape_core (body ta) = shape_core (body tb).
  Proof.
    intros Ep Pa Pb H. cbv beta zeta. rewrite Pa, Pb, <- Ep. cbn [map]. unfold plain_def in H.
    destruct (t_def ta) as [fa|va|x|la x|xs|p|x|sa oa], (t_def tb) as [fb|vb|y|lb y|ys|q|y|sb ob];
      try discriminate.
    - apply named_shape_core. cbn [shape_core]. rewrite !fields_core.
      f_equal. eapply fields_equal_sound; exact H.
    - apply named_shape_core. cbn [shape_core]. f_equal. rewrite !map_map.
      destruct (Nat.eqb (List.length va) (List.length vb)) eqn:El; cbn [negb] in H; [|discriminate].
      apply Nat.eqb_eq in El. apply all2_true in H; [|exact El].
      apply Forall2_map_eq. eapply Forall2_imp; [|exact H].
      intros v w (s1 & s2 & E). cbn beta in E.
      destruct (String.eqb (v_name v) (v_name w)) eqn:En; [|discriminate].
      apply String.eqb_eq in En. rewrite En, !fields_core. f_equal.
      eapply fields_equal_sound; exact E.
    - cbn [shape_core]. f_equal. eapply Hrec; exact H.
    - destruct (N.eqb la lb) eqn:El; [|discriminate]. apply N.eqb_eq in El. subst lb.
      cbn [shape_core]. f_equal. eapply Hrec; exact H.
    - destruct (Nat.eqb (List.length xs) (List.length ys)) eqn:El; cbn [negb] in H; [|discriminate].
      apply Nat.eqb_eq in El. apply all2_true in H; [|exact El].
      cbn [shape_core]. f_equal. rewrite !map_map. apply Forall2_map_eq.
      eapply Forall2_imp; [|exact H]. intros x y (s1 & s2 & E). eapply Hrec; exact E.
    - assert (E : prim_eqb p q = true) by congruence. apply prim_eqb_eq in E. subst q. reflexivity.
    - cbn [shape_core]. f_equal. eapply Hrec; exact H.
    - apply bind_ok in H as ([o1 so] & Eo & H). apply bind_ok in H as ([o2 ss] & Es & H).
      cbn [fst snd] in *. assert (Eb : o1 && o2 = true) by congruence. apply andb_prop in Eb as [-> ->].
      cbn [shape_core]. f_equal; eapply Hrec; eassumption.
  Qed.
End Sound.

Theorem teq_plain_sound r s : forall fuel a b st st',
  teq_plain r fuel a b st = Ok (true, st') ->
  forall n, shape_core (shape_reg r s n a) = shape_core (shape_reg r s n b).
Proof.
  induction fuel as [|fuel IH]; intros a b st st' H n; [discriminate|].
  cbn [teq_plain] in H.
  destruct (N.eqb_spec a b) as [->|Hne]; [reflexivity|].
  destruct (mem_N a (fst st) || mem_N b (snd st)); [discriminate|].
  destruct (resolve r a) as [ta|] eqn:Ra; [|discriminate].
  destruct (resolve r b) as [tb|] eqn:Rb; [|discriminate].
  destruct (no_params ta && no_params tb) eqn:NP; cbn [negb] in H; [|discriminate].
  apply andb_prop in NP as [Na Nb]. apply no_params_ids in Na. apply no_params_ids in Nb.
  destruct (path_eqb (t_path ta) (t_path tb)) eqn:Ep; cbn [negb] in H; [|discriminate].
  apply path_eqb_eq in Ep.
  destruct n as [|n]; [reflexivity|].
  rewrite !shape_reg_S, (entry_body_no_params r a ta Ra Na), (entry_body_no_params r b tb Rb Nb), <- Ep.
  destruct (is_cow (t_path ta)); [reflexivity|].
  eapply (plain_def_sound r s n (teq_plain r fuel)); [|exact Ep|exact Na|exact Nb|exact H].
  intros x y s1 s2 E. eapply IH; exact E.
Qed.

Theorem types_equal_plain_sound r a b :
  types_equal_plain r a b = Ok true ->
  forall s n, shape_core (shape_reg r s n a) = shape_core (shape_reg r s n b).
Proof.
  unfold types_equal_plain. intros H s n. apply bind_ok in H as ([v st'] & E & H).
  inversion H; subst v. eapply teq_plain_sound; exact E.
Qed.

(** the same with the class as hypotheses on [types_equal] itself *)
Corollary types_equal_sound_partial r a b :
  (exists v, types_equal_plain r a b = Ok v) -> types_equal_res r a b = Ok true ->
  forall s n, shape_core (shape_reg r s n a) = shape_core (shape_reg r s n b).
Proof.
  intros (v & Hv) H. pose proof (types_equal_plain_agrees _ _ _ _ Hv) as Ha.
  rewrite H in Ha. inversion Ha; subst v. apply types_equal_plain_sound; exact Hv.
Qed.

(** ** 3. non-vacuity and refutations (finite witnesses, by computation) *)
Example plain_example_in_class : types_equal_plain plain_example_reg 0 1 = Ok true.
Proof. vm_compute. reflexivity. Qed.

Example plain_example_false : types_equal_plain plain_example_reg 2 3 = Ok false.
Proof. vm_compute. reflexivity. Qed.

Theorem equal_sound_refuted_same_id :
  exists r s a b ta tb,
    resolve r a = Some ta /\ resolve r b = Some tb /\
    types_equal_res r a b = Ok true /\
    shape_reg r s 4 a = shape_reg r s 4 b /\
    skeleton r s ta <> skeleton r s tb.
Proof.
  exists f03_reg, plain_settings, 0%N, 8%N. eexists. eexists.
  split; [vm_compute; reflexivity|]. split; [vm_compute; reflexivity|].
  split; [vm_compute; reflexivity|]. split; [vm_compute; reflexivity|].
  vm_compute. discriminate.
Qed.

Theorem equal_sound_refuted_nested_generic :
  exists r s a b,
    types_equal_res r a b = Ok true /\
    shape_core (shape_reg r s 3 a) <> shape_core (shape_reg r s 3 b).
Proof.
  exists f14_reg, plain_settings, 0%N, 6%N. split; [vm_compute; reflexivity|]. vm_compute. discriminate.
Qed.

Theorem equal_sound_refuted_revisit :
  exists r s a b,
    (forall e, In e r -> param_ids (snd e) = []) /\
    types_equal_res r a b = Ok true /\
    shape_core (shape_reg r s 3 a) <> shape_core (shape_reg r s 3 b).
Proof.
  exists revisit_reg, plain_settings, 0%N, 1%N. split.
  - intros e He. cbn in He. repeat (destruct He as [<-|He]; [reflexivity|]). destruct He.
  - split; [vm_compute; reflexivity|]. vm_compute. discriminate.
Qed.

Theorem equal_sound_refuted_variant_index :
  exists r s a b,
    types_equal_plain r a b = Ok true /\ types_equal_res r a b = Ok true /\
    shape_reg r s 2 a <> shape_reg r s 2 b.
Proof.
  exists index_reg, plain_settings, 0%N, 1%N.
  split; [vm_compute; reflexivity|]. split; [vm_compute; reflexivity|]. vm_compute. discriminate.
Qed.

Theorem equal_sound_refuted_boxed :
  exists r s a b,
    types_equal_plain r a b = Ok true /\ types_equal_res r a b = Ok true /\
    shape_reg r s 2 a <> shape_reg r s 2 b.
Proof.
  exists boxed_reg, plain_settings, 0%N, 1%N.
  split; [vm_compute; reflexivity|]. split; [vm_compute; reflexivity|]. vm_compute. discriminate.
Qed.
