(** C07: (A1) no resolved path node rooted at the types module spells a substituted path;
    (A2) the structural parameter replacement of a substitute target ([replace_spath]) equals
    the independent token-level specification [subst_spec] under the decidable side
    conditions of [spec_applicable] (Model/SubstSpec.v); what a [Specified] rule returns. *)
From Coq Require Import List NArith String Bool Lia Arith.
From V Require Import Base.Strings Base.Result Model.Registry Model.Settings Model.Subst
  Model.TypePath Model.Derives Model.Generate Model.Emit Model.Equal Model.WellFormed Model.SubstSpec
  Proofs.GenProofs Proofs.ResolveTotal Proofs.ClosedProofs Proofs.SubstMap.
From V Require Proofs.FidelityBase.
Import ListNotations.
Open Scope string_scope. Open Scope list_scope.

(** * A1: substituted paths are never referenced *)

Theorem never_referenced_resolved r s :
  root_fresh s ->
  forall fuel id is_field parents orig t,
  resolve_rec r s fuel id is_field parents orig = Ok t ->
  forall ptoks params, In (TPath ptoks params) (subpaths t) ->
  hd_error ptoks = Some (s_root s) ->
  (exists p, ptoks = rel_path (s_root s :: p)) /\
  (forall p, ptoks = rel_path (s_root s :: p) -> subs_get (s_subs s) p = None).
Proof.
  intros Hf fuel id isf parents orig t H ptoks params Hin Hh.
  destruct (resolve_rec_nodes r s Hf _ _ _ _ _ _ H ptoks params Hin Hh)
    as (p & Hp & _ & _ & _ & _ & _ & Hsub & _).
  split; [exists p; exact Hp|].
  intros p' Hp'. rewrite Hp in Hp'. apply FidelityBase.rel_path_root_inj in Hp'. subst p'. exact Hsub.
Qed.

Theorem never_referenced_items r s teq m :
  root_fresh s -> generate r s teq = Ok m ->
  forall p0 id ir, items_get m p0 = Some (id, ir) ->
  forall f, In f (kind_fields (ti_kind ir)) ->
  forall ptoks params, In (TPath ptoks params) (subpaths (fi_path f)) ->
  hd_error ptoks = Some (s_root s) ->
  (exists p, ptoks = rel_path (s_root s :: p)) /\
  (forall p, ptoks = rel_path (s_root s :: p) -> subs_get (s_subs s) p = None).
Proof.
  intros Hf Hg p0 id ir Hm f Hfi ptoks params Hin Hh.
  destruct (generate_items_come_from_entries _ _ _ _ _ _ _ Hg Hm) as (t & flat & _ & _ & _ & _ & Hc).
  destruct (create_type_ir_nodes r s Hf _ _ _ Hc f Hfi ptoks params Hin Hh)
    as (p & Hp & _ & _ & _ & _ & _ & Hsub & _).
  split; [exists p; exact Hp|].
  intros p' Hp'. rewrite Hp in Hp'. apply FidelityBase.rel_path_root_inj in Hp'. subst p'. exact Hsub.
Qed.

(** * A2: structural replacement = token-level specification *)

Lemma last_cons {A} : forall (l : list A) a d, last (a :: l) d = last l a.
Proof.
  induction l as [|b l IH]; intros a d; [reflexivity|].
  change (last (a :: b :: l) d) with (last (b :: l) d). rewrite (IH b d), (IH b a). reflexivity.
Qed.

Lemma last_app_d {A} : forall (x y : list A) d, last (x ++ y) d = last y (last x d).
Proof.
  induction x as [|a x IH]; intros y d; [reflexivity|].
  rewrite <- app_comm_cons, !last_cons. apply IH.
Qed.

Lemma get_ident_some q lead segs id :
  get_ident (GTPath q lead segs) = Some id ->
  q = false /\ lead = false /\ exists a, segs = [(id, a)] /\ pargs_is_empty a = true.
Proof.
  unfold get_ident. destruct q; [discriminate|]. destruct lead; [discriminate|].
  destruct segs as [|[i a] [|x l]]; try discriminate.
  destruct (pargs_is_empty a) eqn:E; [|discriminate]. intros H. inversion H; subst. eauto.
Qed.

Lemma assoc_none_fst {A} (l : list (string * A)) k :
  assoc_str l k = None <-> existsb (String.eqb k) (map fst l) = false.
Proof.
  induction l as [|[k' v] l IH]; [split; reflexivity|].
  cbn [assoc_str map fst existsb]. destruct (String.eqb k k'); [split; discriminate|exact IH].
Qed.

Section Spec.
  Variable repl : list (string * tokens).
  Let names : list string := map fst repl.
  Hypothesis Hpunct : names_not_punct names = true.

  Definition in_names (k : string) : bool := existsb (String.eqb k) names.

  Lemma assoc_none_names k : assoc_str repl k = None <-> in_names k = false.
  Proof. apply assoc_none_fst. Qed.

  Lemma in_names_assoc k : in_names k = true -> exists v, assoc_str repl k = Some v.
  Proof.
    intros H. destruct (assoc_str repl k) as [v|] eqn:E; [eauto|].
    apply assoc_none_names in E. congruence.
  Qed.

  Lemma punct_not_name k : In k print_puncts -> assoc_str repl k = None.
  Proof.
    intros Hk. apply assoc_none_names. unfold in_names.
    destruct (existsb (String.eqb k) names) eqn:E; [|reflexivity].
    apply existsb_exists in E as (n & Hn & E). apply String.eqb_eq in E. subst n.
    unfold names_not_punct in Hpunct. rewrite forallb_forall in Hpunct.
    specialize (Hpunct k Hn). apply negb_true_iff in Hpunct.
    assert (E : existsb (String.eqb k) print_puncts = true).
    { apply existsb_exists. exists k. split; [exact Hk|apply String.eqb_refl]. }
    congruence.
  Qed.

  Lemma colon_none : assoc_str repl ":" = None.
  Proof. apply punct_not_name. cbn. auto. Qed.
  Lemma lt_none : assoc_str repl "<" = None.
  Proof. apply punct_not_name. cbn. auto. Qed.
  Lemma gt_none : assoc_str repl ">" = None.
  Proof. apply punct_not_name. cbn. auto. Qed.
  Lemma comma_none : assoc_str repl "," = None.
  Proof. apply punct_not_name. cbn. auto. Qed.

  (** one step of the specification *)
  Lemma spec_cons_none prev t r :
    assoc_str repl t = None -> subst_spec repl prev (t :: r) = t :: subst_spec repl t r.
  Proof. intros H. cbn [subst_spec]. rewrite H. reflexivity. Qed.

  Lemma spec_cons_guard prev t r :
    prev = ":" \/ hd "" r = "<" \/ hd "" r = ":" ->
    subst_spec repl prev (t :: r) = t :: subst_spec repl t r.
  Proof.
    intros H. cbn [subst_spec]. destruct (assoc_str repl t) as [v|]; [|reflexivity].
    assert (E : String.eqb prev ":" || String.eqb (hd "" r) "<" || String.eqb (hd "" r) ":" = true).
    { destruct H as [->|[->| ->]]; rewrite String.eqb_refl; rewrite ?orb_true_r; reflexivity. }
    rewrite E. reflexivity.
  Qed.

  Definition next_ok (rest : tokens) : Prop := hd "" rest <> "<" /\ hd "" rest <> ":".

  Lemma spec_cons_repl prev t r v :
    assoc_str repl t = Some v -> prev <> ":" -> next_ok r ->
    subst_spec repl prev (t :: r) = v ++ subst_spec repl t r.
  Proof.
    intros H Hp [Hn1 Hn2]. cbn [subst_spec]. rewrite H.
    apply String.eqb_neq in Hp, Hn1, Hn2. rewrite Hp, Hn1, Hn2. reflexivity.
  Qed.

  Lemma spec_colon2 prev r :
    subst_spec repl prev (colon2 ++ r) = colon2 ++ subst_spec repl ":" r.
  Proof.
    unfold colon2. cbn [app]. rewrite !(spec_cons_none _ ":") by exact colon_none. reflexivity.
  Qed.

  (** opaque token lists that mention no name are copied *)
  Lemma mentions_false toks :
    mentions names toks = false -> forall t, In t toks -> assoc_str repl t = None.
  Proof.
    unfold mentions. intros H t Ht. apply assoc_none_names. unfold in_names.
    destruct (existsb (String.eqb t) names) eqn:E; [|reflexivity].
    apply existsb_exists in E as (n & Hn & E). apply String.eqb_eq in E. subst n.
    assert (E : existsb (fun n => existsb (String.eqb n) toks) names = true).
    { apply existsb_exists. exists t. split; [exact Hn|].
      apply existsb_exists. exists t. split; [exact Ht|apply String.eqb_refl]. }
    congruence.
  Qed.

  Lemma spec_copy : forall toks,
    (forall t, In t toks -> assoc_str repl t = None) ->
    forall prev rest,
    subst_spec repl prev (toks ++ rest) = toks ++ subst_spec repl (last toks prev) rest.
  Proof.
    induction toks as [|t toks IH]; intros H prev rest; [reflexivity|].
    rewrite <- app_comm_cons, spec_cons_none by (apply H; left; reflexivity).
    rewrite IH by (intros x Hx; apply H; right; exact Hx). rewrite last_cons. reflexivity.
  Qed.

  Lemma spec_nomention toks prev rest :
    mentions names toks = false ->
    subst_spec repl prev (toks ++ rest) = toks ++ subst_spec repl (last toks prev) rest.
  Proof. intros H. apply spec_copy. apply mentions_false. exact H. Qed.

  (** ** the side conditions, one level at a time *)
  Definition np_garg (g : garg) : bool :=
    match g with GType u => nonpath_mentions names u | GOther toks => mentions names toks end.
  Definition np_pargs (a : pargs) : bool :=
    match a with AAngle args => existsb np_garg args | _ => false end.

  Lemma np_path q l segs :
    nonpath_mentions names (GTPath q l segs) = existsb (fun x => np_pargs (snd x)) segs.
  Proof.
    cbn [nonpath_mentions]. induction segs as [|[id a] segs IH]; [reflexivity|].
    cbn [existsb snd]. rewrite <- IH. f_equal. destruct a as [|args|toks]; try reflexivity.
    cbn [np_pargs]. induction args as [|g args IHa]; [reflexivity|].
    destruct g as [u|toks]; cbn [existsb np_garg]; rewrite <- IHa; reflexivity.
  Qed.

  Definition pm_garg (g : garg) : bool :=
    match g with GType u => paren_mentions names u | GOther _ => false end.
  Definition pm_pargs (a : pargs) : bool :=
    match a with AAngle args => existsb pm_garg args | AParen toks => mentions names toks | ANone => false end.

  Lemma pm_path q l segs :
    paren_mentions names (GTPath q l segs) = existsb (fun x => pm_pargs (snd x)) segs.
  Proof.
    cbn [paren_mentions]. induction segs as [|[id a] segs IH]; [reflexivity|].
    cbn [existsb snd]. rewrite <- IH. f_equal. destruct a as [|args|toks]; try reflexivity.
    cbn [pm_pargs]. induction args as [|g args IHa]; [reflexivity|].
    destruct g as [u|toks]; cbn [existsb pm_garg]; rewrite <- IHa; reflexivity.
  Qed.

  Definition ho_garg (g : garg) : bool :=
    match g with GType u => heads_ok names true u | GOther _ => true end.
  Definition ho_pargs (a : pargs) : bool :=
    match a with AAngle args => forallb ho_garg args | _ => true end.

  Lemma ho_path in_arg q l segs :
    heads_ok names in_arg (GTPath q l segs) =
    head_ok names in_arg (GTPath q l segs) && forallb (fun x => ho_pargs (snd x)) segs.
  Proof.
    cbn [heads_ok]. f_equal. induction segs as [|[id a] segs IH]; [reflexivity|].
    cbn [forallb snd]. rewrite <- IH. f_equal. destruct a as [|args|toks]; try reflexivity.
    cbn [ho_pargs]. induction args as [|g args IHa]; [reflexivity|].
    destruct g as [u|toks]; cbn [forallb ho_garg]; rewrite <- IHa; reflexivity.
  Qed.

  (** ** the statements proved by mutual induction *)
  Definition Qp (a : pargs) : Prop :=
    np_pargs a = false -> pm_pargs a = false -> ho_pargs a = true ->
    forall prev rest,
    subst_spec repl prev (print_pargs a ++ rest) =
    print_pargs (replace_pargs repl a) ++ subst_spec repl (last (print_pargs a) prev) rest.

  Definition Rp (g : garg) : Prop :=
    np_garg g = false -> pm_garg g = false -> ho_garg g = true ->
    forall prev rest, prev <> ":" -> next_ok rest ->
    subst_spec repl prev (print_garg g ++ rest) =
    print_garg (replace_garg repl g) ++ subst_spec repl (last (print_garg g) prev) rest.

  Definition Pp (t : gtype) : Prop :=
    forall in_arg,
    nonpath_mentions names t = false -> paren_mentions names t = false ->
    heads_ok names in_arg t = true ->
    forall prev rest, prev <> ":" -> next_ok rest ->
    subst_spec repl prev (print_gtype t ++ rest) =
    print_garg (if in_arg then replace_garg repl (GType t) else GType (replace_gtype_segs repl t))
      ++ subst_spec repl (last (print_gtype t) prev) rest.

  Definition head_guard (segs : list (string * pargs)) : Prop :=
    match segs with
    | [] => True
    | (id, a) :: more =>
        in_names id = false \/ guarded a (match more with [] => false | _ => true end) = true
    end.

  Lemma guarded_next a (l : list (string * pargs)) rest :
    guarded a (match l with [] => false | _ => true end) = true ->
    hd "" (print_pargs a ++ print_segs l false ++ rest) = "<" \/
    hd "" (print_pargs a ++ print_segs l false ++ rest) = ":".
  Proof.
    assert (Hmore : (match l with [] => false | _ => true end) = true ->
                    hd "" (print_segs l false ++ rest) = ":").
    { destruct l as [|[i b] l']; [discriminate|]. intros _. reflexivity. }
    destruct a as [|args|[|t toks]]; cbn [guarded print_pargs app]; intros H.
    - right. apply Hmore. exact H.
    - left. reflexivity.
    - right. apply Hmore. exact H.
    - cbn [hd]. apply orb_prop in H as [H|H]; apply String.eqb_eq in H; auto.
  Qed.

  Lemma spec_segs : forall segs,
    Forall (fun x => Qp (snd x)) segs ->
    existsb (fun x => np_pargs (snd x)) segs = false ->
    existsb (fun x => pm_pargs (snd x)) segs = false ->
    forallb (fun x => ho_pargs (snd x)) segs = true ->
    forall first prev rest,
    (first = true -> prev = ":" \/ head_guard segs) ->
    subst_spec repl prev (print_segs segs first ++ rest) =
    print_segs (rsegs repl segs) first ++ subst_spec repl (last (print_segs segs first) prev) rest.
  Proof.
    induction 1 as [|[id a] l Hx Hl IH]; intros Hnp Hpm Hho first prev rest Hg.
    - destruct first; reflexivity.
    - cbn [existsb forallb snd] in Hnp, Hpm, Hho.
      apply orb_false_elim in Hnp as [Hnp1 Hnp2]. apply orb_false_elim in Hpm as [Hpm1 Hpm2].
      apply andb_prop in Hho as [Hho1 Hho2]. cbn [snd] in Hx.
      cbn [rsegs map fst snd print_segs]. fold (rsegs repl l).
      assert (Hstep : forall prev', (prev' = ":" \/ head_guard ((id, a) :: l)) ->
                subst_spec repl prev' (id :: print_pargs a ++ print_segs l false ++ rest) =
                id :: print_pargs (replace_pargs repl a) ++ print_segs (rsegs repl l) false ++
                subst_spec repl (last (print_segs l false) (last (print_pargs a) id)) rest).
      { intros prev' Hg'.
        assert (E : subst_spec repl prev' (id :: print_pargs a ++ print_segs l false ++ rest) =
                    id :: subst_spec repl id (print_pargs a ++ print_segs l false ++ rest)).
        { destruct Hg' as [->|[Hn|Hgd]].
          - apply spec_cons_guard. left; reflexivity.
          - apply spec_cons_none. apply assoc_none_names. exact Hn.
          - apply spec_cons_guard. right. apply guarded_next. exact Hgd. }
        rewrite E. f_equal. rewrite (Hx Hnp1 Hpm1 Hho1). f_equal.
        apply (IH Hnp2 Hpm2 Hho2 false). discriminate. }
      destruct first.
      + cbn [app]. rewrite <- ?app_comm_cons, <- ?app_assoc.
        rewrite Hstep by (apply Hg; reflexivity).
        rewrite !last_cons, !last_app_d. reflexivity.
      + rewrite <- ?app_assoc. rewrite spec_colon2. f_equal.
        rewrite <- ?app_comm_cons, <- ?app_assoc. rewrite Hstep by (left; reflexivity).
        rewrite last_app_d, !last_cons, !last_app_d. reflexivity.
  Qed.

  Lemma spec_gargs : forall args,
    Forall Rp args ->
    existsb np_garg args = false -> existsb pm_garg args = false -> forallb ho_garg args = true ->
    forall first prev rest,
    (first = true -> prev <> ":") -> next_ok rest ->
    subst_spec repl prev (print_gargs args first ++ rest) =
    print_gargs (map (replace_garg repl) args) first ++
    subst_spec repl (last (print_gargs args first) prev) rest.
  Proof.
    induction 1 as [|g l Hx Hl IH]; intros Hnp Hpm Hho first prev rest Hp Hn.
    - destruct first; reflexivity.
    - cbn [existsb forallb] in Hnp, Hpm, Hho.
      apply orb_false_elim in Hnp as [Hnp1 Hnp2]. apply orb_false_elim in Hpm as [Hpm1 Hpm2].
      apply andb_prop in Hho as [Hho1 Hho2].
      cbn [map print_gargs].
      assert (Hnext : next_ok (print_gargs l false ++ rest)).
      { destruct l as [|g' l']; [exact Hn|]. cbn [print_gargs app hd]. split; discriminate. }
      assert (Hstep : forall prev', prev' <> ":" ->
                subst_spec repl prev' (print_garg g ++ print_gargs l false ++ rest) =
                print_garg (replace_garg repl g) ++ print_gargs (map (replace_garg repl) l) false ++
                subst_spec repl (last (print_gargs l false) (last (print_garg g) prev')) rest).
      { intros prev' Hp'. rewrite (Hx Hnp1 Hpm1 Hho1 prev' _ Hp' Hnext). f_equal.
        apply (IH Hnp2 Hpm2 Hho2 false); [discriminate|exact Hn]. }
      destruct first.
      + cbn [app]. rewrite <- !app_assoc, Hstep by (apply Hp; reflexivity).
        rewrite !last_app_d. reflexivity.
      + rewrite <- !app_assoc. cbn [app]. rewrite spec_cons_none by exact comma_none. f_equal.
        rewrite Hstep by discriminate. rewrite last_cons, !last_app_d. reflexivity.
  Qed.

  Lemma spec_all : (forall t, Pp t) /\ (forall a, Qp a) /\ (forall g, Rp g).
  Proof.
    apply sm_g_ind.
    - (* GTPath *)
      intros q lead segs HF in_arg Hnp Hpm Hho prev rest Hprev Hnext.
      rewrite np_path in Hnp. rewrite pm_path in Hpm. rewrite ho_path in Hho.
      apply andb_prop in Hho as [Hhead Hho].
      (* the generic case: the path is kept and its arguments are descended into *)
      assert (Hgen : (lead = true \/ head_guard segs) ->
                subst_spec repl prev (print_gtype (GTPath q lead segs) ++ rest) =
                print_garg (GType (replace_gtype_segs repl (GTPath q lead segs))) ++
                subst_spec repl (last (print_gtype (GTPath q lead segs)) prev) rest).
      { intros Hg. rewrite replace_gtype_path. cbn [print_garg]. rewrite !print_gtype_path.
        rewrite <- !app_assoc. destruct lead.
        - rewrite spec_colon2. f_equal. rewrite last_app_d.
          rewrite (spec_segs segs HF Hnp Hpm Hho true ":" rest) by (intros _; left; reflexivity).
          unfold colon2. cbn [last]. reflexivity.
        - cbn [app]. apply (spec_segs segs HF Hnp Hpm Hho true prev rest).
          intros _. right. destruct Hg as [Hg|Hg]; [discriminate|exact Hg]. }
      assert (Hguard_of_head : forall (b : bool),
                lead = false ->
                match segs with
                | [] => true
                | (id, a) :: rest0 =>
                    negb (existsb (String.eqb id) names) ||
                    (if b then match a with ANone => true | _ => false end
                     else guarded a (match rest0 with [] => false | _ => true end))
                end = true -> b = false -> head_guard segs).
      { intros b _ H ->. destruct segs as [|[id a] more]; [exact I|]. cbn [head_guard].
        apply orb_prop in H as [H|H]; [left|right; exact H].
        apply negb_true_iff in H. exact H. }
      destruct in_arg.
      + rewrite replace_garg_path.
        destruct (get_ident (GTPath q lead segs)) as [id|] eqn:Egi.
        * destruct (get_ident_some _ _ _ _ Egi) as (-> & -> & a & -> & Hemp).
          destruct (assoc_str repl id) as [v|] eqn:Eas.
          -- (* the bare ident is replaced by both readings *)
             cbn [head_ok orb andb] in Hhead. rewrite Egi in Hhead.
             assert (Hin : in_names id = true).
             { destruct (in_names id) eqn:E; [reflexivity|]. apply assoc_none_names in E. congruence. }
             unfold in_names in Hin. rewrite Hin in Hhead. cbn [negb orb] in Hhead.
             destruct a as [|args|toks]; try discriminate.
             rewrite print_gtype_path. cbn [print_segs print_pargs app print_garg print_gtype].
             rewrite (spec_cons_repl prev id rest v Eas Hprev Hnext). reflexivity.
          -- apply Hgen. right. cbn [head_guard]. left. apply assoc_none_names. exact Eas.
        * apply Hgen. destruct lead; [left; reflexivity|right].
          cbn [head_ok orb] in Hhead. rewrite Egi in Hhead. cbn [andb] in Hhead.
          eapply (Hguard_of_head false); [reflexivity|exact Hhead|reflexivity].
      + apply Hgen. destruct lead; [left; reflexivity|right].
        cbn [head_ok orb andb] in Hhead.
        eapply (Hguard_of_head false); [reflexivity|exact Hhead|reflexivity].
    - (* GTOther *)
      intros toks in_arg Hnp _ _ prev rest _ _.
      cbn [nonpath_mentions] in Hnp.
      assert (E : print_garg (if in_arg then replace_garg repl (GType (GTOther toks))
                              else GType (replace_gtype_segs repl (GTOther toks))) = toks).
      { destruct in_arg; reflexivity. }
      rewrite E. cbn [print_gtype]. apply spec_nomention. exact Hnp.
    - (* ANone *)
      intros _ _ _ prev rest. reflexivity.
    - (* AAngle *)
      intros args HF Hnp Hpm Hho prev rest.
      cbn [np_pargs pm_pargs ho_pargs] in Hnp, Hpm, Hho.
      rewrite replace_pargs_angle, !print_pargs_angle.
      rewrite <- !app_comm_cons, <- !app_assoc.
      rewrite spec_cons_none by exact lt_none. f_equal.
      rewrite (spec_gargs args HF Hnp Hpm Hho true "<" ([">"] ++ rest)).
      + f_equal. cbn [app]. rewrite spec_cons_none by exact gt_none.
        rewrite last_cons, last_app_d. reflexivity.
      + intros _. discriminate.
      + cbn [app hd]. split; discriminate.
    - (* AParen *)
      intros toks _ Hpm _ prev rest. cbn [pm_pargs] in Hpm.
      cbn [replace_pargs print_pargs]. apply spec_nomention. exact Hpm.
    - (* GType *)
      intros t IHt Hnp Hpm Hho prev rest Hprev Hnext.
      cbn [np_garg pm_garg ho_garg] in Hnp, Hpm, Hho. cbn [print_garg].
      exact (IHt true Hnp Hpm Hho prev rest Hprev Hnext).
    - (* GOther *)
      intros toks Hnp _ _ prev rest _ _. cbn [np_garg] in Hnp.
      cbn [replace_garg print_garg]. apply spec_nomention. exact Hnp.
  Qed.
End Spec.

Lemma replace_spath_gtype repl p :
  print_spath (replace_spath repl p) = print_gtype (replace_gtype_segs repl (spath_gtype p)).
Proof.
  unfold print_spath, replace_spath, replace_segs, spath_gtype. cbn [sp_leading sp_segs].
  rewrite !replace_gtype_path. reflexivity.
Qed.

Theorem replace_is_spec repl p :
  nonpath_mentions (map fst repl) (spath_gtype p) = false ->
  names_not_punct (map fst repl) = true ->
  paren_mentions (map fst repl) (spath_gtype p) = false ->
  heads_ok (map fst repl) false (spath_gtype p) = true ->
  print_spath (replace_spath repl p) = subst_spec repl "" (print_spath p).
Proof.
  intros Hnp Hpu Hpm Hho.
  pose proof (proj1 (spec_all repl Hpu) (spath_gtype p) false Hnp Hpm Hho "" []) as H.
  rewrite !app_nil_r in H. cbn [print_garg] in H. rewrite replace_spath_gtype.
  symmetry. apply H; [discriminate|]. cbn [hd]. split; discriminate.
Qed.

Lemma spec_applicable_iff names p :
  spec_applicable names p = true <->
  nonpath_mentions names (spath_gtype p) = false /\ names_not_punct names = true /\
  paren_mentions names (spath_gtype p) = false /\ heads_ok names false (spath_gtype p) = true.
Proof.
  unfold spec_applicable. rewrite !andb_true_iff, !negb_true_iff. tauto.
Qed.

(** with no name to replace the specification is the identity *)
Lemma subst_spec_nil : forall toks prev, subst_spec [] prev toks = toks.
Proof. induction toks as [|t r IH]; intros prev; [reflexivity|]. cbn [subst_spec assoc_str]. rewrite IH. reflexivity. Qed.

(** ** what a [Specified] rule returns *)
Lemma selected_spec {A B} (f : A -> result B) (m : list (string * nat)) (params : list A) :
  forall names,
  Forall2 (fun (ni : string * nat) (nt : string * B) =>
             fst nt = fst ni /\ exists p, nth_error params (snd ni) = Some p /\ f p = Ok (snd nt))
          (applicable m params) names ->
  mapM (fun '(id, p) => let* t := f p in Ok (id, t)) (selected m params) = Ok names.
Proof.
  unfold applicable, selected. induction m as [|[id idx] m IH]; intros nms HF.
  - inversion HF; subst. reflexivity.
  - cbn [filter snd flat_map] in *.
    destruct (nth_error params idx) as [p|] eqn:En.
    + assert (Hlt : Nat.ltb idx (List.length params) = true).
      { apply Nat.ltb_lt. apply nth_error_Some. congruence. }
      rewrite Hlt in HF. inversion HF as [|x y l l' Hxy Hrest]; subst.
      destruct Hxy as (Hfst & p' & Hp' & Hf). cbn [fst snd] in *.
      rewrite En in Hp'. inversion Hp'; subst p'.
      cbn [app mapM]. rewrite Hf. cbn [bind]. rewrite (IH _ Hrest). cbn [bind].
      destruct y as [y1 y2]. cbn [fst snd] in *. subst y1. reflexivity.
    + assert (Hlt : Nat.ltb idx (List.length params) = false).
      { apply Nat.ltb_ge. apply nth_error_None. exact En. }
      rewrite Hlt in HF. cbn [app]. apply IH. exact HF.
Qed.

Lemma mapM_nil_inv {A B} (f : A -> result B) l : mapM f l = Ok [] -> l = [].
Proof.
  destruct l as [|x l]; [reflexivity|]. cbn [mapM]. intros H.
  apply bind_ok in H as (y & _ & H). apply bind_ok in H as (ys & _ & H). discriminate.
Qed.

Theorem specified_resolved s path params sub m names :
  subs_get (s_subs s) path = Some sub -> su_map sub = Specified m ->
  Forall2 (fun (ni : string * nat) (nt : string * tokens) =>
             fst nt = fst ni /\
             exists p, nth_error params (snd ni) = Some p /\
                       tp_tokens (alloc_tokens (s_alloc s)) p = Ok (snd nt))
          (applicable m params) names ->
  spec_applicable (map fst names) (su_path sub) = true ->
  for_path_with_params s path params =
  Some (Ok (TPath (subst_spec names "" (print_spath (su_path sub))) [])).
Proof.
  intros Hsub Hmap HF Happ. unfold for_path_with_params. rewrite Hsub, Hmap.
  pose proof (selected_spec (tp_tokens (alloc_tokens (s_alloc s))) m params names HF) as HM.
  change (flat_map (fun '(id, idx) => match nth_error params idx with
                                      | Some p => [(id, p)] | None => [] end) m)
    with (selected m params).
  destruct (selected m params) as [|x sel] eqn:Es.
  - cbn [mapM] in HM. inversion HM; subst names. rewrite subst_spec_nil. reflexivity.
  - rewrite HM. cbn [bind]. apply spec_applicable_iff in Happ as (H1 & H2 & H3 & H4).
    rewrite (replace_is_spec names (su_path sub) H1 H2 H3 H4). reflexivity.
Qed.

(** no applicable name: the target is returned unchanged (no side condition needed) *)
Theorem specified_no_names s path params sub m :
  subs_get (s_subs s) path = Some sub -> su_map sub = Specified m ->
  applicable m params = [] ->
  for_path_with_params s path params = Some (Ok (TPath (print_spath (su_path sub)) [])).
Proof.
  intros Hsub Hmap Happ. unfold for_path_with_params. rewrite Hsub, Hmap.
  pose proof (selected_spec (tp_tokens (alloc_tokens (s_alloc s))) m params [] ) as HM.
  rewrite Happ in HM. specialize (HM (Forall2_nil _)). apply mapM_nil_inv in HM.
  change (flat_map (fun '(id, idx) => match nth_error params idx with
                                      | Some p => [(id, p)] | None => [] end) m)
    with (selected m params).
  rewrite HM. reflexivity.
Qed.

(** ** finding F5: names inside non-path arguments are not replaced *)
Definition f5_target : spath :=
  mk_spath true [("x", ANone);
                 ("Baz", AAngle [GType (GTPath false true
                    [("y", ANone); ("Q", AAngle [GType (GTOther ["("; "A"; ","; "B"; ")"])])])])].
Definition f5_repl : list (string * tokens) :=
  [("A", [":"; ":"; "core"; ":"; ":"; "primitive"; ":"; ":"; "u8"]);
   ("B", [":"; ":"; "core"; ":"; ":"; "primitive"; ":"; ":"; "bool"])].

Lemma nonpath_args_refuted :
  exists repl p,
    names_not_punct (map fst repl) = true /\
    paren_mentions (map fst repl) (spath_gtype p) = false /\
    heads_ok (map fst repl) false (spath_gtype p) = true /\
    nonpath_mentions (map fst repl) (spath_gtype p) = true /\
    print_spath (replace_spath repl p) = print_spath p /\
    print_spath (replace_spath repl p) <> subst_spec repl "" (print_spath p).
Proof.
  exists f5_repl, f5_target. repeat split; try (vm_compute; reflexivity).
  vm_compute. discriminate.
Qed.

(** the side conditions hold on a non-trivial target, and each of (iii), (iv) is needed *)
Definition ex_target : spath :=
  mk_spath true [("x", ANone);
                 ("Baz", AAngle [GType (GTPath false false [("B", ANone)]);
                                 GType (GTPath false true
                                   [("y", ANone);
                                    ("Q", AAngle [GType (GTPath false false [("A", ANone)]);
                                                  GType (GTPath false false [("A", AAngle [GType (GTPath false false [("B", ANone)])])]);
                                                  GType (GTPath false false [("B", ANone); ("A", ANone)]);
                                                  GOther ["'a"]])]);
                                 GType (GTPath false false [("C", ANone)])])].

Lemma ex_spec_applicable :
  spec_applicable (map fst f5_repl) ex_target = true /\
  print_spath (replace_spath f5_repl ex_target) <> print_spath ex_target.
Proof. split; [vm_compute; reflexivity|vm_compute; discriminate]. Qed.

Lemma side_conditions_needed :
  (* (iii) a name inside parenthesised arguments *)
  (let p := mk_spath false [("x", AParen ["("; "A"; ")"])] in
   print_spath (replace_spath f5_repl p) <> subst_spec f5_repl "" (print_spath p)) /\
  (* (iv) the whole target is a name; [A<>], a [<A>]-qualified ident, [A(..)] as arguments *)
  (let p := mk_spath false [("A", ANone)] in
   print_spath (replace_spath f5_repl p) <> subst_spec f5_repl "" (print_spath p)) /\
  (let p := mk_spath false [("x", AAngle [GType (GTPath false false [("A", AAngle [])])])] in
   print_spath (replace_spath f5_repl p) <> subst_spec f5_repl "" (print_spath p)) /\
  (let p := mk_spath false [("x", AAngle [GType (GTPath true false [("A", ANone)])])] in
   print_spath (replace_spath f5_repl p) <> subst_spec f5_repl "" (print_spath p)) /\
  (let p := mk_spath false [("x", AAngle [GType (GTPath false false [("A", AParen ["("; ")"])])])] in
   print_spath (replace_spath f5_repl p) <> subst_spec f5_repl "" (print_spath p)) /\
  (* (ii) a punctuation token as a name *)
  (let p := mk_spath false [("x", AAngle [GType (GTPath false false [("y", ANone)]);
                                           GType (GTPath false false [("z", ANone)])])] in
   print_spath (replace_spath [(",", ["u8"])] p) <> subst_spec [(",", ["u8"])] "" (print_spath p)).
Proof. repeat split; vm_compute; discriminate. Qed.
