(** Proofs about [ensure_unique_type_paths] (utils.rs:29-90): frame, numbering. *)
From Coq Require Import List NArith String Bool Lia.
From V Require Import Base.Strings Base.Result Model.Registry Model.Derives Model.Equal Proofs.GenProofs.
Import ListNotations.
Open Scope string_scope. Open Scope list_scope.

(** the renaming pass, named *)
Fixpoint rename_pass (m : groups) (idx : N) (l : registry) : registry :=
  match l with
  | [] => []
  | (id, t) :: l' =>
      (id, match suffix_for m idx with
           | Some n => mk_ty (rename_last (t_path t) n) (t_params t) (t_def t) (t_docs t)
           | None => t
           end) :: rename_pass m (idx + 1)%N l'
  end.

Lemma ensure_unique_unfold r :
  ensure_unique r =
  let* _ := sanity r in let* m := build_groups r in Ok (rename_pass m 0%N r).
Proof.
  unfold ensure_unique. destruct (sanity r); cbn [bind]; auto.
  destruct (build_groups r) as [m| |]; cbn [bind]; auto. f_equal.
  generalize 0%N as idx. induction r as [|[id t] l IH]; intros idx; cbn [rename_pass]; auto.
  rewrite IH. reflexivity.
Qed.

(** one entry before / after: only the last path segment may change, to old ++ decimal n *)
Definition entry_frame (e e' : N * ty) : Prop :=
  fst e' = fst e /\ t_params (snd e') = t_params (snd e) /\ t_def (snd e') = t_def (snd e) /\
  t_docs (snd e') = t_docs (snd e) /\
  (t_path (snd e') = t_path (snd e) \/
   exists n, t_path (snd e') = rename_last (t_path (snd e)) n).

Lemma rename_pass_frame m : forall l idx, Forall2 entry_frame l (rename_pass m idx l).
Proof.
  induction l as [|[id t] l IH]; intros idx; cbn [rename_pass]; constructor; [|apply IH].
  unfold entry_frame; cbn [fst snd].
  destruct (suffix_for m idx) as [n|]; cbn; repeat split; auto. right; eexists; reflexivity.
Qed.

Theorem ensure_unique_frame r r' :
  ensure_unique r = Ok r' -> Forall2 entry_frame r r'.
Proof.
  rewrite ensure_unique_unfold. intros H.
  apply bind_ok in H as (u & _ & H). apply bind_ok in H as (m & _ & H).
  inversion H; subst. apply rename_pass_frame.
Qed.

Corollary ensure_unique_length r r' : ensure_unique r = Ok r' -> List.length r' = List.length r.
Proof.
  intros H. apply ensure_unique_frame in H. induction H; cbn; auto.
Qed.

Lemma rename_last_namespace p n : p <> [] -> namespace (rename_last p n) = namespace p.
Proof.
  intros _. unfold rename_last, namespace. rewrite removelast_app by discriminate.
  cbn. apply app_nil_r.
Qed.

Lemma rename_last_last p n : last (rename_last p n) "" = String.append (last p "") (N_to_string n).
Proof. unfold rename_last. apply last_last. Qed.

(** numbering: a suffix is the 1-based position of the entry's group among the groups of a
    path that has at least two groups *)
Fixpoint group_index (i : N) (gs : list (list N)) (n : N) : option N :=
  match gs with
  | [] => None
  | g :: gs' => if mem_N i g then Some n else group_index i gs' (n + 1)%N
  end.

Lemma find_g_eq i : forall gs n,
  (fix find_g (gs : list (list N)) (n : N) : option N :=
     match gs with
     | [] => None
     | g :: gs' => if mem_N i g then Some n else find_g gs' (n + 1)%N
     end) gs n = group_index i gs n.
Proof. induction gs as [|g gs IH]; intros n; cbn; auto. destruct (mem_N i g); auto. Qed.

(** [suffix_for] with the inner search named *)
Fixpoint suffix_for' (m : groups) (i : N) : option N :=
  match m with
  | [] => None
  | (_, gs) :: m' =>
      match gs with
      | _ :: _ :: _ =>
          match group_index i gs 1%N with
          | Some n => Some n
          | None => suffix_for' m' i
          end
      | _ => suffix_for' m' i
      end
  end.

Lemma suffix_for_eq m i : suffix_for m i = suffix_for' m i.
Proof.
  unfold suffix_for. induction m as [|[p gs] m IH]; cbn [suffix_for']; auto.
  destruct gs as [|g1 [|g2 gs']]; auto.
  rewrite find_g_eq. rewrite IH. reflexivity.
Qed.

Lemma suffix_for_spec m i n :
  suffix_for m i = Some n ->
  exists p gs, In (p, gs) m /\ (2 <= List.length gs)%nat /\ group_index i gs 1%N = Some n.
Proof.
  rewrite suffix_for_eq.
  induction m as [|[p gs] m IH]; cbn [suffix_for']; [discriminate|].
  assert (Hrec : suffix_for' m i = Some n ->
                 exists p0 gs0, In (p0, gs0) ((p, gs) :: m) /\ (2 <= List.length gs0)%nat /\
                                group_index i gs0 1%N = Some n).
  { intros H. destruct (IH H) as (p' & gs'' & Hin & Hl & Hg). exists p', gs''. split; [right; auto|auto]. }
  destruct gs as [|g1 [|g2 gs']]; auto.
  destruct (group_index i (g1 :: g2 :: gs') 1%N) as [k|] eqn:E; auto.
  intros H; inversion H; subst. exists p, (g1 :: g2 :: gs'). split; [left; auto|]. split; [cbn; lia|auto].
Qed.

Lemma group_index_pos i : forall gs n k, group_index i gs n = Some k -> (n <= k)%N.
Proof.
  induction gs as [|g gs IH]; intros n k; cbn; [discriminate|].
  destruct (mem_N i g); [intros H; inversion H; lia|].
  intros H. apply IH in H. lia.
Qed.

Corollary suffix_for_ge_1 m i n : suffix_for m i = Some n -> (1 <= n)%N.
Proof.
  intros H. apply suffix_for_spec in H as (p & gs & _ & _ & Hg). eapply group_index_pos; eauto.
Qed.

(** a path whose family forms a single group is untouched *)
Lemma suffix_for_single m i :
  (forall p gs, In (p, gs) m -> (List.length gs <= 1)%nat) -> suffix_for m i = None.
Proof.
  intros H. destruct (suffix_for m i) as [n|] eqn:E; auto.
  apply suffix_for_spec in E as (p & gs & Hin & Hl & _). apply H in Hin. lia.
Qed.
