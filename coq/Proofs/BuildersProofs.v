(** Proofs for C16 (settings builders as set/map accumulators over any call
    history) and C11 (settings validation, similar-path query): the model of
    Model/Builders.v satisfies the independent specifications of
    Model/BuildersSpec.v, for ALL histories / registries / settings
    (induction over the history resp. the lists; no bound). *)
From Coq Require Import List NArith String Bool Permutation Lia.
From V Require Import Base.Strings Base.Result Model.Registry Model.Settings Model.Subst
  Model.Derives Model.Builders Model.BuildersSpec Proofs.StringOrder Proofs.SortDedup.
Import ListNotations.
Open Scope string_scope. Open Scope list_scope.

(** * 1. one substitution: accepted / rejected forms *)

Lemma is_absolute_absolute p : is_absolute p = absolute p.
Proof. reflexivity. Qed.

Lemma path_segments_idents p : path_segments p = idents p.
Proof. reflexivity. Qed.

Lemma last_args_spec p :
  last_args p = if no_segments p then None else Some (final_args p).
Proof. unfold last_args, no_segments, final_args. destruct (sp_segs p); reflexivity. Qed.

Lemma get_ident_bare t : get_ident t = bare_ident (GType t).
Proof.
  destruct t as [q lead segs|toks]; cbn; [|reflexivity].
  destruct q, lead; reflexivity.
Qed.

Lemma from_args_spec l :
  from_args l = if forallb (fun g => is_some (bare_ident g)) l
                then Some (flat_map (fun g => match bare_ident g with Some i => [i] | None => [] end) l)
                else None.
Proof.
  induction l as [|g l IH]; [reflexivity|].
  destruct g as [t|toks]; [|reflexivity].
  cbn [from_args forallb flat_map]. rewrite get_ident_bare, IH.
  destruct (bare_ident (GType t)); cbn; [|reflexivity].
  destruct (forallb _ l); reflexivity.
Qed.

Lemma enumerate_combine {A} (l : list A) i : enumerate i l = combine l (seq i (List.length l)).
Proof. revert i; induction l as [|x l IH]; intros i; cbn; [reflexivity|]. rewrite IH. reflexivity. Qed.

Lemma to_arg_valid_type_path g : to_arg_valid g = is_type_path g.
Proof. destruct g as [[| ]|]; reflexivity. Qed.

(** the model's parser is the classification + the rule value (one equation) *)
Theorem parse_substitution_spec s t :
  parse_substitution s t =
  match classify s t with
  | Some e => inl e
  | None => inr (idents s, spec_value s t)
  end.
Proof.
  unfold parse_substitution, classify. rewrite is_absolute_absolute.
  destruct (absolute t); cbn [negb]; [|reflexivity].
  unfold parse_mapping. rewrite !last_args_spec.
  destruct (no_segments s); cbn [orb]; [reflexivity|].
  destruct (no_segments t); [reflexivity|].
  unfold spec_value, source_names.
  destruct (final_args s) as [|sargs|stoks]; cbn [parenthesised angle_args forallb negb flat_map].
  - destruct (final_args t) as [|targs|ttoks]; cbn [parenthesised angle_args forallb negb].
    + reflexivity.
    + change to_arg_valid with is_type_path.
      destruct (forallb is_type_path targs); cbn [negb]; [|reflexivity].
      destruct targs; reflexivity.
    + reflexivity.
  - rewrite from_args_spec.
    destruct (forallb (fun g => is_some (bare_ident g)) sargs); cbn [negb]; [|reflexivity].
    destruct (final_args t) as [|targs|ttoks]; cbn [parenthesised angle_args forallb negb].
    + rewrite enumerate_combine.
      destruct (flat_map _ sargs); reflexivity.
    + change to_arg_valid with is_type_path.
      destruct (forallb is_type_path targs); cbn [negb]; [|reflexivity].
      rewrite enumerate_combine.
      destruct (flat_map _ sargs); destruct targs; reflexivity.
    + reflexivity.
  - reflexivity.
Qed.

Corollary parse_substitution_rejects s t e :
  parse_substitution s t = inl e <-> classify s t = Some e.
Proof.
  rewrite parse_substitution_spec. destruct (classify s t); split; congruence.
Qed.

Corollary parse_substitution_accepts s t k v :
  parse_substitution s t = inr (k, v) <->
  classify s t = None /\ k = idents s /\ v = spec_value s t.
Proof.
  rewrite parse_substitution_spec. destruct (classify s t); split.
  - discriminate.
  - intros (H & _); discriminate.
  - intros H; inversion H; auto.
  - intros (_ & -> & ->); reflexivity.
Qed.

(** the documented error kinds, in the order the checks are made *)
Theorem classify_kinds s t :
  (absolute t = false -> classify s t = Some SExpectedAbsolutePath) /\
  (absolute t = true -> no_segments s || no_segments t = true ->
   classify s t = Some SEmptySubstitutePath) /\
  (absolute t = true -> no_segments s || no_segments t = false ->
   parenthesised (final_args s) = true -> classify s t = Some SExpectedAngleBracketGenerics) /\
  (absolute t = true -> no_segments s || no_segments t = false ->
   parenthesised (final_args s) = false ->
   forallb (fun g => is_some (bare_ident g)) (angle_args (final_args s)) = false ->
   classify s t = Some SInvalidFromType) /\
  (absolute t = true -> no_segments s || no_segments t = false ->
   parenthesised (final_args s) = false ->
   forallb (fun g => is_some (bare_ident g)) (angle_args (final_args s)) = true ->
   parenthesised (final_args t) = true -> classify s t = Some SExpectedAngleBracketGenerics) /\
  (absolute t = true -> no_segments s || no_segments t = false ->
   parenthesised (final_args s) = false ->
   forallb (fun g => is_some (bare_ident g)) (angle_args (final_args s)) = true ->
   parenthesised (final_args t) = false ->
   forallb is_type_path (angle_args (final_args t)) = false -> classify s t = Some SInvalidToType) /\
  (absolute t = true -> no_segments s || no_segments t = false ->
   parenthesised (final_args s) = false ->
   forallb (fun g => is_some (bare_ident g)) (angle_args (final_args s)) = true ->
   parenthesised (final_args t) = false ->
   forallb is_type_path (angle_args (final_args t)) = true -> classify s t = None).
Proof.
  unfold classify. repeat split; intros; repeat match goal with H : _ = _ |- _ => rewrite H; clear H end; reflexivity.
Qed.

(** * 2. histories: [run_ops] as a fold of the state, outcomes are state independent *)
Definition step_state (st : bstate) (o : op) : bstate := fst (apply_op st o).
Definition final_state (ops : list op) : bstate := fold_left step_state ops bstate_empty.

Lemma run_ops_gen ops : forall st outs,
  fold_left (fun '(st, outs) o => let '(st', e) := apply_op st o in (st', outs ++ [e])) ops (st, outs)
  = (fold_left step_state ops st,
     outs ++ snd (fold_left (fun '(st, outs) o => let '(st', e) := apply_op st o in (st', outs ++ [e])) ops (st, []))).
Proof.
  induction ops as [|o ops IH]; intros st outs; cbn [fold_left].
  - rewrite app_nil_r. reflexivity.
  - destruct (apply_op st o) as [st' e] eqn:E.
    assert (step_state st o = st') as -> by (unfold step_state; rewrite E; reflexivity).
    rewrite (IH st' (outs ++ [e])), (IH st' ([] ++ [e])). cbn [snd app].
    rewrite <- app_assoc. reflexivity.
Qed.

Lemma run_ops_fst ops : fst (run_ops ops) = final_state ops.
Proof. unfold run_ops. rewrite run_ops_gen. reflexivity. Qed.

Lemma extend_go_spec dr l : forall subs,
  extend_go dr l subs =
  (mk_bstate dr (fold_left (fun sb '(s, t) => subs_insert sb (idents s) (spec_value s t)) (ok_prefix l) subs),
   first_some (map (fun '(s, t) => classify s t) l)).
Proof.
  induction l as [|[s t] l IH]; intros subs; cbn [extend_go ok_prefix map first_some fold_left].
  - reflexivity.
  - rewrite parse_substitution_spec. destruct (classify s t) as [e|]; cbn [is_none fold_left].
    + reflexivity.
    + rewrite IH. reflexivity.
Qed.

Lemma apply_op_outcome st o : snd (apply_op st o) = spec_outcome o.
Proof.
  destruct o as [ds|ats|k ds rc|k ats rc|s t|s t|l]; cbn [apply_op spec_outcome snd]; try reflexivity.
  - rewrite parse_substitution_spec. destruct (classify s t); reflexivity.
  - rewrite parse_substitution_spec. destruct (classify s t); [reflexivity|].
    destruct (subs_get (b_subs st) (idents s)); reflexivity.
  - change (fun p : spath * spath => is_absolute (snd p)) with (fun p : spath * spath => absolute (snd p)).
    destruct (forallb _ l); cbn [negb]; [|reflexivity].
    rewrite extend_go_spec. reflexivity.
Qed.

Theorem run_ops_outcomes ops : snd (run_ops ops) = map spec_outcome ops.
Proof.
  unfold run_ops. generalize bstate_empty.
  induction ops as [|o ops IH]; intros st; [reflexivity|].
  cbn [fold_left map]. destruct (apply_op st o) as [st' e] eqn:E.
  rewrite run_ops_gen. cbn [snd app]. rewrite IH.
  f_equal. rewrite <- (apply_op_outcome st o), E. reflexivity.
Qed.

(** * 3. the rule for a key *)
Lemma path_eqb_sym a b : path_eqb a b = path_eqb b a.
Proof.
  destruct (path_eqb a b) eqn:E1, (path_eqb b a) eqn:E2; try reflexivity.
  - apply path_eqb_eq in E1; subst. rewrite path_eqb_refl in E2; discriminate.
  - apply path_eqb_eq in E2; subst. rewrite path_eqb_refl in E1; discriminate.
Qed.

Lemma subs_get_insert s p v k :
  subs_get (subs_insert s p v) k = if path_eqb p k then Some v else subs_get s k.
Proof.
  induction s as [|[k0 v0] s IH]; cbn [subs_insert subs_get].
  - reflexivity.
  - destruct (path_eqb k0 p) eqn:E0; cbn [subs_get].
    + apply path_eqb_eq in E0; subst k0. destruct (path_eqb p k); reflexivity.
    + rewrite IH. destruct (path_eqb k0 k) eqn:E1; [|reflexivity].
      apply path_eqb_eq in E1; subst k0. rewrite path_eqb_sym, E0. reflexivity.
Qed.

Lemma or_else_none {A} (a : option A) : or_else a None = a.
Proof. destruct a; reflexivity. Qed.

Lemma ok_prefix_accepted l : Forall (fun p => classify (fst p) (snd p) = None) (ok_prefix l).
Proof.
  induction l as [|[s t] l IH]; cbn; [constructor|].
  destruct (classify s t) eqn:E; cbn; constructor; auto.
Qed.

Lemma ext_elems_accepted l : Forall (fun p => classify (fst p) (snd p) = None) (ext_elems l).
Proof. unfold ext_elems. destruct (forallb _ l); [apply ok_prefix_accepted|constructor]. Qed.

Lemma fold_insert_get k elems :
  Forall (fun p => classify (fst p) (snd p) = None) elems ->
  forall subs,
  subs_get (fold_left (fun sb '(s, t) => subs_insert sb (idents s) (spec_value s t)) elems subs) k
  = fold_left (fun c '(s, t) => or_else (writes s t k) c) elems (subs_get subs k).
Proof.
  induction 1 as [|[s t] elems Hc _ IH]; intros subs; cbn [fold_left]; [reflexivity|].
  rewrite IH, subs_get_insert. f_equal.
  unfold writes. cbn [fst snd] in Hc. rewrite Hc. cbn [is_none andb].
  destruct (path_eqb (idents s) k); reflexivity.
Qed.

(** one call moves the rule of every key exactly as the specification says *)
Lemma step_rule st o k :
  subs_get (b_subs (step_state st o)) k = rule_step k (subs_get (b_subs st) k) o.
Proof.
  unfold step_state.
  destruct o as [ds|ats|k0 ds rc|k0 ats rc|s t|s t|l]; cbn [apply_op rule_step fst b_subs]; try reflexivity.
  - rewrite parse_substitution_spec. unfold writes.
    destruct (classify s t); cbn [is_none andb or_else fst b_subs]; [reflexivity|].
    rewrite subs_get_insert. destruct (path_eqb (idents s) k); reflexivity.
  - rewrite parse_substitution_spec. unfold writes.
    destruct (classify s t); cbn [is_none andb fst b_subs]; [rewrite or_else_none; reflexivity|].
    destruct (path_eqb (idents s) k) eqn:E.
    + apply path_eqb_eq in E; subst k.
      destruct (subs_get (b_subs st) (idents s)) eqn:G; cbn [fst b_subs or_else].
      * exact G.
      * rewrite subs_get_insert, path_eqb_refl. reflexivity.
    + rewrite or_else_none.
      destruct (subs_get (b_subs st) (idents s)) eqn:G; cbn [fst b_subs]; [reflexivity|].
      rewrite subs_get_insert, E. reflexivity.
  - unfold ext_elems.
    change (fun p : spath * spath => is_absolute (snd p)) with (fun p : spath * spath => absolute (snd p)).
    destruct (forallb _ l); cbn [negb fst b_subs fold_left]; [|reflexivity].
    rewrite extend_go_spec. cbn [fst b_subs].
    apply fold_insert_get. apply ok_prefix_accepted.
Qed.

Theorem rule_for_key ops k :
  subs_get (b_subs (fst (run_ops ops))) k = spec_rule ops k.
Proof.
  rewrite run_ops_fst. unfold final_state, spec_rule.
  change (@None substitute) with (subs_get (b_subs bstate_empty) k).
  generalize bstate_empty.
  induction ops as [|o ops IH]; intros st; cbn [fold_left]; [reflexivity|].
  rewrite IH, step_rule. reflexivity.
Qed.

(** a rejected insertion leaves the whole state unchanged *)
Theorem rejected_insert_unchanged st s t e :
  classify s t = Some e ->
  apply_op st (OpSubInsert s t) = (st, Some e) /\
  apply_op st (OpSubInsertIfAbsent s t) = (st, Some e).
Proof.
  intros H. cbn [apply_op]. rewrite parse_substitution_spec, H. split; reflexivity.
Qed.

(** [extend]: exactly the elements before the first rejected one are inserted
    (none if some target is relative), in order; the derives are untouched *)
Theorem extend_exact st l :
  apply_op st (OpSubExtend l) =
  (mk_bstate (b_dreg st)
             (fold_left (fun sb '(s, t) => subs_insert sb (idents s) (spec_value s t)) (ext_elems l) (b_subs st)),
   spec_outcome (OpSubExtend l)).
Proof.
  cbn [apply_op spec_outcome]. unfold ext_elems.
  change (fun p : spath * spath => is_absolute (snd p)) with (fun p : spath * spath => absolute (snd p)).
  destruct (forallb _ l); cbn [negb fold_left].
  - apply extend_go_spec.
  - destruct st; reflexivity.
Qed.

(** what [ext_elems] is: a prefix of the call's elements, all accepted, followed (if shorter) by a rejected one *)
Theorem ext_elems_prefix l :
  exists rest, l = ext_elems l ++ rest /\
    Forall (fun p => classify (fst p) (snd p) = None) (ext_elems l) /\
    (forallb (fun p => absolute (snd p)) l = true ->
     match rest with [] => True | p :: _ => classify (fst p) (snd p) <> None end).
Proof.
  unfold ext_elems. destruct (forallb (fun p => absolute (snd p)) l).
  - induction l as [|[s t] l (rest & E & F & R)]; cbn [ok_prefix].
    + exists []; repeat split; auto.
    + destruct (classify s t) eqn:C; cbn [is_none].
      * exists ((s, t) :: l). repeat split; auto. intros _. cbn. congruence.
      * exists rest. repeat split.
        -- cbn. f_equal. exact E.
        -- constructor; auto.
        -- exact R.
  - exists l. repeat split; auto. discriminate.
Qed.
